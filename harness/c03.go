package main

import (
	"encoding/json"
	"fmt"
	"math/rand"
	"os"
	"regexp"
	"strings"

	"github.com/rkosegi/yaml-toolkit/dom"
)

// C03 — builder edits behave like edits on a plain tree (set-get and frame).

type bOp struct {
	Op   string `json:"op"`
	Path string `json:"path,omitempty"`
	Idx  int    `json:"idx"`
	V    W      `json:"v,omitempty"`
}

type c03Hist struct {
	Start W     `json:"start"`
	Ops   []bOp `json:"ops"`
}

func init() {
	register(&Prop{ID: "C03", Run: c03Run,
		Rule: "histories of AddValue / AddValueAt / AddContainer / AddList / Remove / RemoveAt / ListBuilder.Set / Append / Clear / MustSet(in range) / Walk(CompactFn) over path-safe keys with index groups (nested up to 2), aimed at existing positions 2/3 of the time, from empty / generated start documents; every step is filtered by the domain predicate (no index step lands on an existing non-list, non-null node; remove paths end in a key; a write makes no key step into an existing list, a RemoveAt may: the path is then absent and nothing may change). One RemoveAt in three aims at an existing path below a list item with one index group re-spelled as a digit-only member name (`a.l[1].b` -> `a.l.1.b`: another path on the plain tree, absent unless a container has a member of that name), and after every step Lookup is compared with the lookup on the plain tree at up to 3 paths through list items and up to 6 such re-spellings. One history in four draws its keys from a second path-safe pool (vr_util.go: case twins, letters outside ASCII in 2/3/4 UTF-8 bytes, digit-only and sign-prefixed names, prefix-related siblings, names with inner / leading / trailing blanks and with characters that are syntax elsewhere: '/', '~', '#', '{', '=', ':'), every third history draws one index in six from 9..12 (two-digit index groups, lists padded to that length), one in four starts from a document rich in empty-but-present values (empty containers, empty lists, [[]], [{}], lists of nulls, the empty string, below containers at every depth) and compacts three times as often; after every Walk(CompactFn) the document is compared with the compaction of the previous state computed on the plain tree (exactly the empty keyed containers go, cascading upwards; lists, their items and every leaf stay). While a history runs the evaluation holds on to up to 16 composite nodes of the document (looked up at their positions in the start document and after the step that created them, the way a caller keeps what AddList / AddContainer / Lookup returned); a held node is dropped when a step writes, adds or removes at or above its position (Set on the item it sits in, Clear of a list around it, any compaction), otherwise Lookup at its position must still return that very node after the step — a write below it (a member, a slot created by padding past the end) goes into it — and a list operation on a path for which a ListBuilder is held goes through the held one, its effect being read from the document as always. Non-trivial: at least 3 steps changed the document; distinct by case hash. deep cases (harness/c03_deep.go; a dozen per quick run, direct predicates only): a chain of 40..2500 nested composites — on and around 255/256, 999..1003, 1024, 2048 and three random depths; containers, or every n-th level a list — built by nested AddContainer / AddList / Append calls or by ONE AddValueAt per name with a path of that many components, whose innermost composite holds one value as ONE node object under 2-3 names (and now and then once more further up) next to a value of its own; AsMap / AsSlice of the root and of inner levels (among them those from which the shared value is 999..1002 levels down), the walk through Children()/Items() and Lookup of the deep paths are compared with the plain tree built alongside, again after removing one name and adding a leaf at the bottom. heap-hist cases (harness/heap_builder.go): the start document is built by one of seven routes (FromMap, AddValue/ListNode with own / shared / mixed nil leaves, the AddContainer/AddList/Set/Append API, shared subtrees, containers with an add-and-remove history), its real object graph is encoded as an explicit heap by pointer identity, and a history of 3-14 (thorough: up to 30) builder calls is run that KEEPS the nodes returned by AddContainer / AddList / Child / Lookup as handles and later writes through them (half of the calls), mixed with root-level path writes aimed at the handles' positions (overwrite / remove / re-create), list Set / MustSet / Append / Clear, Walk(CompactFn), and now and then attaches a node the history already holds (sharing; never closing a cycle); after every call the document, the sharing map of its graph, the liveness of every handle, the returned node and the set of existing objects whose content changed are compared with the heap model (lean/YtkModel/HeapBuilder.lean). Such a case is non-trivial when at least one write went through a kept handle and at least 2 calls changed the document.",
		Assumptions: []string{"remove operations range over paths whose last step is a key (DESIGN.md section 2)",
			"a null pad at a list slot counts as absent for a following index step (it is replaced by a list)",
			"heap-hist tie: a node object is identified by the address its pointer holds, a children map by the address of its header (Children() returns the map itself); item slices are observed through Items(); allocation order is not observable, so new objects are numbered by first visit (preorder, key order; the root's graph, then every detached handle's graph) on both sides; value nodes of heap-hist cases are built with a new leaf object per null, the start document by one of the seven routes of heap_share.go"}})
	evals["C03"] = c03Eval
	shrinkers["C03"] = shrinkJSON
}

var c03Keys = []string{"a", "b", "c", "k1", "x-y"}

// c03WideKeys: a second pool of path-safe names (free of '.', '[' and ']', non-empty): what the first pool never
// has — names that differ by case only, letters outside ASCII, names that are numbers, names one of which is a
// prefix of the other, blanks inside and around a name, characters that are syntax of other notations.
var c03WideKeys = append(append([]string{}, vrLetterKeys[:24]...),
	"0", "00", "7", "-1", "1e3", "a b", " a", "a ", "a\ta", "\u00a0a", "a/b", "/", "~", "~0", "#", "{", "}", "a=b", ":", "a: b", "*", "&a", "!", "\\", "'", "\"", "%", "$", ",", "?", "true", "null", "🚀")

// c03KeyPool: the pool a history draws its member names from (set by the generator for the history it is
// generating; c03Component / c03Path are shared with heap_builder.go, which always uses c03Keys).
var c03KeyPool = c03Keys

// c03BigIdx: one index draw in six is 9, 10, 11 or 12 (the step from one-digit to two-digit index groups, lists padded
// to that length); set by the generator for every third history.
var c03BigIdx = false

func c03Idx(r *rand.Rand, n int) int {
	if c03BigIdx && r.Intn(6) == 0 {
		return 9 + r.Intn(4)
	}
	return r.Intn(n)
}

func c03Component(r *rand.Rand) string {
	k := pick(r, c03KeyPool)
	switch r.Intn(6) {
	case 0:
		return fmt.Sprintf("%s[%d]", k, c03Idx(r, 4))
	case 1:
		return fmt.Sprintf("%s[%d][%d]", k, c03Idx(r, 3), c03Idx(r, 3))
	}
	return k
}

func c03Path(r *rand.Rand, existing []string) string {
	if len(existing) > 0 && r.Intn(3) > 0 {
		p := pick(r, existing)
		switch r.Intn(4) {
		case 0:
			return p + "." + c03Component(r)
		case 1:
			if i := strings.LastIndexAny(p, ".["); i > 0 && r.Intn(2) == 0 {
				return p[:i]
			}
		}
		return p
	}
	n := 1 + r.Intn(3)
	cs := make([]string, n)
	for i := range cs {
		cs[i] = c03Component(r)
	}
	return strings.Join(cs, ".")
}

var trailingIdx = regexp.MustCompile(`(\[\d+])+$`)

// c03InDomain: walking path p over state w, every index group must land on a list, on a null
// leaf (pad) or on nothing, and no key step may land on an existing list.  Key steps may descend
// through scalars (they are replaced by containers; the frame clause excludes that prefix).
func c03InDomain(w W, p string) bool { return c03InDomainOf(w, p, true) }

// c03InDomainOf: write=false is the domain of RemoveAt (and of Lookup): these create nothing, so a key step into
// an existing list simply finds nothing there on the plain tree — the path is absent, removing it is a no-op
// (theorem removeAt_absent) — whatever the name is, a digit-only name such as "0" included: a name is a name, only an
// index GROUP `[n]` addresses a list item.  (For a write the code replaces the list by a container, where the
// plain-tree reading has no answer: DESIGN.md 10.4.)
func c03InDomainOf(w W, p string, write bool) bool {
	cur := w
	exists := true
	for _, comp := range strings.Split(p, ".") {
		base := comp
		var idxs []int
		if loc := trailingIdx.FindStringIndex(comp); loc != nil {
			base = comp[:loc[0]]
			for _, m := range regexp.MustCompile(`\[(\d+)]`).FindAllStringSubmatch(comp[loc[0]:], -1) {
				var n int
				fmt.Sscanf(m[1], "%d", &n)
				idxs = append(idxs, n)
			}
		}
		if base == "" {
			return false
		}
		if exists {
			c, ok := wireCont(cur)
			if !ok {
				if _, isList := cur.([]any); isList && write {
					return false // key step into an existing list (kind mismatch, like indexing a non-list)
				}
				exists = false
			} else if nx, ok := c[base]; ok {
				cur = nx
			} else {
				exists = false
			}
		}
		for _, i := range idxs {
			if !exists {
				break
			}
			l, ok := cur.([]any)
			if !ok {
				if isWireLeaf(cur) && cur.(map[string]any)["t"] == "nil" {
					exists = false
					break
				}
				return false // index step on an existing non-list node
			}
			if i < len(l) {
				cur = l[i]
			} else {
				exists = false
			}
		}
	}
	return true
}

var idxGroup = regexp.MustCompile(`\[(\d+)]`)

// c03Respellings: the spellings of p in which ONE index group `[n]` is written as a member name of its own, `.n`
// (`a.l[1].b` -> `a.l.1.b`).  On the plain tree these are other paths: a digit-only name is a name like any other,
// it finds a member called "1" of a container and nothing at all in a list.
func c03Respellings(p string) []string {
	var out []string
	for _, loc := range idxGroup.FindAllStringSubmatchIndex(p, -1) {
		if loc[0] == 0 || p[loc[0]-1] == '.' {
			continue
		}
		out = append(out, p[:loc[0]]+"."+p[loc[2]:loc[3]]+p[loc[1]:])
	}
	return out
}

// c03RespellPath: p, or an existing path below a list item, with one index group re-spelled as a digit-only name.
func c03RespellPath(r *rand.Rand, p string, existing []string) string {
	var below []string
	for _, q := range existing {
		if strings.Contains(q, "[") && !strings.HasSuffix(q, "]") {
			below = append(below, q)
		}
	}
	if len(below) > 0 && r.Intn(4) > 0 {
		p = pick(r, below)
	}
	if rs := c03Respellings(p); len(rs) > 0 {
		return pick(r, rs)
	}
	return p
}

// c03LookupProbes: existing paths through list items (at most 3) and their re-spellings with a digit-only name
// (at most 6), spread over the document; deterministic.
func c03LookupProbes(w W) []string {
	var paths, lists, through, resp []string
	wirePaths(w, "", &paths, &lists)
	for _, q := range paths {
		if strings.Contains(q, "[") {
			through = append(through, q)
			resp = append(resp, c03Respellings(q)...)
		}
	}
	spread := func(xs []string, n int) []string {
		if len(xs) <= n {
			return xs
		}
		out := make([]string, 0, n)
		for i := 0; i < n; i++ {
			out = append(out, xs[i*len(xs)/n])
		}
		return out
	}
	return append(spread(through, 3), spread(resp, 6)...)
}

// c03CompactWeight: how many of 20 (+ weight - 2) draws are Walk(CompactFn) (2 by default).
var c03CompactWeight = 2

func c03GenOps(r *rand.Rand, g *DocGen, start W, n int, probe func(W, bOp) W) []bOp {
	state := start
	var ops []bOp
	for len(ops) < n {
		var paths, lists []string
		wirePaths(state, "", &paths, &lists)
		var op bOp
		switch k := r.Intn(18 + c03CompactWeight); {
		case k < 6:
			op = bOp{Op: "addvalueat", Path: c03Path(r, paths), V: g.Node(r, g.MaxDepth-2)}
		case k < 8:
			op = bOp{Op: "addvalue", Path: c03Component(r), V: g.Node(r, g.MaxDepth-2)}
		case k == 8:
			op = bOp{Op: "addcontainer", Path: c03Component(r)}
		case k == 9:
			op = bOp{Op: "addlist", Path: c03Component(r)}
		case k == 10:
			op = bOp{Op: "remove", Path: pick(r, c03KeyPool)}
		case k < 13:
			p := c03Path(r, paths)
			if r.Intn(3) == 0 {
				p = c03RespellPath(r, p, paths)
			}
			if trailingIdx.MatchString(p) {
				continue // remove paths end in a key
			}
			op = bOp{Op: "removeat", Path: p}
		case k < 18:
			if len(lists) == 0 {
				continue
			}
			lp := pick(r, lists)
			switch r.Intn(4) {
			case 0:
				op = bOp{Op: "listset", Path: lp, Idx: c03Idx(r, 5), V: g.Node(r, g.MaxDepth-1)}
			case 1:
				op = bOp{Op: "listappend", Path: lp, V: g.Node(r, g.MaxDepth-1)}
			case 2:
				op = bOp{Op: "listclear", Path: lp}
			default:
				op = bOp{Op: "listmustset", Path: lp, Idx: c03Idx(r, 5), V: g.Scalar(r)}
			}
		default:
			op = bOp{Op: "compact"}
		}
		if op.Path != "" && !c03InDomainOf(state, op.Path, op.Op != "removeat") {
			continue
		}
		if op.Op == "listmustset" {
			// in range only
			if l, ok := wireLookup(state, op.Path).([]any); !ok || op.Idx >= len(l) {
				continue
			}
		}
		ops = append(ops, op)
		state = probe(state, op)
	}
	return ops
}

// wireLookup follows a flatten-style path in a wire document (nil when absent).
func wireLookup(w W, p string) W {
	cur := w
	for _, comp := range strings.Split(p, ".") {
		base := comp
		var idxs []int
		if loc := trailingIdx.FindStringIndex(comp); loc != nil {
			base = comp[:loc[0]]
			for _, m := range regexp.MustCompile(`\[(\d+)]`).FindAllStringSubmatch(comp[loc[0]:], -1) {
				var n int
				fmt.Sscanf(m[1], "%d", &n)
				idxs = append(idxs, n)
			}
		}
		c, ok := wireCont(cur)
		if !ok {
			return nil
		}
		nx, ok := c[base]
		if !ok {
			return nil
		}
		cur = nx
		for _, i := range idxs {
			l, ok := cur.([]any)
			if !ok || i >= len(l) {
				return nil
			}
			cur = l[i]
		}
	}
	return cur
}

func c03Run(c *Ctx) {
	c03KeyPool, c03CompactWeight, c03BigIdx = c03Keys, 2, false
	if os.Getenv("VERIF_C03_ONLY") == "heap-hist" { // detection experiments: the pointer-level histories alone
		heapHistGen(c, c.N(250))
		return
	}
	r := c.Rng
	g := stdGen()
	g.Keys = c03Keys
	g.MaxDepth = 3
	maxLen := 30
	if c.Thorough() {
		maxLen = 120
	}
	// the generator needs the state after each step to stay inside the domain: it applies the
	// step to the real implementation (a scratch builder) and reads the state back
	ge := *g // empty-but-present values below containers at every depth
	ge.PEmpty, ge.PLeaf, ge.PNull, ge.MaxDepth, ge.Strings = 0.45, 0.3, 0.3, 4, []string{"", "", " ", "s"}
	for i := 0; i < c.N(400); i++ {
		c.Tick()
		c03KeyPool, c03CompactWeight, g.Keys = c03Keys, 2, c03Keys
		c03BigIdx = i%3 == 0
		if i%4 == 1 {
			// a handful of names of the wide pool per history, so that they meet each other
			c03KeyPool = []string{pick(r, c03WideKeys), pick(r, c03WideKeys), pick(r, c03WideKeys), pick(r, c03WideKeys), pick(r, c03Keys)}
			if r.Intn(2) == 0 {
				tw := [][]string{{"maxConn", "maxconn", "MAXCONN", "max", "maxC"}, {"\u00e9", "È", "größe", "GRÖSSE", "ß"}, {"0", "00", "7", "-1", "a"}, {"a", "a ", " a", "a b", "A"}, {"名前", "名", "𝛼", "𝛼𝛽", "ω"}}
				c03KeyPool = pick(r, tw)
			}
			g.Keys = c03KeyPool
			c.Dist("history:wide-key-pool")
		}
		ge.Keys = g.Keys
		var start W = map[string]any{"m": map[string]any{}}
		if r.Intn(3) > 0 {
			start = g.Doc(r)
		}
		if i%4 == 2 {
			start = ge.Doc(r)
			c03CompactWeight = 6
			c.Dist("history:empty-rich-start")
		}
		scratch := wireContainer(start)
		probe := func(_ W, op bOp) W {
			guard(func() { c03Apply(scratch, op) })
			return nodeWire(scratch)
		}
		n := 3 + r.Intn(maxLen)
		c.Do("history", c03Hist{Start: start, Ops: c03GenOps(r, g, start, n, probe)})
	}
	c03KeyPool, c03CompactWeight, c03BigIdx = c03Keys, 2, false
	heapHistGen(c, c.N(250)) // heap_builder.go: histories that keep handles, compared at pointer level
	g.Keys = c03Keys
	c03DeepGen(c, g) // c03_deep.go: a few deep documents (direct predicates only)
}

// c03Apply performs one builder call; returns fluent-identity problems.
func c03Apply(cb dom.ContainerBuilder, op bOp) (fluent string) { return c03ApplyH(cb, op, nil) }

// c03ApplyH: a list operation goes through `kept` when the caller still holds the list of op.Path from an earlier
// step (the ListBuilder AddList returned, or one looked up before), the way a program does that builds a document:
// l := b.AddList("l"); …other edits…; l.Append(v).
func c03ApplyH(cb dom.ContainerBuilder, op bOp, kept dom.Node) (fluent string) {
	switch op.Op {
	case "addvalue":
		if cb.AddValue(op.Path, wireNode(op.V)) != cb {
			fluent = "AddValue did not return the receiver"
		}
	case "addvalueat":
		if cb.AddValueAt(op.Path, wireNode(op.V)) != cb {
			fluent = "AddValueAt did not return the receiver"
		}
	case "addcontainer":
		ret := cb.AddContainer(op.Path)
		if n := cb.Child(op.Path); n == nil || dom.Node(ret) != n {
			fluent = "AddContainer did not return the container it added"
		}
	case "addlist":
		ret := cb.AddList(op.Path)
		if n := cb.Child(op.Path); n == nil || dom.Node(ret) != n {
			fluent = "AddList did not return the list it added"
		}
	case "remove":
		if cb.Remove(op.Path) != cb {
			fluent = "Remove did not return the receiver"
		}
	case "removeat":
		if cb.RemoveAt(op.Path) != cb {
			fluent = "RemoveAt did not return the receiver"
		}
	case "compact":
		cb.Walk(dom.CompactFn)
	case "listset", "listappend", "listclear", "listmustset":
		n := kept
		if n == nil {
			n = cb.Lookup(op.Path)
		}
		if n == nil || !n.IsList() {
			return
		}
		lb := n.(dom.ListBuilder)
		var ret dom.ListBuilder
		switch op.Op {
		case "listset":
			ret = lb.Set(uint(op.Idx), wireNode(op.V))
		case "listappend":
			ret = lb.Append(wireNode(op.V))
		case "listclear":
			ret = lb.Clear()
		default:
			ret = lb.MustSet(uint(op.Idx), wireNode(op.V))
		}
		if ret != lb {
			fluent = op.Op + " did not return the receiver"
		}
	}
	return
}

func pathUnder(q, p string) bool {
	return q == p || strings.HasPrefix(q, p+".") || strings.HasPrefix(q, p+"[")
}

func flatMap(w []any) map[string]string {
	m := map[string]string{}
	for _, e := range w {
		pr := e.([]any)
		m[pr[0].(string)] = canon(pr[1])
	}
	return m
}

var nullCanon = canon(scalarWire(nil))

// isPadOf: q is a list slot along path p (p[:k] + "[n]" for some '[' at k in p).
func isPadOf(q, p string) bool {
	for k := 0; k < len(p); k++ {
		if p[k] == '[' && strings.HasPrefix(q, p[:k]+"[") {
			rest := q[k+1:]
			if j := strings.IndexByte(rest, ']'); j > 0 && j == len(rest)-1 {
				return true
			}
		}
	}
	return false
}

func c03Eval(c *Ctx, kind string, raw []byte) {
	switch kind {
	case "heap-hist":
		heapHistEval(c, raw)
		return
	case "deep":
		c03DeepEval(c, raw)
		return
	}
	var h c03Hist
	if err := json.Unmarshal(raw, &h); err != nil {
		panic(err)
	}
	states := []any{}
	outcome := "ok"
	changed := 0
	var cb dom.ContainerBuilder
	out, txt := guard(func() { cb = wireContainer(h.Start) })
	if out != "ok" {
		c.Direct("no-panic(build start)", false, txt)
		return
	}
	prev := nodeWire(cb)
	// kept: composite nodes of the document the caller holds on to, by the position at which they were obtained
	// (looked up after the step that created them).  A step at or above a position — a write, an AddContainer /
	// AddList, a removal there, Set on the item it sits in or below, Clear of a list it sits in — replaces or removes
	// that node on the plain tree, and the entry is dropped; every other step leaves the node where it is, a write
	// THROUGH it (a member or a slot below it, existing or created by padding) included.
	kept := map[string]dom.Node{}
	keep := func(cur W) {
		var ps, lists, conts []string
		wirePaths(cur, "", &ps, &lists)
		wireContPaths(cur, "", &conts)
		for _, q := range append(lists, conts...) {
			if len(kept) >= 16 {
				break
			}
			if _, has := kept[q]; !has {
				guard(func() {
					if n := cb.Lookup(q); n != nil && !n.IsLeaf() {
						kept[q] = n
					}
				})
			}
		}
	}
	keep(prev)
	for i, op := range h.Ops {
		c.Dist("op:" + op.Op)
		outside := op.Path != "" && !c03InDomainOf(prev, op.Path, op.Op != "removeat")
		if strings.HasPrefix(op.Op, "list") {
			l, ok := wireLookup(prev, op.Path).([]any)
			outside = outside || !ok || (op.Op == "listmustset" && op.Idx >= len(l))
		}
		if (op.Op == "remove" || op.Op == "removeat") && trailingIdx.MatchString(op.Path) {
			outside = true
		}
		if outside {
			// a shrunk or hand-written case may leave the domain: stop comparing here
			c.Dist("left-domain")
			h.Ops = h.Ops[:i]
			break
		}
		oldFlat := flatMap(flattenWire(cb))
		var fluent string
		via := kept[op.Path]
		if via != nil && strings.HasPrefix(op.Op, "list") {
			c.Dist("list op through a kept ListBuilder")
		}
		o, t := guard(func() { fluent = c03ApplyH(cb, op, via) })
		if !c.Direct("no-panic", o == "ok", map[string]any{"step": i, "op": op, "panic": t}) {
			outcome = "panic"
			h.Ops = h.Ops[:i+1]
			break
		}
		c.Direct("fluent-returns-receiver", fluent == "", map[string]any{"step": i, "op": op, "problem": fluent})
		cur := nodeWire(cb)
		if canon(cur) != canon(prev) {
			changed++
		}
		c.Direct("AsMap-consistent", canon(plainWire(cb.AsMap())) == canon(cur), map[string]any{"step": i})
		newFlat := flatMap(flattenWire(cb))
		det := map[string]any{"step": i, "op": op, "before": prev, "after": cur}
		switch op.Op {
		case "addvalue", "addvalueat":
			got := cb.Lookup(op.Path)
			c.Direct("set-get", got != nil && canon(nodeWire(got)) == canon(op.V), det)
			for q, v := range newFlat {
				if pathUnder(q, op.Path) {
					continue
				}
				if ov, ok := oldFlat[q]; ok && ov == v {
					continue
				}
				c.Direct("frame(write): nothing new outside the written subtree except null pads",
					v == nullCanon && isPadOf(q, op.Path), map[string]any{"step": i, "op": op, "path": q, "before": prev, "after": cur})
			}
			for q, v := range oldFlat {
				if pathUnder(q, op.Path) || pathUnder(op.Path, q) {
					continue
				}
				if v == nullCanon && isPadOf(q, op.Path) {
					continue // a pad slot replaced by a list / container on the way
				}
				nv, ok := newFlat[q]
				c.Direct("frame(write): nothing outside the written subtree is lost or changed", ok && nv == v,
					map[string]any{"step": i, "op": op, "path": q, "before": prev, "after": cur})
			}
		case "addcontainer", "addlist":
			got := cb.Lookup(op.Path)
			want := W(map[string]any{"m": map[string]any{}})
			if op.Op == "addlist" {
				want = []any{}
			}
			c.Direct("set-get(empty composite)", got != nil && canon(nodeWire(got)) == canon(want), det)
		case "remove", "removeat":
			c.Direct("remove-get", cb.Lookup(op.Path) == nil, det)
			for q, v := range oldFlat {
				under := pathUnder(q, op.Path)
				nv, ok := newFlat[q]
				c.Direct("frame(remove): exactly the removed subtree disappears", (under && !ok) || (!under && ok && nv == v),
					map[string]any{"step": i, "op": op, "path": q, "before": prev, "after": cur})
			}
			c.Direct("frame(remove): nothing appears", len(newFlat) <= len(oldFlat), det)
		case "compact":
			want := c03RefCompact(prev)
			c.Direct("compact==compaction of the plain tree (exactly the empty keyed containers go, cascading; lists and leaves stay)", canon(cur) == canon(want),
				map[string]any{"step": i, "before": prev, "after": cur, "expected": want})
			// nothing that was not removed became unreachable: every member of the compacted plain tree is still found by Lookup
			var keep, keepLists []string
			wirePaths(want, "", &keep, &keepLists)
			for _, q := range keep {
				if !c.Direct("compact: lookup still finds what was not removed", canon(nodeWire(cb.Lookup(q))) == canon(wireLookup(want, q)),
					map[string]any{"step": i, "path": q, "before": prev, "after": cur}) {
					break
				}
			}
			c.Direct("compact-keeps-leaves", canon(newFlat) == canon(oldFlat), det)
			c.Direct("compact-removes-empty-keyed-containers", !hasEmptyKeyedContainer(cur), det)
		case "listset", "listappend", "listclear", "listmustset":
			ol, _ := wireLookup(prev, op.Path).([]any)
			nl, ok := wireLookup(cur, op.Path).([]any)
			if !c.Direct("list-still-there", ok, det) {
				break
			}
			switch op.Op {
			case "listset":
				want := len(ol)
				if op.Idx+1 > want {
					want = op.Idx + 1
				}
				good := len(nl) == want && canon(nl[op.Idx]) == canon(op.V)
				for j := 0; good && j < len(nl); j++ {
					if j == op.Idx {
						continue
					}
					if j < len(ol) {
						good = canon(nl[j]) == canon(ol[j])
					} else {
						good = canon(nl[j]) == nullCanon
					}
				}
				c.Direct("list-set: pads with null, sets the slot, keeps the rest", good, det)
			case "listappend":
				c.Direct("list-append", len(nl) == len(ol)+1 && canon(nl[len(nl)-1]) == canon(op.V) && canon(nl[:len(ol)]) == canon(ol), det)
			case "listclear":
				c.Direct("list-clear", len(nl) == 0, det)
			default:
				good := len(nl) == len(ol) && canon(nl[op.Idx]) == canon(op.V)
				c.Direct("list-mustset", good, det)
			}
		}
		// the nodes the caller holds: dropped where the step wrote or removed at or above them, otherwise still the
		// document's nodes at their positions (so that an edit through them is an edit of the document there)
		for _, q := range sortedKeys(kept) {
			gone := false
			switch op.Op {
			case "addvalue", "addvalueat", "addcontainer", "addlist", "remove", "removeat":
				gone = pathUnder(q, op.Path)
			case "listset", "listmustset":
				gone = pathUnder(q, fmt.Sprintf("%s[%d]", op.Path, op.Idx))
			case "listclear":
				gone = strings.HasPrefix(q, op.Path+"[")
			case "compact":
				gone = true
			}
			if gone {
				delete(kept, q)
				continue
			}
			var now dom.Node
			guard(func() { now = cb.Lookup(q) })
			if now != kept[q] {
				c.Direct("frame: a node obtained earlier (AddList / AddContainer / Lookup) is still the document's node at its position after a step that neither wrote nor removed at or above it (a write below it goes into it)",
					false, map[string]any{"step": i, "op": op, "position": q, "before": prev, "after": cur, "held node now": nodeWire(kept[q]), "document there": nodeWire(now)})
				// the caller does not know: it goes on using the node it holds (a later list operation through it is
				// judged like any other: the document must show it)
			}
		}
		keep(cur)
		// lookup reads the plain tree: an index group addresses a list item, a name — digit-only or not — a member
		for _, q := range c03LookupProbes(cur) {
			if !c.Direct("lookup==lookup on the plain tree (only an index group addresses a list item; a digit-only name is a name)",
				canon(nodeWire(cb.Lookup(q))) == canon(wireLookup(cur, q)), map[string]any{"step": i, "path": q, "document": cur, "Lookup": nodeWire(cb.Lookup(q)), "plain": wireLookup(cur, q)}) {
				break
			}
		}
		states = append(states, cur)
		prev = cur
	}
	if changed >= 3 {
		c.Nontrivial()
	}
	c.Dist(fmt.Sprintf("len:%d0s", len(h.Ops)/10))
	// correspondence with the model: state after every step, lookups, flatten
	var probes, lists []string
	wirePaths(prev, "", &probes, &lists)
	if len(probes) > 8 {
		probes = probes[:8]
	}
	probes = append(probes, "nope", "a.nope", "a[9]")
	probes = append(probes, c03LookupProbes(prev)...)
	lookups := make([]any, len(probes))
	for i, p := range probes {
		lookups[i] = nodeWire(cb.Lookup(p))
	}
	m := c.Model("run", map[string]any{"start": h.Start, "ops": h.Ops, "probes": probes})
	c.Corr("run", map[string]any{"states": states, "outcome": outcome, "lookups": lookups, "flatten": flattenWire(cb)}, m)
}

func hasEmptyKeyedContainer(w W) bool {
	c, ok := wireCont(w)
	if !ok {
		return false
	}
	for _, e := range c {
		if ec, ok := wireCont(e); ok {
			if len(ec) == 0 || hasEmptyKeyedContainer(e) {
				return true
			}
		}
	}
	return false
}

// c03RefCompact: Walk(CompactFn) on the plain tree ("compact document tree by removing empty containers"): a member
// that is a container is compacted first and removed when nothing is left in it; lists are not walked into (the
// walker visits the members of containers), so a list and all its items stay, and so does every leaf.  The root
// itself stays even when it ends up empty.
func c03RefCompact(w W) W {
	c, ok := wireCont(w)
	if !ok {
		return w
	}
	m := map[string]any{}
	for k, e := range c {
		if _, isCont := wireCont(e); isCont {
			ce := c03RefCompact(e)
			if cm, _ := wireCont(ce); len(cm) == 0 {
				continue
			}
			m[k] = ce
			continue
		}
		m[k] = e
	}
	return map[string]any{"m": m}
}
