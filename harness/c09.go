package main

import (
	"encoding/json"
	"fmt"
	"math/big"
	"math/rand"
	"regexp"
	"sort"
	"strconv"
	"strings"
	"unicode/utf8"

	"github.com/rkosegi/yaml-toolkit/diff"
	"github.com/rkosegi/yaml-toolkit/dom"
	"github.com/rkosegi/yaml-toolkit/patch"
	"github.com/rkosegi/yaml-toolkit/pipeline"
	"github.com/rkosegi/yaml-toolkit/xform"
	"gopkg.in/yaml.v3"
)

// C09 — JSON Patch (RFC 6902): every operation agrees with the RFC, fails cleanly, never panics.

type c09Seq struct {
	Doc W       `json:"doc"`
	Ops []c09Op `json:"ops"`
	Via string  `json:"via"` // do | pipeline
}

type c09Diff struct {
	L W `json:"l"`
	R W `json:"r"`
}

func init() {
	register(&Prop{ID: "C09", Run: c09Run,
		Rule: "seq: a generated document (member names from a path-safe pool incl. the numerals '0','1'; a second pool holds arbitrary text: non-ASCII names, spaces, dots, percent-escapes, '#', '+', backslash, '~' and '/', written into the pointer string with ~0/~1) and 10–40 operation objects generated against the evolving document " +
			"(evolved with the Go reference interpreter): existing locations, neighbours (other member, index in range / one past / far past), children of leaves, deep non-existent locations, " +
			"non-numeric and negative tokens against lists (a fixed pool; canonical numerals of 10-65 digits at and around 2^31 .. 2^128, incl. B+k with k a valid index of the very list; element-selector look-alikes written from the list's own content: " +
			"member name, value, name=value, name:value, name==value, [name=value], [?(@.name=='value')], * — as last token and in the middle of an otherwise existing location), missing from/value/path, unknown op, move onto itself / into own descendant / within one list, test with the present, a mutated and a near-miss value (neighbouring integer — also beyond 2^53 —, the same numeral in another number type, the same text as string / number / boolean); " +
			"values are arbitrary nodes. Applied one by one through patch.Do with a fresh OpObj built by patch.ParsePath (via=do) or through pipeline.PatchOp (via=pipeline); " +
			"after every successful copy a probe edit is made inside the copy and the source is read back. diff: two documents, xform.DiffMod2PatchOp(diff.Diff(L,R)) applied to R. " +
			"Non-trivial: at least one step succeeds and one fails, or a list is edited. distinct = distinct canonical case JSON.",
		Assumptions: []string{"locations are non-root; tokens are non-empty valid UTF-8 member names (any text; valueFrom locations stay over [A-Za-z0-9_-] because they travel as dotted property paths), not '-', not ending in an index group, and numerals are canonical or negative (01, +1, -0 excluded)",
			"documents and values are built from builder nodes (dom.Builder / ListNode / LeafNode); scalars are NaN-free",
			"each OpObj is used once (a value node placed by add/replace is not cloned by the implementation)"}})
	evals["C09"] = c09Eval
	shrinkers["C09"] = shrinkJSON
}

// ---------------------------------------------------------------- domain

var c09SafeTokRe = regexp.MustCompile(`^[A-Za-z0-9_-]+$`)

// c09TokInScope: a reference token is ANY member name ("of any document"): non-ASCII text, spaces, dots, '~' and
// '/' (escaped as ~0 / ~1 in the pointer string) are all inside the property.  Outside: the empty token and "-"
// (the property's own exclusions), numerals that are neither canonical nor negative, names ending in an index
// group (API invariant, D26), and "{{" (pipeline.PatchOp renders its path as a template first).
func c09TokInScope(t string) bool {
	return t != "" && t != "-" && utf8.ValidString(t) && !strings.Contains(t, "{{") && c10TokInDomain(t)
}

// c09DottedInScope: a valueFrom location is handed to pipeline.PatchOp as a dotted property path (dom.Lookup), so
// its tokens stay path-safe.
func c09DottedInScope(p []string) bool {
	for _, t := range p {
		if !c09SafeTokRe.MatchString(t) {
			return false
		}
	}
	return c09PathInScope(p)
}

func c09PathInScope(p []string) bool {
	if p == nil {
		return true // member absent: in scope, must fail
	}
	if len(p) == 0 {
		return false
	}
	for _, t := range p {
		if !c09TokInScope(t) {
			return false
		}
	}
	return true
}

func c09OpInScope(o c09Op) bool { return c09PathInScope(o.Path) && c09PathInScope(o.From) }

// c09Pointer writes a location as an RFC 6901 pointer STRING: '~' as ~0 and '/' as ~1 inside a token.  Every
// pointer reaches the implementation in this form, through patch.ParsePath (or pipeline.PatchOp's own parsing).
func c09Pointer(toks []string) string {
	esc := make([]string, len(toks))
	for i, t := range toks {
		esc[i] = strings.ReplaceAll(strings.ReplaceAll(t, "~", "~0"), "/", "~1")
	}
	return "/" + strings.Join(esc, "/")
}

// ---------------------------------------------------------------- generation

func c09Gen() *DocGen {
	g := stdGen()
	g.Keys = []string{"a", "b", "c", "k1", "x-y", "z_9", "0", "1"}
	g.MaxDepth = 4
	g.PList = 0.5
	g.PEmpty = 0.1
	return g
}

// c09WideKeys: member names as documents in the wild have them — non-ASCII text (2-, 3- and 4-byte runes), spaces,
// dots, and the two characters a pointer string has to escape — next to a few plain ones.
// Also names that carry the escape syntax of a neighbouring notation (percent-encoding as in the URI fragment form of
// a pointer, RFC 6901 section 6; backslash; entity; '#', '+'): in the string representation all of these are plain text.
var c09WideKeys = []string{"a%2Fb", "%41", "a%20b", "100%25", "%7E0", "%", "50%", "a+b", "#", "#a", "a\\/b", "&amp;", "A", "a b%20", "ü", "größe", "naïve", "ключ", "日本", "😀", "é~/", "a b", " ", "x.y", "a/b", "/", "~", "~0", "~1", "a~b", "m~/n", "0", "1", "a", "k1"}

func c09WideGen() *DocGen {
	g := c09Gen()
	g.Keys = c09WideKeys
	g.MaxWidth = 5
	return g
}

func c09Clone(p []string) []string { return append([]string{}, p...) }

type c09Loc struct {
	p    []string
	kind string // leaf | list | cont
	n    int    // list length
}

func c09Locs(w W, prefix []string, out *[]c09Loc) {
	switch x := w.(type) {
	case []any:
		for i, e := range x {
			p := append(c09Clone(prefix), fmt.Sprint(i))
			*out = append(*out, c09Loc{p, wireKind(e), c09Len(e)})
			c09Locs(e, p, out)
		}
	case map[string]any:
		if c, ok := x["m"].(map[string]any); ok {
			for _, k := range sortedKeys(c) {
				p := append(c09Clone(prefix), k)
				*out = append(*out, c09Loc{p, wireKind(c[k]), c09Len(c[k])})
				c09Locs(c[k], p, out)
			}
		}
	}
}

func c09Len(w W) int {
	if l, ok := w.([]any); ok {
		return len(l)
	}
	return 0
}

var c09BadListToks = []string{"x", "-1", "-2", "1x", "k1", "x-y", "--1", "_", "0x1", "1e0", "1-", "-7"}

// c09WrapBases: the powers at which fixed-width integer arithmetic wraps around.
var c09WrapBases = func() []*big.Int {
	pow := func(e int64) *big.Int { return new(big.Int).Exp(big.NewInt(2), big.NewInt(e), nil) }
	return []*big.Int{pow(31), pow(32), pow(63), pow(64), pow(65), new(big.Int).Mul(big.NewInt(3), pow(64)), new(big.Int).Mul(big.NewInt(10), pow(64)), pow(128)}
}()

// c09OddListTok draws a reference token that designates NO element of the array arr (RFC 6901 section 4: below an
// array only a canonical index smaller than the length, or "-", means anything; the one exception is an element's
// own text that happens to be a numeral — then it is an ordinary index and the reference treats it as one): every
// operation through it must fail.  Three classes:
//   - canonical indices far out of range: the numerals at which fixed-width integers wrap around and their
//     neighbours, and B+k for such a power B and k an index that is (nearly) valid for this very array;
//   - non-numeric tokens written from the array's own content the way other path languages select an element by
//     identity (member name, value, name=value, name:value, name==value, [name=value], [?(@.name=='value')], *),
//     aimed at the element with index at (any element when at is out of range);
//   - the fixed malformed pool.
func c09OddListTok(r *rand.Rand, arrW W, at int) string {
	arr, _ := arrW.([]any)
	switch k := r.Intn(10); {
	case k < 2:
		return pick(r, c10WrapNumerals)
	case k < 4:
		d := r.Intn(len(arr) + 2)
		if at >= 0 && at < len(arr) && r.Intn(2) == 0 {
			d = at
		}
		return new(big.Int).Add(pick(r, c09WrapBases), big.NewInt(int64(d))).String()
	case k < 9 && len(arr) > 0:
		if at < 0 || at >= len(arr) || r.Intn(4) == 0 {
			at = r.Intn(len(arr))
		}
		obj, isObj := c09RefObject(arr[at])
		if !isObj || len(obj) == 0 {
			if lf, ok := arr[at].(map[string]any); ok && !isObj {
				return fmt.Sprint(lf["v"]) + pick(r, []string{"", "=", "*"}) // the element's own text
			}
			return pick(r, []string{"*", "first", "last", "#", "[]", "?"})
		}
		name := pick(r, sortedKeys(obj))
		val := "x"
		if lf, ok := obj[name].(map[string]any); ok {
			if _, isCont := lf["m"]; !isCont {
				val = fmt.Sprint(lf["v"])
			}
		}
		switch r.Intn(9) {
		case 0:
			return name
		case 1:
			return name + ":" + val
		case 2:
			return name + "==" + val
		case 3:
			return "[" + name + "=" + val + "]"
		case 4:
			return "[?(@." + name + "=='" + val + "')]"
		case 5:
			return val
		default:
			return name + "=" + val
		}
	}
	return pick(r, c09BadListToks)
}

// c09GenPath draws a location relative to the current document.
func c09GenPath(r *rand.Rand, g *DocGen, cur W) []string {
	var locs []c09Loc
	c09Locs(cur, nil, &locs)
	if len(locs) == 0 || r.Intn(15) == 0 {
		p := []string{pick(r, g.Keys)}
		for r.Intn(3) == 0 {
			p = append(p, pick(r, append([]string{"0", "1", "2"}, g.Keys...)))
		}
		return p
	}
	l := pick(r, locs)
	switch k := r.Intn(23); {
	case k >= 20: // an existing location whose walk crosses a list, with that index token replaced by a non-index one
		p := c09Clone(l.p)
		var at []int
		for i := range p {
			if pn, _ := c09RefGet(cur, p[:i]); pn != nil {
				if _, isList := pn.([]any); isList {
					at = append(at, i)
				}
			}
		}
		if len(at) == 0 {
			return p
		}
		i := pick(r, at)
		pn, _ := c09RefGet(cur, p[:i])
		idx, _ := c09RefIndex(p[i])
		p[i] = c09OddListTok(r, pn, idx)
		return p
	case k < 6: // the location itself
		return l.p
	case k < 11: // below it
		p := c09Clone(l.p)
		switch l.kind {
		case "list":
			switch r.Intn(9) {
			case 0:
				return append(p, fmt.Sprint(l.n)) // one past the last: append position
			case 1:
				return append(p, fmt.Sprint(l.n+1)) // far past
			case 2:
				return append(p, fmt.Sprint(l.n+1+r.Intn(6)))
			case 3:
				return append(p, pick(r, c09BadListToks))
			case 4, 5:
				arr, _ := c09RefGet(cur, l.p)
				return append(p, c09OddListTok(r, arr, -1))
			default:
				return append(p, fmt.Sprint(r.Intn(l.n+1)))
			}
		case "cont":
			return append(p, pick(r, g.Keys))
		default: // below a leaf
			return append(p, pick(r, append([]string{"0", "x"}, g.Keys...)))
		}
	case k < 15: // a neighbour: same parent, other last token
		p := c09Clone(l.p)
		par := p[:len(p)-1]
		pn, _ := c09RefGet(cur, par)
		if arr, ok := pn.([]any); ok {
			switch r.Intn(7) {
			case 0:
				p[len(p)-1] = fmt.Sprint(len(arr))
			case 1:
				p[len(p)-1] = fmt.Sprint(len(arr) + 1 + r.Intn(4))
			case 2:
				p[len(p)-1] = pick(r, c09BadListToks)
			case 3, 4:
				// a non-index token aimed at the element the location addresses
				at, _ := c09RefIndex(p[len(p)-1])
				p[len(p)-1] = c09OddListTok(r, pn, at)
			default:
				p[len(p)-1] = fmt.Sprint(r.Intn(len(arr) + 1))
			}
		} else {
			p[len(p)-1] = pick(r, g.Keys)
		}
		return p
	case k < 18: // deep non-existent
		p := append(c09Clone(l.p), pick(r, g.Keys), pick(r, append([]string{"0"}, g.Keys...)))
		return p
	default: // mutate an inner token
		p := c09Clone(l.p)
		i := r.Intn(len(p))
		p[i] = pick(r, append([]string{"0", "1", "7", "x", "-1"}, g.Keys...))
		return p
	}
}

func c09GenOp(r *rand.Rand, g *DocGen, cur W) c09Op {
	var locs []c09Loc
	c09Locs(cur, nil, &locs)
	existing := func() []string {
		if len(locs) == 0 {
			return []string{pick(r, g.Keys)}
		}
		return pick(r, locs).p
	}
	hasInt := false
	for _, t := range g.Types {
		hasInt = hasInt || t == "int"
	}
	value := func() W {
		if hasInt && r.Intn(15) == 0 {
			// integers beyond 2^53: neighbours that a detour through float64 cannot tell apart
			n := 1<<53 + r.Intn(4)
			if r.Intn(4) == 0 {
				n = -n
			}
			return scalarWire(n)
		}
		return g.Node(r, 1+r.Intn(3))
	}
	var o c09Op
	switch k := r.Intn(100); {
	case k < 30:
		o = c09Op{Op: "add", Path: c09GenPath(r, g, cur), Value: value()}
	case k < 45:
		o = c09Op{Op: "remove", Path: c09GenPath(r, g, cur)}
	case k < 60:
		o = c09Op{Op: "replace", Path: c09GenPath(r, g, cur), Value: value()}
	case k < 77:
		o = c09Op{Op: "move", From: c09GenPath(r, g, cur), Path: c09GenPath(r, g, cur)}
		switch r.Intn(8) {
		case 0: // onto itself
			o.From = existing()
			o.Path = c09Clone(o.From)
		case 1: // into its own descendant
			o.From = existing()
			o.Path = append(c09Clone(o.From), pick(r, append([]string{"0"}, g.Keys...)))
			if r.Intn(2) == 0 {
				o.Path = append(o.Path, pick(r, g.Keys))
			}
		case 2: // within one list (shifting matters)
			for _, l := range locs {
				if l.kind == "list" && l.n >= 2 && r.Intn(2) == 0 {
					o.From = append(c09Clone(l.p), fmt.Sprint(r.Intn(l.n)))
					o.Path = append(c09Clone(l.p), fmt.Sprint(r.Intn(l.n+2)))
					break
				}
			}
		case 3: // from exists, target parent missing
			o.From = existing()
			o.Path = append(c09GenPath(r, g, cur), "q1", "q2")
		case 4:
			o.From = existing()
		}
	case k < 90:
		o = c09Op{Op: "copy", From: c09GenPath(r, g, cur), Path: c09GenPath(r, g, cur)}
		if r.Intn(2) == 0 {
			o.From = existing()
		}
		if r.Intn(6) == 0 { // copy into own descendant is allowed
			o.Path = append(c09Clone(o.From), pick(r, g.Keys))
		}
	case k < 98:
		o = c09Op{Op: "test", Path: c09GenPath(r, g, cur)}
		if v, ok := c09RefGet(cur, o.Path); ok && r.Intn(4) > 0 {
			o.Value = deepCopyW(v)
			switch r.Intn(6) {
			case 0, 1:
				o.Value = g.Mutate(r, o.Value)
			case 2:
				o.Value = c09NearMiss(r, o.Value) // "failed test": a value that is nearly, but not, the one present
			}
		} else {
			o.Value = value()
		}
	default:
		o = c09Op{Op: pick(r, []string{"frobnicate", "", "ADD", "delete"}), Path: c09GenPath(r, g, cur), From: c09GenPath(r, g, cur), Value: value()}
	}
	// missing members
	switch r.Intn(40) {
	case 0:
		o.Value = nil
	case 1:
		o.From = nil
	case 2:
		o.Path = nil
	}
	if o.Op == "remove" || o.Op == "test" || o.Op == "add" || o.Op == "replace" {
		if r.Intn(10) > 0 {
			o.From = nil
		}
	}
	return o
}

// c09NearMiss: for a scalar, a DIFFERENT value that is as close to it as values get — the neighbouring integer, the
// same numeral in another number type (int / int64 / float64), the same text as a string or the string's text as a
// number / boolean; for a composite, the same composite with one scalar replaced that way.
func c09NearMiss(r *rand.Rand, v W) W {
	if !isWireLeaf(v) {
		var slots [][]any
		wireLeafSlots(v, nil, &slots)
		if len(slots) == 0 {
			return v
		}
		sl := pick(r, slots)
		cur := v
		for _, s := range sl {
			switch x := s.(type) {
			case string:
				c, _ := wireCont(cur)
				cur = c[x]
			default:
				i, _ := s.(int)
				if f, ok := s.(float64); ok {
					i = int(f)
				}
				cur = cur.([]any)[i]
			}
		}
		if !isWireLeaf(cur) {
			return v
		}
		return wireSetSlot(deepCopyW(v), sl, c09NearMiss(r, cur))
	}
	m := v.(map[string]any)
	t, _ := m["t"].(string)
	txt, _ := m["v"].(string)
	mk := func(t, v string) W { return map[string]any{"t": t, "v": v} }
	switch t {
	case "int", "int64":
		n, err := strconv.ParseInt(txt, 10, 64)
		if err != nil {
			return mk("string", txt)
		}
		switch r.Intn(6) {
		case 0:
			return mk(t, fmt.Sprint(n+1))
		case 1:
			return mk(t, fmt.Sprint(n-1))
		case 2:
			return scalarWire(float64(n))
		case 3:
			return mk(map[string]string{"int": "int64", "int64": "int"}[t], txt)
		case 4:
			return mk("string", txt)
		default:
			return mk(t, fmt.Sprint(-n-1))
		}
	case "float64":
		f, _ := strconv.ParseFloat(txt, 64)
		if f == float64(int64(f)) && f > -1e18 && f < 1e18 && r.Intn(2) == 0 {
			return scalarWire(int(f))
		}
		if r.Intn(2) == 0 {
			return mk("string", txt)
		}
		return scalarWire(f + 1)
	case "string":
		if n, err := strconv.Atoi(txt); err == nil && fmt.Sprint(n) == txt {
			return scalarWire(n)
		}
		if txt == "true" || txt == "false" {
			return scalarWire(txt == "true")
		}
		return mk("string", txt+" ")
	case "bool":
		return mk("string", txt)
	case "nil":
		return pick(r, []W{mk("string", ""), mk("string", "<nil>"), mk("string", "null"), scalarWire(0), scalarWire(false)})
	}
	return mk("string", txt)
}

func c09GenSeq(r *rand.Rand, g *DocGen, n int, valueFrom bool) c09Seq {
	doc := g.Doc(r)
	cur := deepCopyW(doc)
	ops := make([]c09Op, 0, n)
	for i := 0; i < n; i++ {
		o := c09GenOp(r, g, cur)
		if valueFrom && o.Value != nil && r.Intn(3) == 0 {
			// pipeline.PatchOp valueFrom: mostly an existing location (composite ones matter)
			o.ValueFrom = c09GenPath(r, g, cur)
			var locs []c09Loc
			c09Locs(cur, nil, &locs)
			if len(locs) > 0 && r.Intn(5) > 0 {
				o.ValueFrom = pick(r, locs).p
			}
			o.Value = nil
		}
		if !c09OpInScope(o) || !c09DottedInScope(o.ValueFrom) {
			continue
		}
		ops = append(ops, o)
		if nd, err := c09RefApply(cur, c09Resolve(cur, o)); err == nil {
			cur = nd
		}
	}
	return c09Seq{Doc: doc, Ops: ops, Via: "do"}
}

// c09Resolve fills Value from ValueFrom against the reference document.
func c09Resolve(ref W, o c09Op) c09Op {
	if o.ValueFrom != nil {
		o.Value = nil
		if v, ok := c09RefGet(ref, o.ValueFrom); ok {
			o.Value = deepCopyW(v)
		}
	}
	return o
}

// c09Dotted renders a location as the dotted property path dom.Lookup understands
// (list indices as [i] groups), following the reference document's structure.
func c09Dotted(ref W, toks []string) string {
	var sb strings.Builder
	cur := ref
	for i, t := range toks {
		if _, isList := cur.([]any); isList {
			sb.WriteString("[" + t + "]")
		} else {
			if i > 0 {
				sb.WriteString(".")
			}
			sb.WriteString(t)
		}
		if cur != nil {
			cur, _ = c09RefGet(cur, []string{t})
		}
	}
	return sb.String()
}

func c09Run(c *Ctx) {
	r := c.Rng
	g := c09Gen()
	for i := 0; i < c.N(1500); i++ {
		c.Tick()
		c.Do("seq", c09GenSeq(r, g, 10+r.Intn(31), false))
	}
	// the same through the pipeline operation (values travel as YAML, so leaves are strings)
	gp := c09Gen()
	gp.Types = []string{"string"}
	gp.PNull = 0
	gp.Strings = []string{"s", "t", "1", "true", "a b", "x.y"}
	for i := 0; i < c.N(200); i++ {
		c.Tick()
		s := c09GenSeq(r, gp, 6+r.Intn(10), true)
		s.Via = "pipeline"
		c.Do("seq", s)
	}
	// member names that are arbitrary text: every location is written as a pointer string and parsed by the
	// implementation (patch.ParsePath; pipeline.PatchOp parses path and from itself)
	gw := c09WideGen()
	for i := 0; i < c.N(350); i++ {
		c.Tick()
		c.Dist("seq:names-any-text")
		c.Do("seq", c09GenSeq(r, gw, 10+r.Intn(21), false))
	}
	gwp := c09WideGen()
	gwp.Types, gwp.PNull, gwp.Strings = gp.Types, gp.PNull, gp.Strings
	for i := 0; i < c.N(70); i++ {
		c.Tick()
		c.Dist("seq:names-any-text")
		s := c09GenSeq(r, gwp, 6+r.Intn(10), true)
		s.Via = "pipeline"
		c.Do("seq", s)
	}
	gd := stdGen()
	gd.MaxDepth = 3
	for i := 0; i < c.N(500); i++ {
		c.Tick()
		l := gd.Doc(r)
		rr := gd.Mutate(r, l)
		for k := r.Intn(3); k > 0; k-- {
			rr = gd.Mutate(r, rr)
		}
		if r.Intn(5) == 0 {
			rr = gd.Doc(r)
		}
		c.Do("diff", c09Diff{L: l, R: rr})
	}
	heapPatchGen(c, c.N(500)) // heap_share2.go
}

// ---------------------------------------------------------------- execution

// c09Build builds a fresh OpObj; pointers go through patch.ParsePath.
func c09Build(o c09Op) (*patch.OpObj, error) {
	obj := &patch.OpObj{Op: patch.Op(o.Op)}
	if o.Path != nil {
		p, err := patch.ParsePath(c09Pointer(o.Path))
		if err != nil {
			return nil, err
		}
		obj.Path = p
	}
	if o.From != nil {
		f, err := patch.ParsePath(c09Pointer(o.From))
		if err != nil {
			return nil, err
		}
		obj.From = &f
	}
	if o.Value != nil {
		obj.Value = wireNode(o.Value)
	}
	return obj, nil
}

// c09NodeWire is nodeWire with a depth guard: a cyclic document (a node placed below itself
// without cloning) is reported as a marker leaf instead of overflowing the stack.
func c09NodeWire(n dom.Node, depth int) W {
	if n == nil {
		return nil
	}
	if depth > 64 {
		return map[string]any{"t": "harness", "v": "document deeper than 64 levels (cyclic?)"}
	}
	switch {
	case n.IsContainer():
		m := map[string]any{}
		for k, e := range n.(dom.Container).Children() {
			m[k] = c09NodeWire(e, depth+1)
		}
		return map[string]any{"m": m}
	case n.IsList():
		items := n.(dom.List).Items()
		l := make([]any, len(items))
		for i, e := range items {
			l[i] = c09NodeWire(e, depth+1)
		}
		return l
	default:
		return scalarWire(n.(dom.Leaf).Value())
	}
}

type c09Step struct {
	Out string `json:"out"`
	Doc W      `json:"doc"`
}

// c09Exec applies one operation to the live document and returns the outcome.
type c09Exec func(o c09Op, ref W) string

// c09RunSteps drives ops through exec against root, checking the property's clauses after
// every step, and returns the executed operations (with inserted probes) and observations.
func c09RunSteps(c *Ctx, root dom.ContainerBuilder, start W, ops []c09Op, exec c09Exec, probes bool) ([]c09Op, []c09Step) {
	ref := deepCopyW(start)
	var done []c09Op
	var obs []c09Step
	nOK, nErr, listEdit := 0, 0, false
	step := func(o c09Op) bool {
		before := canon(c09NodeWire(root, 0))
		out := exec(o, ref)
		o = c09Resolve(ref, o)
		after := c09NodeWire(root, 0)
		done = append(done, o)
		obs = append(obs, c09Step{Out: out, Doc: after})
		c.Dist("op:" + c09OpName(o.Op) + ":" + out)
		detail := map[string]any{"step": len(done) - 1, "op": o, "before": json.RawMessage(before), "after": after, "outcome": out}
		if !c.Direct("no-panic", out != "panic", detail) {
			return false
		}
		if out == "err" {
			nErr++
			c.Direct("document-unchanged-after-error", canon(after) == before, detail)
		} else {
			nOK++
		}
		nref, rerr := c09RefApply(ref, o)
		want := "ok"
		if rerr != nil {
			want = "err"
			nref = ref
		}
		detail["reference_outcome"] = want
		detail["reference_doc"] = nref
		okOutcome := c.Direct("outcome-agrees-with-rfc6902-reference", out == want, detail)
		okDoc := c.Direct("document-agrees-with-rfc6902-reference", canon(after) == canon(nref), detail)
		ref = nref
		if out == "ok" && len(o.Path) > 0 {
			if par, ok := c09RefGet(ref, o.Path[:len(o.Path)-1]); ok {
				if _, isList := par.([]any); isList && o.Op != "test" {
					listEdit = true
				}
			}
		}
		return okOutcome && okDoc
	}
	for _, o := range ops {
		if !c09OpInScope(o) {
			break // e.g. a shrink candidate that left the domain: stop here
		}
		var src dom.Node
		var srcBefore string
		// (a copy placed inside its own source legitimately changes the source: not probed)
		srcToks := o.ValueFrom
		if o.Op == "copy" {
			srcToks = o.From
		}
		if (o.Op == "copy" || ((o.Op == "add" || o.Op == "replace") && o.ValueFrom != nil)) && srcToks != nil && o.Path != nil && probes &&
			!c09RefProperPrefix(srcToks, o.Path) && !c10SameToks(srcToks, o.Path) {
			if f, err := patch.ParsePath(c09Pointer(srcToks)); err == nil {
				_, src = f.Eval(root)
				if src != nil {
					srcBefore = canon(c09NodeWire(src, 0))
				}
			}
		}
		if !step(o) {
			break
		}
		if src != nil && obs[len(obs)-1].Out == "ok" {
			// edit inside the copy, then read the source node again
			if probe, ok := c09ProbeOp(ref, o.Path); ok {
				c.Dist("copy-probe")
				if !step(probe) {
					break
				}
				srcAfter := canon(c09NodeWire(src, 0))
				clause := "copy-is-independent-of-source"
				if o.Op != "copy" {
					clause = "value-read-from-document-is-independent-of-source"
				}
				c.Direct(clause, srcAfter == srcBefore,
					map[string]any{"copy": o, "probe": probe, "source_before": json.RawMessage(srcBefore), "source_after": json.RawMessage(srcAfter)})
			}
		}
	}
	if (nOK > 0 && nErr > 0) || listEdit {
		c.Nontrivial()
	}
	return done, obs
}

func c09OpName(op string) string {
	switch op {
	case "add", "remove", "replace", "move", "copy", "test":
		return op
	}
	return "invalid"
}

// c09ProbeOp builds an edit inside the value at path (deepest composite inside it):
// a new member for an object, an inserted first element for an array.
func c09ProbeOp(doc W, path []string) (c09Op, bool) {
	v, ok := c09RefGet(doc, path)
	if !ok {
		return c09Op{}, false
	}
	var locs []c09Loc
	c09Locs(v, nil, &locs)
	best := c09Loc{p: nil, kind: wireKind(v)}
	for _, l := range locs {
		if l.kind != "leaf" && (best.kind == "leaf" || len(l.p) > len(best.p)) {
			best = l
		}
	}
	p := append(c09Clone(path), best.p...)
	switch best.kind {
	case "cont":
		return c09Op{Op: "add", Path: append(p, "zz_probe"), Value: scalarWire("probe")}, true
	case "list":
		return c09Op{Op: "add", Path: append(p, "0"), Value: scalarWire("probe")}, true
	}
	return c09Op{}, false
}

func c09ModelCompare(c *Ctx, start W, done []c09Op, obs []c09Step) {
	if len(done) == 0 {
		return
	}
	m := c.Model("seq", map[string]any{"doc": start, "ops": done})
	mo, _ := m.(map[string]any)
	var msteps []any
	if mo != nil {
		msteps, _ = mo["steps"].([]any)
	}
	implSteps := make([]any, len(obs))
	modelSteps := make([]any, len(obs))
	specSteps := make([]any, len(obs))
	implAsSpec := make([]any, len(obs))
	for i, s := range obs {
		implSteps[i] = map[string]any{"out": s.Out, "doc": s.Doc}
		implAsSpec[i] = map[string]any{"rfc": s.Out, "rfcdoc": s.Doc}
		if i < len(msteps) {
			modelSteps[i] = c10Pick(msteps[i], "out", "doc")
			specSteps[i] = c10Pick(msteps[i], "rfc", "rfcdoc")
		}
	}
	if mo == nil {
		c.Corr("patchDo", implSteps, m)
		return
	}
	c.Corr("patchDo", implSteps, modelSteps)
	c.Corr("rfc6902", implAsSpec, specSteps)
	last := obs[len(obs)-1].Doc
	outs := make([]any, len(obs))
	for i, s := range obs {
		outs[i] = s.Out
	}
	c.Corr("runPatch", map[string]any{"final": last, "outs": outs}, c10Pick(mo, "final", "outs"))
}

func c09Eval(c *Ctx, kind string, raw []byte) {
	switch kind {
	case "heap-patch":
		heapPatchEval(c, raw) // heap_share2.go
	case "seq":
		var k c09Seq
		if err := json.Unmarshal(raw, &k); err != nil {
			panic(err)
		}
		if _, ok := wireCont(k.Doc); !ok {
			return // the target of patch.Do is a container
		}
		root := wireContainer(k.Doc)
		c.Dist("via:" + k.Via)
		switch k.Via {
		case "pipeline":
			// values travel as YAML text into pipeline.AnyVal; what the operation really
			// carries is read back from the decoded AnyVal
			anyVal := func(v W) *pipeline.AnyVal {
				txt, err := yaml.Marshal(wirePlain(v))
				if err != nil {
					return nil
				}
				av := &pipeline.AnyVal{}
				if err := yaml.Unmarshal(txt, av); err != nil || av.Value() == nil {
					return nil
				}
				return av
			}
			ops := make([]c09Op, 0, len(k.Ops))
			for _, o := range k.Ops {
				if o.Path == nil || !c09OpInScope(o) || !c09DottedInScope(o.ValueFrom) {
					continue // PatchOp cannot express an absent path ("" is the root)
				}
				if o.ValueFrom != nil {
					o.Value = nil
					c.Dist("pipeline:valueFrom")
				} else if o.Value != nil {
					av := anyVal(o.Value)
					if av == nil {
						continue
					}
					o.Value = nodeWire(av.Value())
				}
				ops = append(ops, o)
			}
			exec := func(o c09Op, ref W) string {
				ps := &pipeline.PatchOp{Op: patch.Op(o.Op), Path: c09Pointer(o.Path)}
				if o.From != nil {
					ps.From = c09Pointer(o.From)
				}
				if o.ValueFrom != nil {
					vf := c09Dotted(ref, o.ValueFrom)
					ps.ValueFrom = &vf
				} else if o.Value != nil {
					ps.Value = anyVal(o.Value)
					if ps.Value == nil || canon(nodeWire(ps.Value.Value())) != canon(o.Value) {
						panic("harness: value does not survive the YAML round trip")
					}
				}
				var err error
				out, _ := guard(func() { err = pipeline.New(pipeline.WithData(root)).Execute(ps) })
				if out == "panic" {
					return out
				}
				return errTag(err)
			}
			done, obs := c09RunSteps(c, root, k.Doc, ops, exec, true)
			c09ModelCompare(c, k.Doc, done, obs)
		default:
			for i := range k.Ops {
				k.Ops[i].ValueFrom = nil
			}
			exec := func(o c09Op, _ W) string {
				obj, err := c09Build(o)
				if err != nil {
					return "err"
				}
				out, _ := guard(func() { err = patch.Do(obj, root) })
				if out == "panic" {
					return out
				}
				return errTag(err)
			}
			done, obs := c09RunSteps(c, root, k.Doc, k.Ops, exec, true)
			c09ModelCompare(c, k.Doc, done, obs)
		}
	case "diff":
		var k c09Diff
		if err := json.Unmarshal(raw, &k); err != nil {
			panic(err)
		}
		_, okL := wireCont(k.L)
		_, okR := wireCont(k.R)
		if !okL || !okR {
			return
		}
		root := wireContainer(k.R)
		var objs []*patch.OpObj
		var ops []c09Op
		out, txt := guard(func() {
			mods := *diff.Diff(wireContainer(k.L), wireContainer(k.R))
			sort.SliceStable(mods, func(i, j int) bool {
				if mods[i].Path != mods[j].Path {
					return mods[i].Path < mods[j].Path
				}
				return mods[i].Type < mods[j].Type
			})
			for _, m := range mods {
				obj := xform.DiffMod2PatchOp(m)
				if obj == nil {
					continue
				}
				o := c09Op{Op: string(obj.Op), Path: c10ToksOf(obj.Path)}
				if obj.Value != nil {
					o.Value = nodeWire(obj.Value)
				}
				objs = append(objs, obj)
				ops = append(ops, o)
			}
		})
		if !c.Direct("no-panic", out == "ok", txt) {
			return
		}
		c.Dist(fmt.Sprintf("diff:ops=%d", min(len(ops), 8)))
		i := 0
		exec := func(o c09Op, _ W) string {
			obj := objs[i]
			i++
			var err error
			out, _ := guard(func() { err = patch.Do(obj, root) })
			if out == "panic" {
				return out
			}
			return errTag(err)
		}
		done, obs := c09RunSteps(c, root, k.R, ops, exec, false)
		c09ModelCompare(c, k.R, done, obs)
	}
}
