// Package c20lib is shared by the C20 harness (package main of verifharness) and the separate
// race-detector program (verifharness/race, built with -race at check time): document
// construction from wire form, execution of read API calls with canonical observations, and a
// deep structural fingerprint (reflection, unexported fields, nil-vs-empty state).
package c20lib

import (
	"bytes"
	"encoding/json"
	"errors"
	"fmt"
	"io"
	"math"
	"reflect"
	"sort"
	"strconv"
	"strings"

	"github.com/rkosegi/yaml-toolkit/dom"
	"gopkg.in/yaml.v3"
)

// Call is one read-only call.  M is "<Interface>.<Method>" as in the extractor's readApi.
type Call struct {
	M     string `json:"m"`
	Path  string `json:"p,omitempty"` // target node (container calls on a nested node) / argument path / child name
	Layer string `json:"l,omitempty"`
	V     any    `json:"v,omitempty"` // wire scalar (Search), wire node (Equals/SameAs/Merge), "json"/"yaml" (Serialize)
	Opt   string `json:"o,omitempty"` // Merged / Merge: "" (default, position-wise) | "append" (dom.ListsMergeAppend())
}

// MergeOpts maps a case's list strategy to the merge options of the API.
func MergeOpts(opt string) []dom.MergeOption {
	if opt == "append" {
		return []dom.MergeOption{dom.ListsMergeAppend()}
	}
	return nil
}

// Case is one document with the call sequences of the goroutines.
type Case struct {
	Origin string   `json:"origin"` // built | loaded | merged | cloned | sealed | overlay
	D1     any      `json:"d1"`
	D2     any      `json:"d2,omitempty"`
	More   []any    `json:"more,omitempty"` // origin layers: the layers after the second one
	Seqs   [][]Call `json:"seqs"`
	Repeat int      `json:"repeat,omitempty"`
	Pre    []Fail   `json:"pre,omitempty"`  // serialisations of OTHER documents that fail part-way, performed before the readers start (every round)
	Pad    int      `json:"pad,omitempty"`  // > 0: D1 additionally holds a string leaf of this many bytes (see Padded)
	Long   int      `json:"long,omitempty"` // > 0: D1 additionally holds a list of this many items (see Lengthened)
}

// LongKey is the key of the long list Lengthened adds.
const LongKey = "zz-long"

// Lengthened returns d with an additional LIST of n items under the key LongKey - documents that hold a list of
// hundreds or thousands of items (a generated inventory, a table of records) without carrying them in the case
// file.  Item i is the int leaf i; every 97th item is a small container, every 101st a nested list of two.
func Lengthened(d any, n int) any {
	if n <= 0 {
		return d
	}
	x, ok := d.(map[string]any)
	if !ok {
		return d
	}
	c, ok := x["m"].(map[string]any)
	if !ok {
		return d
	}
	m := make(map[string]any, len(c)+1)
	for k, v := range c {
		m[k] = v
	}
	l := make([]any, n)
	for i := range l {
		var item any = map[string]any{"t": "int", "v": strconv.Itoa(i)}
		switch {
		case i%97 == 5:
			l[i] = map[string]any{"m": map[string]any{"k": item, "e": map[string]any{"m": map[string]any{}}}}
		case i%101 == 7:
			l[i] = []any{item, map[string]any{"t": "string", "v": "s"}}
		default:
			l[i] = item
		}
	}
	m[LongKey] = l
	return map[string]any{"m": m}
}

// Enlarged: Padded and Lengthened.
func Enlarged(d any, pad, long int) any { return Lengthened(Padded(d, pad), long) }

// Padded returns d with an additional string leaf of pad bytes under the key "zz-pad" (multi-byte characters
// every few bytes, so that some character lies across any given offset of a serialised form) - documents whose
// texts are just under / over 512 B, 4 KiB, 64 KiB, 1 MiB without carrying megabytes in the case file.
func Padded(d any, pad int) any {
	if pad <= 0 {
		return d
	}
	x, ok := d.(map[string]any)
	if !ok {
		return d
	}
	c, ok := x["m"].(map[string]any)
	if !ok {
		return d
	}
	m := make(map[string]any, len(c)+1)
	for k, v := range c {
		m[k] = v
	}
	const unit = "abcé日xyz" // 11 bytes
	n := pad / len(unit)
	s := strings.Repeat(unit, n) + strings.Repeat("p", pad-n*len(unit))
	m["zz-pad"] = map[string]any{"t": "string", "v": s}
	return map[string]any{"m": m}
}

// Fail is one call of the serialisation API that FAILS part-way, on a document of its own (not the one the
// readers read).  What a failed call leaves behind - in the package, in pooled or reused buffers - must not be
// observable by the calls that follow it.
type Fail struct {
	D       any    `json:"d"`                 // the other document (wire form)
	Enc     string `json:"enc"`               // yaml | json
	How     string `json:"how"`               // NaN | +Inf | -Inf: such a float leaf is put at P (JSON cannot represent it) | marshaler: a leaf whose own MarshalJSON / MarshalYAML reports an error | writer: the io.Writer fails after N bytes
	P       string `json:"p,omitempty"`       // where the leaf is put
	N       int    `json:"n,omitempty"`       // writer: bytes accepted before the failure
	Loaded  bool   `json:"loaded,omitempty"`  // NaN / Inf: the document is written as YAML (.nan / .inf) and loaded with FromReader first
	Overlay bool   `json:"overlay,omitempty"` // the document is serialised as the single layer of an OverlayDocument
}

// Unencodable is a leaf value whose own marshalling methods report an error (an encoder failure that both default
// encoders return as an error, after whatever they had already emitted).
type Unencodable struct{}

var errUnencodable = errors.New("this value refuses to be encoded")

func (Unencodable) MarshalJSON() ([]byte, error)      { return nil, errUnencodable }
func (Unencodable) MarshalYAML() (interface{}, error) { return nil, errUnencodable }

type failingWriter struct {
	left int
}

func (w *failingWriter) Write(p []byte) (int, error) {
	if len(p) > w.left {
		n := w.left
		w.left = 0
		return n, io.ErrClosedPipe
	}
	w.left -= len(p)
	return len(p), nil
}

// Build constructs the document of the failing call; the second result is what gets serialised.
func (f Fail) Build() (doc any, ser func(w io.Writer) error) {
	cb := container(f.D)
	p := f.P
	if p == "" {
		p = "zz"
	}
	switch f.How {
	case "NaN":
		cb.AddValueAt(p, dom.LeafNode(math.NaN()))
	case "+Inf":
		cb.AddValueAt(p, dom.LeafNode(math.Inf(1)))
	case "-Inf":
		cb.AddValueAt(p, dom.LeafNode(math.Inf(-1)))
	case "marshaler":
		cb.AddValueAt(p, dom.LeafNode(Unencodable{}))
	}
	if f.Loaded && f.How != "marshaler" {
		if b, err := yaml.Marshal(cb.AsMap()); err == nil {
			if l, err := dom.Builder().FromReader(bytes.NewReader(b), dom.DefaultYamlDecoder); err == nil {
				cb = l
			}
		}
	}
	enc := dom.DefaultYamlEncoder
	if f.Enc == "json" {
		enc = dom.DefaultJsonEncoder
	}
	if f.Overlay {
		o := dom.NewOverlayDocument()
		o.Add("only", cb)
		return o, func(w io.Writer) error { return o.Serialize(w, dom.DefaultNodeEncoderFn, enc) }
	}
	return cb, func(w io.Writer) error { return cb.Serialize(w, dom.DefaultNodeEncoderFn, enc) }
}

// Run performs the failing call; reports whether it returned an error (a panic counts as one).
func (f Fail) Run() (failed bool) {
	defer func() {
		if r := recover(); r != nil {
			failed = true
		}
	}()
	_, ser := f.Build()
	return f.run(ser)
}

func (f Fail) run(ser func(w io.Writer) error) bool {
	if f.How == "writer" {
		n := f.N
		if n < 0 {
			n = 0
		}
		return ser(&failingWriter{left: n}) != nil
	}
	var buf bytes.Buffer
	return ser(&buf) != nil
}

// RunOn is Run on an already built document (so that the caller can fingerprint it around the call).
func (f Fail) RunOn(ser func(w io.Writer) error) (failed bool) {
	defer func() {
		if r := recover(); r != nil {
			failed = true
		}
	}()
	return f.run(ser)
}

type Subject struct {
	C dom.Container
	O dom.OverlayDocument

	// Keep (single-threaded use only): retain every view a read call hands out (merged views,
	// layer snapshots, clones, merge results) with its content at the time it was returned.
	Keep  bool
	views []view
}

type view struct {
	call Call
	n    dom.Node
	text string
}

func (s *Subject) keep(c Call, n dom.Node) dom.Node {
	if s.Keep && n != nil {
		s.views = append(s.views, view{c, n, NodeText(n)})
	}
	return n
}

// ChangedViews lists the retained views whose content is no longer what it was when the view
// was returned ("call: then -> now").
func (s *Subject) ChangedViews() []string {
	var out []string
	for _, v := range s.views {
		if now := NodeText(v.n); now != v.text {
			out = append(out, fmt.Sprintf("%s(o=%q): %s -> %s", v.call.M, v.call.Opt, v.text, now))
		}
	}
	return out
}

// Views is the number of retained views.
func (s *Subject) Views() int { return len(s.views) }

func scalarFromWire(t, s string) any {
	switch t {
	case "nil":
		return nil
	case "bool":
		return s == "true"
	case "int":
		n, _ := strconv.Atoi(s)
		return n
	case "float64":
		f, _ := strconv.ParseFloat(s, 64)
		return f
	case "composite":
		return CompositeFromText(s)
	}
	return s
}

// CompositeFromText builds the value of a COMPOSITE leaf - a leaf may hold any Go value, also a slice or a map, at
// any nesting (LeafNode(v) / Put(..., LeafNode(v)) with a decoded-elsewhere value) - from its JSON text: arrays
// become []interface{}, objects map[string]interface{}, the object {"$if": {...}} a map[interface{}]interface{}
// (what YAML decoders of the v2 generation produce for nested mappings; keys that read as integers are integers),
// integral numbers int.  A text that is no JSON is the string itself.
func CompositeFromText(s string) any {
	var v any
	if err := json.Unmarshal([]byte(s), &v); err != nil {
		return s
	}
	return compositeValue(v)
}

func compositeValue(v any) any {
	switch x := v.(type) {
	case float64:
		if x == math.Trunc(x) && math.Abs(x) < 1e15 {
			return int(x)
		}
	case []any:
		out := make([]interface{}, len(x))
		for i, e := range x {
			out[i] = compositeValue(e)
		}
		return out
	case map[string]any:
		if in, ok := x["$if"].(map[string]any); ok && len(x) == 1 {
			m := make(map[interface{}]interface{}, len(in))
			for k, e := range in {
				if n, err := strconv.Atoi(k); err == nil && strconv.Itoa(n) == k {
					m[n] = compositeValue(e)
				} else {
					m[k] = compositeValue(e)
				}
			}
			return m
		}
		m := make(map[string]interface{}, len(x))
		for k, e := range x {
			m[k] = compositeValue(e)
		}
		return m
	}
	return v
}

// recorder is a search predicate the way callers write them: it wraps the comparison and keeps what it was shown in
// state of its own - plain variables of the calling goroutine, no locks (the reader is one goroutine; a read call
// that hands the caller's function to the document runs it for that reader).
type recorder struct {
	eq    dom.SearchValueFunc
	calls int
	seen  []string
}

func newRecorder(want any) *recorder { return &recorder{eq: dom.SearchEqual(want)} }

func (r *recorder) fn(v interface{}) bool {
	r.calls++
	r.seen = append(r.seen, fmt.Sprintf("%T(%v)", v, v))
	return r.eq(v)
}

// text: what the predicate was shown (as a multiset: the order within a container is the map's).
func (r *recorder) text() string {
	sort.Strings(r.seen)
	return fmt.Sprintf("|shown %d/%d:%s", r.calls, len(r.seen), strings.Join(r.seen, ","))
}

func WireNode(w any) dom.Node {
	switch x := w.(type) {
	case []any:
		lb := dom.ListNode()
		for _, e := range x {
			lb.Append(WireNode(e))
		}
		return lb
	case map[string]any:
		if c, ok := x["m"].(map[string]any); ok {
			cb := dom.Builder().Container()
			keys := make([]string, 0, len(c))
			for k := range c {
				keys = append(keys, k)
			}
			sort.Strings(keys)
			for _, k := range keys {
				cb.AddValue(k, WireNode(c[k]))
			}
			return cb
		}
		t, _ := x["t"].(string)
		s, _ := x["v"].(string)
		return dom.LeafNode(scalarFromWire(t, s))
	}
	return dom.LeafNode(nil)
}

func wirePlain(w any) any {
	switch x := w.(type) {
	case []any:
		l := make([]any, len(x))
		for i, e := range x {
			l[i] = wirePlain(e)
		}
		return l
	case map[string]any:
		if c, ok := x["m"].(map[string]any); ok {
			m := map[string]any{}
			for k, e := range c {
				m[k] = wirePlain(e)
			}
			return m
		}
		t, _ := x["t"].(string)
		s, _ := x["v"].(string)
		return scalarFromWire(t, s)
	}
	return nil
}

func container(w any) dom.ContainerBuilder {
	if cb, ok := WireNode(w).(dom.ContainerBuilder); ok {
		return cb
	}
	return dom.Builder().Container()
}

// LayerNames: the names of the layers of a `layers` overlay, in insertion order.
func LayerNames(n int) []string {
	out := []string{"zbase", "atop"}
	for i := 3; i <= n; i++ {
		out = append(out, fmt.Sprintf("l%d", i))
	}
	return out[:n]
}

// Build constructs the document the way `origin` says (more: the layers after the second one of a
// `layers` overlay).
func Build(origin string, d1, d2 any, more ...any) *Subject {
	switch origin {
	case "layers":
		// an overlay of 2 + len(more) layers, each added as it is (no Put afterwards)
		o := dom.NewOverlayDocument()
		names := LayerNames(2 + len(more))
		for i, d := range append([]any{d1, d2}, more...) {
			o.Add(names[i], container(d))
		}
		return &Subject{O: o}
	case "loaded":
		b, _ := yaml.Marshal(wirePlain(d1))
		cb, err := dom.Builder().FromReader(bytes.NewReader(b), dom.DefaultYamlDecoder)
		if err != nil {
			return &Subject{C: dom.Builder().Container()}
		}
		return &Subject{C: cb}
	case "frommap":
		m, _ := wirePlain(d1).(map[string]any)
		return &Subject{C: dom.Builder().FromMap(m)}
	case "merged":
		return &Subject{C: container(d1).Merge(container(d2))}
	case "merged-append":
		return &Subject{C: container(d1).Merge(container(d2), dom.ListsMergeAppend())}
	case "cloned":
		c, _ := container(d1).Clone().(dom.Container)
		return &Subject{C: c}
	case "sealed":
		return &Subject{C: container(d1).Seal()}
	case "overlay":
		o := dom.NewOverlayDocument()
		o.Add("zbase", container(d1))
		o.Add("atop", container(d2))
		o.Put("atop", "put.here", dom.LeafNode("v"))
		return &Subject{O: o}
	}
	return &Subject{C: container(d1)}
}

// NodeText walks a node through the read API itself (Children / Items / Value).
func NodeText(n dom.Node) string {
	if n == nil {
		return "nil"
	}
	switch {
	case n.IsContainer():
		ch := n.(dom.Container).Children()
		keys := make([]string, 0, len(ch))
		for k := range ch {
			keys = append(keys, k)
		}
		sort.Strings(keys)
		parts := make([]string, len(keys))
		for i, k := range keys {
			parts[i] = strconv.Quote(k) + ":" + NodeText(ch[k])
		}
		return "{" + strings.Join(parts, ",") + "}"
	case n.IsList():
		items := n.(dom.List).Items()
		parts := make([]string, len(items))
		for i, e := range items {
			parts[i] = NodeText(e)
		}
		return "[" + strings.Join(parts, ",") + "]"
	default:
		return fmt.Sprintf("%T(%v)", n.(dom.Leaf).Value(), n.(dom.Leaf).Value())
	}
}

func plainText(v any) string {
	b, err := json.Marshal(v)
	if err != nil {
		return fmt.Sprintf("%v", v)
	}
	return string(b)
}

// Methods lists the calls Exec understands, by subject kind.
var ContainerMethods = []string{"Container.Child", "Container.Children", "Container.Lookup", "Container.Flatten",
	"Container.Search", "Container.AsMap", "Container.Serialize", "Node.Equals", "Node.SameAs", "Node.Clone",
	"Node.IsContainer", "Node.IsList", "Node.IsLeaf", "List.Items", "List.Size", "List.AsSlice", "Leaf.Value"}

// AuxMethods: read-only uses of a document that are not methods of the read interfaces:
// ContainerBuilder.Merge(other, opts...) "creates new Container instance" (dom/types.go) and, by the
// merge property, modifies neither the receiver nor `other`; the document takes both roles.
var AuxMethods = []string{"ContainerBuilder.Merge"}
var OverlayMethods = []string{"OverlayDocument.Lookup", "OverlayDocument.LookupAny", "OverlayDocument.Search",
	"OverlayDocument.Merged", "OverlayDocument.Layers", "OverlayDocument.LayerNames", "OverlayDocument.Walk",
	"OverlayDocument.Serialize"}

// Exec performs one read-only call and returns its canonical observation.
func (s *Subject) Exec(c Call) (obs string) {
	defer func() {
		if r := recover(); r != nil {
			obs = fmt.Sprintf("panic: %v", r)
		}
	}()
	if s.O != nil {
		return s.execOverlay(c)
	}
	root := s.C
	switch c.M {
	case "Container.Child":
		return NodeText(root.Child(c.Path))
	case "Container.Children":
		return NodeText(root)
	case "Container.Lookup":
		return NodeText(root.Lookup(c.Path))
	case "Container.Flatten":
		f := root.Flatten()
		keys := make([]string, 0, len(f))
		for k := range f {
			keys = append(keys, k)
		}
		sort.Strings(keys)
		parts := make([]string, len(keys))
		for i, k := range keys {
			parts[i] = k + "=" + NodeText(f[k])
		}
		return strings.Join(parts, ";")
	case "Container.Search":
		t, _ := c.V.(map[string]any)
		ty, _ := t["t"].(string)
		tx, _ := t["v"].(string)
		rec := newRecorder(scalarFromWire(ty, tx))
		r := root.Search(rec.fn)
		sort.Strings(r)
		return strings.Join(r, ";") + rec.text()
	case "Container.AsMap":
		return plainText(root.AsMap())
	case "Container.Serialize":
		var buf bytes.Buffer
		enc := dom.DefaultYamlEncoder
		if c.V == "json" {
			enc = dom.DefaultJsonEncoder
		}
		err := root.Serialize(&buf, dom.DefaultNodeEncoderFn, enc)
		return fmt.Sprintf("%v|%s", err != nil, buf.String())
	}
	// calls on a node inside the document (Path == "" means the root)
	var n dom.Node = root
	if c.Path != "" {
		n = root.Lookup(c.Path)
	}
	if n == nil {
		return "nil-target"
	}
	switch c.M {
	case "Node.Equals":
		if c.V == nil {
			return fmt.Sprint(n.Equals(n), n.Equals(root), root.Equals(n))
		}
		o := WireNode(c.V)
		return fmt.Sprint(n.Equals(o), o.Equals(n))
	case "Node.SameAs":
		if c.V == nil {
			return fmt.Sprint(n.SameAs(root), root.SameAs(n))
		}
		o := WireNode(c.V)
		return fmt.Sprint(n.SameAs(o), o.SameAs(n))
	case "ContainerBuilder.Merge":
		if c.V == nil {
			// the document merged with ITSELF: receiver and `other` are one object
			cb, ok := n.(dom.ContainerBuilder)
			if !ok {
				return "not-applicable"
			}
			return "self|" + NodeText(s.keep(c, cb.Merge(cb, MergeOpts(c.Opt)...)))
		}
		o, ok := WireNode(c.V).(dom.ContainerBuilder)
		if !ok || !n.IsContainer() {
			return "not-applicable"
		}
		// the document as `other` (typed as the read-only Container) ...
		obs := NodeText(s.keep(c, o.Merge(n.(dom.Container), MergeOpts(c.Opt)...)))
		// ... and, when it is a builder, as the receiver
		if cb, ok := n.(dom.ContainerBuilder); ok {
			obs += "|" + NodeText(s.keep(c, cb.Merge(o, MergeOpts(c.Opt)...)))
		}
		return obs
	case "Node.Clone":
		cl := s.keep(c, n.Clone())
		return NodeText(cl) + fmt.Sprint(cl.Equals(n), n.Equals(cl))
	case "Node.IsContainer":
		return fmt.Sprint(n.IsContainer())
	case "Node.IsList":
		return fmt.Sprint(n.IsList())
	case "Node.IsLeaf":
		return fmt.Sprint(n.IsLeaf())
	case "List.Items":
		if l, ok := n.(dom.List); ok {
			return NodeText(l)
		}
	case "List.Size":
		if l, ok := n.(dom.List); ok {
			return fmt.Sprint(l.Size())
		}
	case "List.AsSlice":
		if l, ok := n.(dom.List); ok {
			return plainText(l.AsSlice())
		}
	case "Leaf.Value":
		if l, ok := n.(dom.Leaf); ok {
			return fmt.Sprintf("%T(%v)", l.Value(), l.Value())
		}
	}
	return "not-applicable"
}

func (s *Subject) execOverlay(c Call) string {
	o := s.O
	switch c.M {
	case "OverlayDocument.Lookup":
		return NodeText(o.Lookup(c.Layer, c.Path))
	case "OverlayDocument.LookupAny":
		return NodeText(o.LookupAny(c.Path))
	case "OverlayDocument.Search":
		t, _ := c.V.(map[string]any)
		ty, _ := t["t"].(string)
		tx, _ := t["v"].(string)
		var parts []string
		rec := newRecorder(scalarFromWire(ty, tx))
		for _, co := range o.Search(rec.fn) {
			parts = append(parts, co.Layer()+":"+co.Path())
		}
		sort.Strings(parts)
		return strings.Join(parts, ";") + rec.text()
	case "OverlayDocument.Merged":
		return NodeText(s.keep(c, o.Merged(MergeOpts(c.Opt)...)))
	case "OverlayDocument.Layers":
		ls := o.Layers()
		for _, l := range ls {
			s.keep(c, l)
		}
		keys := make([]string, 0, len(ls))
		for k := range ls {
			keys = append(keys, k)
		}
		sort.Strings(keys)
		var parts []string
		for _, k := range keys {
			parts = append(parts, k+"="+NodeText(ls[k]))
		}
		return strings.Join(parts, ";")
	case "OverlayDocument.LayerNames":
		return strings.Join(o.LayerNames(), ",")
	case "OverlayDocument.Walk":
		var parts []string
		o.Walk(func(layer, path string, parent dom.Node, node dom.Node) bool {
			parts = append(parts, layer+":"+path+"="+NodeText(node)+fmt.Sprint(parent.IsContainer(), parent.IsList()))
			return true
		})
		sort.Strings(parts)
		return strings.Join(parts, ";")
	case "OverlayDocument.Serialize":
		var buf bytes.Buffer
		enc := dom.DefaultYamlEncoder
		if c.V == "json" {
			enc = dom.DefaultJsonEncoder
		}
		err := o.Serialize(&buf, dom.DefaultNodeEncoderFn, enc)
		return fmt.Sprintf("%v|%s", err != nil, buf.String())
	}
	return "not-applicable"
}

// LayerFingerprints: the Fingerprint of every layer of an overlay document separately (the layer's own
// container with everything below it), by layer name; nil when x is not the package's overlay type.
func LayerFingerprints(x any) map[string]string {
	v := reflect.ValueOf(x)
	for v.IsValid() && (v.Kind() == reflect.Ptr || v.Kind() == reflect.Interface) {
		if v.IsNil() {
			return nil
		}
		v = v.Elem()
	}
	if !v.IsValid() || v.Kind() != reflect.Struct {
		return nil
	}
	m := v.FieldByName("overlays")
	if !m.IsValid() || m.Kind() != reflect.Map || m.Type().Key().Kind() != reflect.String {
		return nil
	}
	out := map[string]string{}
	for it := m.MapRange(); it.Next(); {
		var sb strings.Builder
		fp(&sb, it.Value(), map[uintptr]bool{}, 0)
		out[it.Key().String()] = sb.String()
	}
	return out
}

// LayerTexts: the content of every layer as the overlay's own snapshot view (Layers()) reports it.
func LayerTexts(o dom.OverlayDocument) map[string]string {
	out := map[string]string{}
	for k, l := range o.Layers() {
		out[k] = NodeText(l)
	}
	return out
}

// Fingerprint is a deep structural dump of the object graph behind x: pointers are followed,
// unexported fields included, nil and empty maps / slices distinguished, slice capacity and the
// content of the backing array between len and cap included.
func Fingerprint(x any) string {
	var sb strings.Builder
	fp(&sb, reflect.ValueOf(x), map[uintptr]bool{}, 0)
	return sb.String()
}

func fp(sb *strings.Builder, v reflect.Value, seen map[uintptr]bool, depth int) {
	if !v.IsValid() {
		sb.WriteString("invalid")
		return
	}
	if depth > 200 {
		sb.WriteString("<deep>")
		return
	}
	switch v.Kind() {
	case reflect.Ptr:
		if v.IsNil() {
			sb.WriteString("nilptr")
			return
		}
		if seen[v.Pointer()] {
			sb.WriteString("<seen>")
			return
		}
		seen[v.Pointer()] = true
		sb.WriteString("&")
		fp(sb, v.Elem(), seen, depth+1)
		delete(seen, v.Pointer())
	case reflect.Interface:
		if v.IsNil() {
			sb.WriteString("nilif")
			return
		}
		sb.WriteString(v.Elem().Type().String() + ":")
		fp(sb, v.Elem(), seen, depth+1)
	case reflect.Struct:
		sb.WriteString("{")
		for i := 0; i < v.NumField(); i++ {
			sb.WriteString(v.Type().Field(i).Name + "=")
			fp(sb, v.Field(i), seen, depth+1)
			sb.WriteString(" ")
		}
		sb.WriteString("}")
	case reflect.Slice:
		if v.IsNil() {
			sb.WriteString("nilslice")
			return
		}
		fmt.Fprintf(sb, "[len=%d cap=%d:", v.Len(), v.Cap())
		for i := 0; i < v.Len(); i++ {
			fp(sb, v.Index(i), seen, depth+1)
			sb.WriteString(",")
		}
		if v.Cap() > v.Len() {
			// the backing array between len and cap belongs to the object too: an append by
			// somebody else that fits the capacity writes there
			sb.WriteString("|spare:")
			full := v.Slice3(0, v.Cap(), v.Cap())
			for i := v.Len(); i < full.Len(); i++ {
				fp(sb, full.Index(i), seen, depth+1)
				sb.WriteString(",")
			}
		}
		sb.WriteString("]")
	case reflect.Array:
		sb.WriteString("[")
		for i := 0; i < v.Len(); i++ {
			fp(sb, v.Index(i), seen, depth+1)
			sb.WriteString(",")
		}
		sb.WriteString("]")
	case reflect.Map:
		if v.IsNil() {
			sb.WriteString("nilmap")
			return
		}
		type kv struct{ k, v string }
		var es []kv
		for it := v.MapRange(); it.Next(); {
			var kb, vb strings.Builder
			fp(&kb, it.Key(), seen, depth+1)
			fp(&vb, it.Value(), seen, depth+1)
			es = append(es, kv{kb.String(), vb.String()})
		}
		sort.Slice(es, func(i, j int) bool { return es[i].k < es[j].k })
		fmt.Fprintf(sb, "map[len=%d:", len(es))
		for _, e := range es {
			sb.WriteString(e.k + "=>" + e.v + ",")
		}
		sb.WriteString("]")
	case reflect.String:
		sb.WriteString(strconv.Quote(v.String()))
	case reflect.Bool:
		fmt.Fprint(sb, v.Bool())
	case reflect.Int, reflect.Int8, reflect.Int16, reflect.Int32, reflect.Int64:
		fmt.Fprint(sb, v.Int())
	case reflect.Uint, reflect.Uint8, reflect.Uint16, reflect.Uint32, reflect.Uint64, reflect.Uintptr:
		fmt.Fprint(sb, v.Uint())
	case reflect.Float32, reflect.Float64:
		fmt.Fprint(sb, v.Float())
	case reflect.Func, reflect.Chan, reflect.UnsafePointer:
		if v.IsNil() {
			sb.WriteString("nil" + v.Kind().String())
		} else {
			sb.WriteString("<" + v.Kind().String() + ">")
		}
	default:
		sb.WriteString("<" + v.Kind().String() + ">")
	}
}
