package main

import (
	"fmt"
	"math/rand"
	"sort"
	"strings"
)

// C11 — (deep) LONG expansion paths.
//
// "It panics with a circular-reference error exactly when a placeholder's expansion reaches itself" and "resolution always
// terminates" are statements about expansion PATHS of any length: a property file in which a refers to b, b to c, ... is
// acyclic however long the chain is, and so is a default nested in a default nested in a default.  The grammar stream
// nests at most 4 deep over at most 8 keys; this stream builds paths of 1..100 placeholders that are open at the same time,
// out of the three ways a placeholder can open another one —
//
//	value:   the value of a known key holds the next placeholder            k0 = "x${k1}y"
//	default: the default of an unknown key holds the next placeholder       ${u0:${u1:...}}
//	key:     the key part holds the next placeholder (resolved first)       ${${n0}}   with n0 = "n1"
//
// — alone and mixed, acyclic (the path ends in a plain word, an unknown key or an unterminated tail) or closed into a TRUE
// cycle at its far end (the last link refers to a link of the path, or to one before the point where the path was entered),
// and, as the control, the same number of placeholders side by side (many placeholders, short paths).  All of it goes through
// the ordinary batch evaluation: reference, model, repetition clause.

// c11GenDeep draws one batch with a table of chained keys and 2-3 inputs entering the chains.
func c11GenDeep(r *rand.Rand, d [3]string) c11Batch {
	ph := func(body string) string { return d[0] + body + d[1] }
	txt := func() string { return pick(r, []string{"", "", "", "x", "y", "-", " ", "0", "_.", "xy z"}) }
	// the length of the path: every scale up to 100
	depth := 1 + r.Intn(pick(r, []int{8, 24, 48, 100}))
	m := map[string]string{}
	var in []string
	shape := r.Intn(7)
	switch shape {
	case 0, 1:
		// value chain k0 -> k1 -> ... ; case 1 closes it into a cycle at the far end
		for i := 0; i < depth; i++ {
			ref := ph(fmt.Sprintf("k%d", i+1))
			if r.Intn(6) == 0 {
				ref = ph(fmt.Sprintf("k%d", i+1) + d[2] + txt()) // with a default that is not needed
			}
			m[fmt.Sprintf("k%d", i)] = txt() + ref + txt()
		}
		last := fmt.Sprintf("k%d", depth)
		if shape == 1 {
			m[last] = txt() + ph(fmt.Sprintf("k%d", r.Intn(depth+1))) // a link of the path (possibly itself)
		} else {
			switch r.Intn(4) {
			case 0: // the last key is unknown: its placeholder stays verbatim
			case 1:
				m[last] = d[0] + "k0" // unterminated: not a placeholder, no cycle
			default:
				m[last] = pick(r, []string{"end", "", "v w"})
			}
		}
		enter := r.Intn(1 + depth/4)
		in = append(in, txt()+ph("k0")+txt(), ph(fmt.Sprintf("k%d", enter))+ph("k0"), txt()+ph(fmt.Sprintf("k%d", depth)))
	case 2:
		// defaults nested in defaults, every key unknown (or: the innermost one known)
		s := pick(r, []string{"x", "", "end"})
		if r.Intn(3) == 0 {
			m["k0"] = "v"
			s = ph("k0")
		}
		for i := 0; i < depth; i++ {
			s = ph(fmt.Sprintf("u%d", i) + d[2] + txt() + s + txt())
		}
		in = append(in, s, txt()+s+txt()+ph("u0"+d[2]+"z"))
	case 3:
		// keys nested in keys: n0 = "n1", n1 = "n2", ... ; ${${${n0}}} looks up n0, then n1, then n2
		for i := 0; i < depth; i++ {
			m[fmt.Sprintf("n%d", i)] = fmt.Sprintf("n%d", i+1)
		}
		if r.Intn(2) == 0 {
			m[fmt.Sprintf("n%d", depth)] = "end"
		}
		s := "n0"
		for i := 0; i < depth; i++ {
			s = ph(s)
		}
		in = append(in, s, txt()+ph(s)+txt())
	case 4, 5:
		// mixed path: every link is drawn from the three ways; case 5 closes it into a cycle
		name := func(i int) string { return fmt.Sprintf("k%d", i) }
		for i := 0; i < depth; i++ {
			next := name(i + 1)
			switch r.Intn(3) {
			case 0:
				m[name(i)] = txt() + ph(next) + txt()
			case 1:
				m[name(i)] = txt() + ph(fmt.Sprintf("u%d", i)+d[2]+txt()+ph(next)) + txt()
			default:
				m[fmt.Sprintf("p%d", i)] = next
				m[name(i)] = ph(ph(fmt.Sprintf("p%d", i))) + txt()
			}
		}
		if shape == 5 {
			m[name(depth)] = ph(name(r.Intn(depth + 1)))
		} else if r.Intn(3) > 0 {
			m[name(depth)] = pick(r, []string{"end", "", "a"})
		}
		in = append(in, ph(name(0)), txt()+ph("u"+d[2]+ph(name(0)))+txt()+ph(name(depth/2)))
	default:
		// control: as many placeholders, side by side (every path is short)
		m["a"] = "1"
		m["b"] = ph("a") + ph("a")
		var sb strings.Builder
		for i := 0; i < depth; i++ {
			sb.WriteString(pick(r, []string{ph("a"), ph("b"), ph("u" + d[2] + ph("a")), ph(fmt.Sprintf("u%d", i)), txt()}))
		}
		m["w"] = sb.String()
		in = append(in, sb.String(), ph("w")+txt()+ph("w"))
	}
	keys := make([]string, 0, len(m))
	for k := range m {
		keys = append(keys, k)
	}
	sort.Strings(keys)
	tbl := make([][2]string, 0, len(keys))
	for _, k := range keys {
		tbl = append(tbl, [2]string{k, m[k]})
	}
	return c11Batch{D: d, Tbl: tbl, In: in, Src: "deep"}
}

// c11DepthBucket: the evidence bucket of the longest expansion path of a resolution (as counted by the reference).
func c11DepthBucket(n int) string {
	switch {
	case n <= 4:
		return "path<=4"
	case n <= 16:
		return "path5-16"
	case n <= 32:
		return "path17-32"
	case n <= 64:
		return "path33-64"
	}
	return "path>64"
}

// c11InlineVariants (shrinking): remove a table entry (k, v) and write v wherever the plain placeholder of k stands in the
// other values and in the input — a chain gets one link shorter while staying a chain (dropping the entry alone cuts it).
func c11InlineVariants(b c11Batch, f func(c11Batch)) {
	if len(b.In) != 1 || len(b.Tbl) < 2 {
		return
	}
	for i, kv := range b.Tbl {
		ref := b.D[0] + kv[0] + b.D[1]
		used := strings.Contains(b.In[0], ref)
		n := b
		n.Tbl = nil
		for j, o := range b.Tbl {
			if j == i {
				continue
			}
			if strings.Contains(o[1], ref) {
				used = true
			}
			n.Tbl = append(n.Tbl, [2]string{o[0], strings.ReplaceAll(o[1], ref, kv[1])})
		}
		if !used {
			continue
		}
		n.In = []string{strings.ReplaceAll(b.In[0], ref, kv[1])}
		f(n)
	}
}
