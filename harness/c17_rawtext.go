package main

import (
	"bytes"
	"encoding/json"
	"fmt"
	"math/rand"
	"sort"
	"unicode/utf8"

	"github.com/rkosegi/yaml-toolkit/k8s"
	"gopkg.in/yaml.v3"
)

// C17, text items given as BYTES (direct predicates only).
//
// "every data item exactly: text items as text", "Item updates ... made through the data interfaces are exactly what
// a reload observes": a text item is a Go string, and a Go string holds any bytes.  Text that people keep in manifests
// is not always valid UTF-8 - configuration in a legacy single-byte encoding, a value cut in the middle of a
// multi-byte character, UTF-16 with its byte order mark.  A replay file is JSON and cannot carry such a string, so
// this case kind holds text items (initial ones and StringData().Update arguments) as byte lists; everything else is
// the manifest case again: load, observe, edit through both facades, WriteTo + reload, WriteTo of the SAME manifest
// once more + reload, WriteTo of the reloaded one + reload.  The expectation is two plain maps (Update sets, Remove
// deletes, the two sections independent of each other).

type c17RawEdit struct {
	Op  string `json:"op"` // supdate | sremove | bupdate | bremove
	Key string `json:"key"`
	B   []int  `json:"b"`
}

type c17RawText struct {
	Kind  string       `json:"kind"`
	Extra W            `json:"extra"`
	Text  []c17Bin     `json:"text"` // text items, as bytes
	Bin   []c17Bin     `json:"bin"`
	Via   string       `json:"via"` // bytes | reader
	Edits []c17RawEdit `json:"edits"`
}

// c17GenRawString: text of 0-24 bytes - valid UTF-8, or not: single bytes >= 0x80 between ASCII (legacy encodings), a
// multi-byte character cut short, a lone continuation byte, an overlong form, an encoded surrogate, 0xFE / 0xFF,
// UTF-16 with BOM.  Kept only when yaml.v3 alone round-trips it as a string.
func c17GenRawString(r *rand.Rand) string {
	frags := []string{"a", "conf", "k=v", "\n", " ", "p\xf8\xedli\xb9", "\xbelu\xbbou\xe8k\xfd", "\xe9", "\xfc\xdf", "caf\xe9\n", "\xe6\x97", "\xf0\x9f\x9a",
		"\x80", "\xbf", "\xc0\xaf", "\xed\xa0\x80", "\xff", "\xfe\xff\x00a", "\xff\xfea\x00", "\xc3", "é", "日本", "\U0001F680", "x: 1", "# c", "-", "0", "true"}
	for try := 0; try < 10; try++ {
		var b []byte
		for i, n := 0, 1+r.Intn(4); i < n; i++ {
			b = append(b, pick(r, frags)...)
		}
		if r.Intn(6) == 0 {
			b = nil
			for i, n := 0, r.Intn(12); i < n; i++ {
				b = append(b, byte(32+r.Intn(224)))
			}
		}
		if s := string(b); c17YamlStable(s) {
			return s
		}
	}
	return "s"
}

func c17GenRawText(r *rand.Rand) c17RawText {
	kind := pick(r, []string{"Secret", "ConfigMap"})
	keys := []string{"a", "b", "motd", "app.conf", "K_2", "z"}
	cs := c17RawText{Kind: kind, Extra: c17GenExtra(r, kind), Text: []c17Bin{}, Bin: c17GenBinsOf(r, keys, 3), Via: pick(r, []string{"bytes", "reader"}), Edits: []c17RawEdit{}}
	seen := map[string]bool{}
	for i, n := 0, r.Intn(4); i < n; i++ {
		if k := pick(r, keys); !seen[k] {
			seen[k] = true
			cs.Text = append(cs.Text, c17Bin{K: k, B: c17FromBytes([]byte(c17GenRawString(r)))})
		}
	}
	for i, n := 0, r.Intn(6); i < n; i++ {
		k := pick(r, keys)
		switch r.Intn(6) {
		case 0, 1, 2:
			cs.Edits = append(cs.Edits, c17RawEdit{Op: "supdate", Key: k, B: c17FromBytes([]byte(c17GenRawString(r)))})
		case 3:
			cs.Edits = append(cs.Edits, c17RawEdit{Op: "sremove", Key: k})
		case 4:
			cs.Edits = append(cs.Edits, c17RawEdit{Op: "bupdate", Key: k, B: c17GenBytes(r)})
		default:
			cs.Edits = append(cs.Edits, c17RawEdit{Op: "bremove", Key: k})
		}
	}
	return cs
}

func c17RunRawText(c *Ctx) {
	for i := 0; i < c.N(400); i++ {
		c.Tick()
		c.Do("rawtext", c17GenRawText(c.Rng))
	}
}

// c17RawShow: items in a form a JSON report can carry (text quoted the Go way, bytes as numbers).
func c17RawShow(text map[string]string, bin map[string][]byte) map[string]any {
	t, b := map[string]any{}, map[string]any{}
	for k, v := range text {
		t[k] = fmt.Sprintf("%+q", v)
	}
	for k, v := range bin {
		b[k] = c17FromBytes(v)
	}
	return map[string]any{"text": t, "binary": b}
}

func c17RawObserve(m k8s.Manifest) (text map[string]string, bin map[string][]byte, lists [2][]string) {
	text, bin = map[string]string{}, map[string][]byte{}
	lists[0] = append([]string{}, m.StringData().List()...)
	lists[1] = append([]string{}, m.BinaryData().List()...)
	sort.Strings(lists[0])
	sort.Strings(lists[1])
	for _, k := range lists[0] {
		if p := m.StringData().Get(k); p != nil {
			text[k] = *p
		}
	}
	for _, k := range lists[1] {
		if v := m.BinaryData().Get(k); v != nil {
			bin[k] = v
		}
	}
	return
}

func c17RawSame(text map[string]string, bin map[string][]byte, lists [2][]string, wantText map[string]string, wantBin map[string][]byte) bool {
	if len(text) != len(wantText) || len(bin) != len(wantBin) || len(lists[0]) != len(wantText) || len(lists[1]) != len(wantBin) {
		return false
	}
	for k, v := range wantText {
		if g, ok := text[k]; !ok || g != v {
			return false
		}
	}
	for k, v := range wantBin {
		if g, ok := bin[k]; !ok || !bytes.Equal(g, v) {
			return false
		}
	}
	for i, ls := range lists {
		for j := 1; j < len(ls); j++ {
			if ls[j] == ls[j-1] {
				return false
			}
		}
		for _, k := range ls {
			if _, ok := wantText[k]; i == 0 && !ok {
				return false
			}
			if _, ok := wantBin[k]; i == 1 && !ok {
				return false
			}
		}
	}
	return true
}

func c17EvalRawText(c *Ctx, raw []byte) {
	var cs c17RawText
	if err := json.Unmarshal(raw, &cs); err != nil {
		panic(err)
	}
	if cs.Kind != "Secret" && cs.Kind != "ConfigMap" {
		c.Dist("rawtext:kind-unsupported(skipped)")
		return
	}
	if _, ok := wireCont(cs.Extra); !ok {
		c.Dist("rawtext:extra-not-a-container(skipped)")
		return
	}
	wantText, wantBin := map[string]string{}, map[string][]byte{}
	invalid := 0
	note := func(s string) bool {
		if !utf8.ValidString(s) {
			invalid++
		}
		return c17YamlStable(s)
	}
	for _, it := range cs.Text {
		s := string(c17ToBytes(it.B))
		if _, dup := wantText[it.K]; dup || !note(s) {
			c.Dist("rawtext:outside-the-domain(skipped)")
			return
		}
		wantText[it.K] = s
	}
	for _, it := range cs.Bin {
		if _, dup := wantBin[it.K]; dup {
			c.Dist("rawtext:outside-the-domain(skipped)")
			return
		}
		wantBin[it.K] = c17ToBytes(it.B)
	}
	for _, e := range cs.Edits {
		if e.Op == "supdate" && !note(string(c17ToBytes(e.B))) {
			c.Dist("rawtext:outside-the-domain(skipped)")
			return
		}
	}
	// the body: what yaml.v3 writes for these items (a string that is not valid UTF-8 becomes a !!binary scalar, which
	// yaml.v3 reads back as the string)
	root := c17Root(cs.Kind, cs.Extra, nil, cs.Bin, false)
	if len(cs.Text) > 0 {
		_, tk := c17SectionKeys(cs.Kind)
		sec := map[string]any{}
		for k, v := range wantText {
			sec[k] = v
		}
		root[tk] = sec
	}
	body, err := yaml.Marshal(root)
	if err != nil {
		c.Dist("rawtext:body-not-encodable(skipped)")
		return
	}
	var back map[string]any
	if err := yaml.Unmarshal(body, &back); err != nil {
		c.Dist("rawtext:body-not-decodable(skipped)")
		return
	}
	if invalid > 0 {
		c.Dist("rawtext:holds-text-that-is-not-valid-UTF-8")
	} else {
		c.Dist("rawtext:all-text-valid-UTF-8")
	}
	if len(cs.Text)+len(cs.Bin)+len(cs.Edits) > 0 {
		c.Nontrivial()
	}
	load := func(b []byte) (k8s.Manifest, error) {
		if cs.Via == "reader" {
			return k8s.ManifestFromReader(bytes.NewReader(b))
		}
		return k8s.ManifestFromBytes(b)
	}
	expect := func() map[string]any { return c17RawShow(wantText, wantBin) }
	check := func(clause string, m k8s.Manifest, at any) bool {
		t, b, ls := c17RawObserve(m)
		return c.Direct(clause, c17RawSame(t, b, ls, wantText, wantBin),
			map[string]any{"at": at, "observed": c17RawShow(t, b), "lists": ls, "expected": expect()})
	}
	out, txt := guard(func() {
		m, err := load(body)
		if !c.Direct("manifest-loads", err == nil && m != nil, map[string]any{"body": string(bytes.ToValidUTF8(body, []byte("?"))), "err": fmt.Sprint(err)}) {
			return
		}
		if !check("loaded-items-are-the-written-items(text as bytes)", m, "load") {
			return
		}
		for i, e := range cs.Edits {
			switch e.Op {
			case "supdate":
				s := string(c17ToBytes(e.B))
				m.StringData().Update(e.Key, s)
				wantText[e.Key] = s
			case "sremove":
				m.StringData().Remove(e.Key)
				delete(wantText, e.Key)
			case "bupdate":
				m.BinaryData().Update(e.Key, c17ToBytes(e.B))
				wantBin[e.Key] = c17ToBytes(e.B)
			case "bremove":
				m.BinaryData().Remove(e.Key)
				delete(wantBin, e.Key)
			default:
				continue
			}
			if !check("facade-edit-is-what-the-facades-show(text as bytes)", m, map[string]any{"edit": i}) {
				return
			}
		}
		cur := m
		for round, what := range []string{"first WriteTo", "second WriteTo of the same manifest", "WriteTo of the reloaded manifest"} {
			var buf bytes.Buffer
			_, err := cur.WriteTo(&buf)
			if !c.Direct("write-succeeds", err == nil, map[string]any{"at": what, "err": fmt.Sprint(err)}) {
				return
			}
			re, err := load(buf.Bytes())
			if !c.Direct("written-manifest-reloads", err == nil && re != nil, map[string]any{"at": what, "err": fmt.Sprint(err)}) {
				return
			}
			if !check("reload-observes-exactly-the-items(text as text, bytes exact)", re, what) {
				return
			}
			if !check("alive-manifests-keep-their-own-items(after a write)", cur, what) {
				return
			}
			if round == 1 {
				cur = re
			}
		}
	})
	c.Direct("no-panic", out == "ok", txt)
}
