package main

import (
	"bytes"
	"encoding/base64"
	"encoding/json"
	"errors"
	"fmt"
	"io"
	"math/rand"
	"regexp"
	"sort"

	"github.com/rkosegi/yaml-toolkit/common"
	"github.com/rkosegi/yaml-toolkit/dom"
	"gopkg.in/yaml.v3"
)

// C01 — documents pass through the DOM unchanged (lossless load / convert / serialise).

type c01Map struct {
	M W `json:"m"`
}

type c01Text struct {
	Fmt string `json:"fmt"` // yaml | json
	B64 string `json:"b64"` // the text, base64 (it may be arbitrary bytes)
	Src string `json:"src"` // where the text came from (rendered | feature | malformed)
}

type c01Ser struct {
	M   W      `json:"m"`
	Fmt string `json:"fmt"`
}

var idxSuffixRe = regexp.MustCompile(`\[\d+]$`)

func init() {
	register(&Prop{ID: "C01", Run: c01Run,
		Rule: "generic values (string-keyed maps, lists, scalars of Go types int/int64/uint64/float64/string/bool/time.Time, nulls at any position incl. inside lists, empty maps/lists) through FromMap/AsMap; YAML and JSON texts (renderings of generated values, a feature corpus: timestamps, anchors/aliases, merge keys, !!binary, non-string keys, big ints, .inf, multi-document, empty; and a malformed stream: truncations, byte flips, random bytes) through FromReader vs a control decode; Serialize x20 per document and encoder; failing writer/reader at every byte offset; afterfail: a call that fails part-way (writer failing after n bytes for six n incl. 0, a value the encoder rejects, a reader failing after n bytes, unparsable text) on one document, then ordinary Serialize / FromReader calls on another and on the same document, compared byte for byte with what they produced before the failure; shared: values in which one Go map / slice object occurs at 2-3 positions; big: texts of Size-1 / Size / Size+1 bytes for Size in 512, 4 KiB, 64 KiB, 1 MiB, and with a 2/3/4-byte UTF-8 character starting at offset Size-1, read whole, in chunks of Size / Size-1 / 511 bytes and one byte at a time, reader and writer failing at the threshold; serhist: documents serialised, edited in place (AddValue / Remove / Set / MustSet / Append / Clear ... through nested builders, Lookup, the root's path API) and serialised again, against a freshly built document. Non-trivial: the value has at least one composite child or the text decodes to a non-empty map; distinct by case hash.",
		Assumptions: []string{
			"yaml.v3 / encoding/json are external: byte determinism of Serialize rests on the encoder being a function of the value (sorted keys); fault propagation on the codec returning stream errors — validated here by repeated calls and by fault enumeration, not proved",
			"known finding D26: map keys ending in an index group are interpreted as list indices by FromMap (classified by a decidable predicate on the input's keys)",
			"scalars are compared as (Go type, fmt.Sprint) pairs"}})
	evals["C01"] = c01Eval
	shrinkers["C01"] = shrinkJSON
}

func c01Gen() *DocGen {
	g := stdGen()
	g.Types = []string{"int", "string", "bool", "float64", "int64", "uint64", "time"}
	g.PNull = 0.15
	return g
}

var c01Features = []string{
	"date: 2001-12-14\nx: 1\n",
	"l:\n  - 2001-12-14T21:59:43.10-05:00\n  - null\n  - ~\n",
	"base: &b {a: 1, b: [1, 2]}\ncopy: *b\n",
	"base: &b {a: 1}\nd:\n  <<: *b\n  c: 3\n",
	"bin: !!binary aGVsbG8=\n",
	"a:\n  1: x\n  2: y\n",
	"a:\n  true: x\n",
	"l:\n  - {1: a}\n  - [ {2: b} ]\n",
	"big: 18446744073709551615\nneg: -9223372036854775808\nf: 1e400\n",
	"inf: .inf\nninf: -.inf\n",
	"a: 1\n---\nb: 2\n",
	"",
	"# only a comment\n",
	"- 1\n- 2\n",
	"just a scalar\n",
	"a: [1, null, 3]\nb: [[null], []]\nc: {}\n",
	"a: |\n  multi\n  line\nb: >\n  folded\n  text\n",
	"\"a[1]\": 1\n",
	"a:\n  \"b[0]\": x\n",
	"? [1, 2]\n: v\n",
	"a: !!str 1\nb: !!float 1\nc: 0x1F\nd: 0o17\ne: 1_000\n",
	"t: 12:30:45\nv: 1.2.3\nn: null\nnn: Null\ne: ''\n",
}

var c01JsonFeatures = []string{
	`{"a": [1, null, 3], "b": {"c": null}, "d": 1.5e300, "e": 12345678901234567890}`,
	`{"a": {"b": {"c": [[[]]]}}}`,
	`{}`, `[]`, `null`, `1`, ``, `{"a":1}{"b":2}`, `{"a": 1,}`, `{"a[1]": 1}`,
	"{\"a\": \"\\u00e9\\ud834\\udd1e\"}",
	`{"a": 1} trailing`,
}

func c01Run(c *Ctx) {
	r := c.Rng
	g := c01Gen()
	for i := 0; i < c.N(2500); i++ {
		c.Tick()
		c.Do("frommap", c01Map{g.Doc(r)})
	}
	// D26 stream: keys with an index suffix
	gi := c01Gen()
	gi.Keys = []string{"a", "b", "a[0]", "a[1]", "b[2]", "c[0][1]", "x-y"}
	gi.MaxDepth = 3
	for i := 0; i < c.N(300); i++ {
		c.Tick()
		c.Do("frommap", c01Map{gi.Doc(r)})
	}
	// texts
	if !c.searchMode || true {
		for _, t := range c01Features {
			c.Do("text", c01Text{"yaml", base64.StdEncoding.EncodeToString([]byte(t)), "feature"})
		}
		for _, t := range c01JsonFeatures {
			c.Do("text", c01Text{"json", base64.StdEncoding.EncodeToString([]byte(t)), "feature"})
		}
	}
	gt := stdGen() // renderable by both codecs
	for i := 0; i < c.N(500); i++ {
		c.Tick()
		m := wirePlain(gt.Doc(r))
		for _, f := range []string{"yaml", "json"} {
			var b []byte
			if f == "yaml" {
				b, _ = yaml.Marshal(m)
			} else {
				b, _ = json.Marshal(m)
			}
			c.Do("text", c01Text{f, base64.StdEncoding.EncodeToString(b), "rendered"})
			if i%3 == 0 && len(b) > 0 {
				c.Do("text", c01Text{f, base64.StdEncoding.EncodeToString(c01Mangle(r, b)), "malformed"})
			}
		}
	}
	// mappings with non-string keys (ints, bools, floats) at random levels
	for i := 0; i < c.N(150); i++ {
		c.Tick()
		b, err := yaml.Marshal(c01AnyKeys(r, wirePlain(gt.Doc(r)), 0))
		if err == nil {
			c.Do("text", c01Text{"yaml", base64.StdEncoding.EncodeToString(b), "non-string-keys"})
		}
	}
	for i := 0; i < c.N(150); i++ {
		c.Tick()
		n := r.Intn(24)
		b := make([]byte, n)
		alphabet := []byte("ab:-[]{},\"' \n\t#&*!|>0129.\x00\xff\xc3")
		for j := range b {
			b[j] = alphabet[r.Intn(len(alphabet))]
		}
		c.Do("text", c01Text{pick(r, []string{"yaml", "json"}), base64.StdEncoding.EncodeToString(b), "malformed"})
	}
	for i := 0; i < c.N(250); i++ {
		c.Tick()
		c.Do("serialize", c01Ser{g.Doc(r), pick(r, []string{"yaml", "json", "file.yaml", "file.yml", "file.json"})})
	}
	gs := stdGen()
	gs.MaxDepth = 3
	for i := 0; i < c.N(40); i++ {
		c.Tick()
		c.Do("fault", c01Ser{gs.Doc(r), pick(r, []string{"yaml", "json"})})
	}
	c01RunMore(c) // c01_more.go: calls after a failed call, shared Go objects, size thresholds, documents with a history
}

// c01AnyKeys rewrites some string-keyed maps below the root into maps keyed by ints, bools and
// floats (distinct within each map).
func c01AnyKeys(r *rand.Rand, v any, depth int) any {
	switch x := v.(type) {
	case map[string]any:
		if depth > 0 && r.Intn(2) == 0 {
			m := map[any]any{}
			alt := []any{1, nil, true, 2.5, -7, false, 10}
			for i, k := range sortedKeys(x) {
				if i < len(alt) {
					m[alt[i]] = c01AnyKeys(r, x[k], depth+1)
				} else {
					m[k] = c01AnyKeys(r, x[k], depth+1)
				}
			}
			return m
		}
		m := map[string]any{}
		for _, k := range sortedKeys(x) {
			m[k] = c01AnyKeys(r, x[k], depth+1)
		}
		return m
	case []any:
		l := make([]any, len(x))
		for i, e := range x {
			l[i] = c01AnyKeys(r, e, depth+1)
		}
		return l
	}
	return v
}

func c01Mangle(r *rand.Rand, b []byte) []byte {
	b = append([]byte(nil), b...)
	switch r.Intn(3) {
	case 0:
		return b[:r.Intn(len(b))]
	case 1:
		b[r.Intn(len(b))] ^= byte(1 << uint(r.Intn(8)))
		return b
	default:
		i := r.Intn(len(b))
		return append(append(append([]byte{}, b[:i]...), byte(r.Intn(256))), b[i:]...)
	}
}

// wireHasIdxKey: some map key ends in an index group (the D26 class); collide: two keys of
// one map share a base after stripping all groups (result depends on Go's map order).
func wireIdxKeys(w W) (has bool, collide bool) {
	switch x := w.(type) {
	case []any:
		for _, e := range x {
			h, cl := wireIdxKeys(e)
			has, collide = has || h, collide || cl
		}
	case map[string]any:
		if c, ok := x["m"].(map[string]any); ok {
			bases := map[string]int{}
			for k, e := range c {
				b := k
				if idxSuffixRe.MatchString(k) {
					has = true
					for idxSuffixRe.MatchString(b) {
						b = b[:idxSuffixRe.FindStringIndex(b)[0]]
					}
				}
				bases[b]++
				h, cl := wireIdxKeys(e)
				has, collide = has || h, collide || cl
			}
			for _, n := range bases {
				if n > 1 {
					collide = true
				}
			}
		}
	}
	return
}

// plainIWire renders a decoded value with arbitrary map keys as {"im": [[key scalar, value], …]}
// (entries sorted by key text); collide: two keys of one map have the same fmt.Sprint text, or a key
// ends in an index group (the D26 class) — then the result depends on map order / is a known finding.
func plainIWire(v any) (W, bool) {
	collide := false
	var conv func(v any) W
	entries := func(keys []any, get func(any) any) W {
		seen := map[string]bool{}
		sort.Slice(keys, func(i, j int) bool { return fmt.Sprint(keys[i]) < fmt.Sprint(keys[j]) })
		es := []any{}
		for _, k := range keys {
			t := fmt.Sprint(k)
			if seen[t] || idxSuffixRe.MatchString(t) {
				collide = true
			}
			seen[t] = true
			es = append(es, []any{scalarWire(k), conv(get(k))})
		}
		return map[string]any{"im": es}
	}
	conv = func(v any) W {
		switch x := v.(type) {
		case map[string]any:
			keys := []any{}
			for k := range x {
				keys = append(keys, k)
			}
			return entries(keys, func(k any) any { return x[k.(string)] })
		case map[any]any:
			keys := []any{}
			for k := range x {
				keys = append(keys, k)
			}
			return entries(keys, func(k any) any { return x[k] })
		case []any:
			l := make([]any, len(x))
			for i, e := range x {
				l[i] = conv(e)
			}
			return l
		default:
			return scalarWire(v)
		}
	}
	return conv(v), collide
}

func c01Finding(has bool) string {
	if has {
		return "D26-index-suffix-key"
	}
	return ""
}

func c01CheckDom(c *Ctx, label string, input W, cb dom.ContainerBuilder) {
	has, collide := wireIdxKeys(input)
	if has {
		c.Dist("input:index-suffix-key")
	}
	got := plainWire(cb.AsMap())
	c.DirectF(label+":AsMap(dom)==value", canon(got) == canon(input),
		map[string]any{"asmap": got}, c01Finding(has))
	c.DirectF(label+":scalar-count", wireScalars(got) == wireScalars(input),
		map[string]any{"asmap_scalars": wireScalars(got), "value_scalars": wireScalars(input)}, c01Finding(has))
	c.Direct(label+":DefaultNodeEncoderFn==AsMap", canon(plainWire(dom.DefaultNodeEncoderFn(cb))) == canon(got), nil)
	c.Direct(label+":dom==AsMap", canon(nodeWire(cb)) == canon(got), map[string]any{"dom": nodeWire(cb), "asmap": got})
	if !collide {
		m := c.Model("frommap", map[string]any{"m": input})
		c.Corr(label, map[string]any{"dom": nodeWire(cb), "asmap": got, "scalars": wireScalars(nodeWire(cb)), "noidx": !has}, m)
	}
}

type failAfterWriter struct {
	n   int
	hit bool
}

var errInjected = errors.New("injected stream failure")

func (w *failAfterWriter) Write(p []byte) (int, error) {
	if len(p) <= w.n {
		w.n -= len(p)
		return len(p), nil
	}
	k := w.n
	w.n = 0
	w.hit = true
	return k, errInjected
}

type failAfterReader struct {
	data []byte
	hit  bool
}

func (r *failAfterReader) Read(p []byte) (int, error) {
	if len(r.data) == 0 {
		r.hit = true
		return 0, errInjected
	}
	n := copy(p, r.data)
	r.data = r.data[n:]
	return n, nil
}

func c01Eval(c *Ctx, kind string, raw []byte) {
	if c01EvalMore(c, kind, raw) {
		return
	}
	switch kind {
	case "frommap":
		var p c01Map
		if err := json.Unmarshal(raw, &p); err != nil {
			panic(err)
		}
		if wireSize(p.M) > 2 {
			c.Nontrivial()
		}
		out, txt := guard(func() {
			plain := wirePlain(p.M).(map[string]any)
			cb := dom.Builder().FromMap(plain)
			c01CheckDom(c, "frommap", p.M, cb)
			// the input map itself must not have been modified
			c.Direct("frommap:input-untouched", canon(plainWire(plain)) == canon(p.M), nil)
			// repeated use: a second conversion of the same value and a second AsMap are what the first ones were, and
			// the earlier results stay what they were whatever is done with the later ones
			first := cb.AsMap()
			cb2 := dom.Builder().FromMap(plain)
			if _, collide := wireIdxKeys(p.M); !collide {
				c.Direct("frommap:second-FromMap-equal", canon(nodeWire(cb2)) == canon(nodeWire(cb)) && cb2.Equals(cb) && cb.Equals(cb2), nil)
			}
			cb2.AddValue("added_", dom.LeafNode(1))
			for _, k := range sortedKeys(cb2.Children()) {
				if lb, ok := cb2.Children()[k].(dom.ListBuilder); ok {
					lb.Append(dom.LeafNode("added"))
				}
				if sub, ok := cb2.Children()[k].(dom.ContainerBuilder); ok {
					sub.AddValue("added_", dom.LeafNode(1))
				}
			}
			second := cb.AsMap()
			c01Scribble(second)
			has, collide := wireIdxKeys(p.M)
			if collide {
				return // two keys of one map name the same list: the outcome depends on map order (D26 class)
			}
			c.DirectF("frommap:earlier-results-unchanged-by-later-calls", canon(plainWire(first)) == canon(p.M) && canon(plainWire(cb.AsMap())) == canon(p.M) && canon(plainWire(plain)) == canon(p.M),
				map[string]any{"first AsMap now": plainWire(first), "AsMap now": plainWire(cb.AsMap())}, c01Finding(has))
			// equivalent entry points: the factory and the node decoder function
			viaFn := dom.DefaultNodeDecoderFn(plain)
			c.Direct("frommap:DefaultNodeDecoderFn==FromMap", canon(nodeWire(viaFn)) == canon(nodeWire(cb)) && viaFn.Equals(cb) && cb.Equals(viaFn), nil)
		})
		c.Direct("frommap:no-panic", out == "ok", txt)
	case "text":
		var p c01Text
		if err := json.Unmarshal(raw, &p); err != nil {
			panic(err)
		}
		text, _ := base64.StdEncoding.DecodeString(p.B64)
		c.Dist("text:" + p.Fmt + ":" + p.Src)
		// control decode with the underlying decoder into a string-keyed map
		ctl := map[string]any{}
		var ctlErr error
		ctlOut, ctlTxt := guard(func() {
			if p.Fmt == "yaml" {
				ctlErr = yaml.NewDecoder(bytes.NewReader(text)).Decode(&ctl)
			} else {
				ctlErr = json.NewDecoder(bytes.NewReader(text)).Decode(&ctl)
			}
		})
		if ctlOut != "ok" {
			c.Note("control decoder panicked (%s); case skipped", ctlTxt)
			return
		}
		dec := dom.DefaultYamlDecoder
		// every file name the provider documents for the format (a deterministic choice per text)
		provs := []string{"x.yaml", "x.yml", "dir.d/a.b.yml", "/abs/conf.yaml", ".yml", "a.json.yaml"}
		if p.Fmt == "json" {
			dec = dom.DefaultJsonDecoder
			provs = []string{"x.json", "a/b.c.json", ".json", "x.yaml.json"}
		}
		prov := provs[int(hash64(text)%uint64(len(provs)))]
		var cb dom.ContainerBuilder
		var err error
		out, txt := guard(func() { cb, err = dom.Builder().FromReader(bytes.NewReader(text), dec) })
		if !c.Direct("text:no-panic", out == "ok", txt) {
			return
		}
		c.Direct("text:error-iff-control-error", (err != nil) == (ctlErr != nil),
			map[string]any{"impl_err": fmt.Sprint(err), "control_err": fmt.Sprint(ctlErr)})
		if err != nil || ctlErr != nil {
			c.Dist("text:error")
			return
		}
		if len(ctl) > 0 {
			c.Nontrivial()
		}
		c.Dist("text:decoded")
		ctlW := plainWireK(ctl)
		if plainHasNonStringKeys(ctl) {
			// only: error or document, no panic, no lost scalar
			c.Dist("text:non-string-keys")
			got := plainWire(cb.AsMap())
			c.Direct("text:no-lost-scalar(non-string keys)", wireScalars(got) == wireScalars(ctlW),
				map[string]any{"asmap": got, "control": ctlW})
			if iw, collide := plainIWire(ctl); !collide {
				m := c.Model("decodei", map[string]any{"v": iw})
				c.Corr("decodei", map[string]any{"dom": nodeWire(cb), "scalars": wireScalars(nodeWire(cb)), "keysOk": true, "inScalars": wireScalars(ctlW)}, m)
			}
			return
		}
		c01CheckDom(c, "text", ctlW, cb)
		// the file-suffix provider must select the same decoder
		out, txt = guard(func() {
			cb2, err2 := dom.Builder().FromReader(bytes.NewReader(text), common.DefaultFileDecoderProvider(prov))
			c.Direct("text:provider-same", err2 == nil && canon(nodeWire(cb2)) == canon(nodeWire(cb)), nil)
		})
		c.Direct("text:no-panic(provider)", out == "ok", txt)
		// names without a known suffix have no decoder and no encoder
		for _, n := range []string{"x.txt", "yaml", "x.yaml.bak", "json", "x.", ""} {
			c.Direct("provider:unknown-suffix-has-no-codec", common.DefaultFileDecoderProvider(n) == nil && common.DefaultFileEncoderProvider(n) == nil, n)
		}
	case "serialize":
		var p c01Ser
		if err := json.Unmarshal(raw, &p); err != nil {
			panic(err)
		}
		c.Nontrivial()
		out, txt := guard(func() {
			cb := dom.Builder().FromMap(wirePlain(p.M).(map[string]any))
			enc := c01Encoder(p.Fmt)
			var first []byte
			for i := 0; i < 20; i++ {
				var buf bytes.Buffer
				err := cb.Serialize(&buf, dom.DefaultNodeEncoderFn, enc)
				if !c.Direct("serialize:no-error", err == nil, fmt.Sprint(err)) {
					return
				}
				if i == 0 {
					first = buf.Bytes()
				} else if !c.Direct("serialize:byte-identical", bytes.Equal(first, buf.Bytes()),
					map[string]any{"first": string(first), "later": buf.String()}) {
					return
				}
			}
		})
		c.Direct("serialize:no-panic", out == "ok", txt)
	case "fault":
		var p c01Ser
		if err := json.Unmarshal(raw, &p); err != nil {
			panic(err)
		}
		c.Nontrivial()
		out, txt := guard(func() {
			cb := dom.Builder().FromMap(wirePlain(p.M).(map[string]any))
			enc := c01Encoder(p.Fmt)
			var buf bytes.Buffer
			if err := cb.Serialize(&buf, dom.DefaultNodeEncoderFn, enc); err != nil {
				c.Direct("fault:baseline-serialize", false, fmt.Sprint(err))
				return
			}
			full := buf.Bytes()
			limit := len(full)
			max := 1024
			if c.Thorough() {
				max = 16384
			}
			if limit > max {
				limit = max
			}
			for n := 0; n <= limit; n++ {
				w := &failAfterWriter{n: n}
				var err error
				o, t := guard(func() { err = cb.Serialize(w, dom.DefaultNodeEncoderFn, enc) })
				if !c.Direct("fault:writer-no-panic", o == "ok", t) {
					return
				}
				if w.hit {
					c.Dist("fault:writer-failed")
					if !c.Direct("fault:write-failure-surfaces", err != nil, map[string]any{"fail_after_bytes": n, "of": len(full)}) {
						return
					}
				}
			}
			// ... and the call after the failed ones produces what the call before them did
			var again bytes.Buffer
			errAgain := cb.Serialize(&again, dom.DefaultNodeEncoderFn, enc)
			c.Direct("fault:serialize-byte-identical-after-failed-writes", errAgain == nil && bytes.Equal(again.Bytes(), full),
				map[string]any{"before": string(full), "after": again.String()})
			dec := dom.DefaultYamlDecoder
			if p.Fmt == "json" {
				dec = dom.DefaultJsonDecoder
			}
			for n := 0; n < limit; n++ {
				rd := &failAfterReader{data: append([]byte(nil), full[:n]...)}
				var err error
				o, t := guard(func() { _, err = dom.Builder().FromReader(rd, dec) })
				if !c.Direct("fault:reader-no-panic", o == "ok", t) {
					return
				}
				if rd.hit {
					c.Dist("fault:reader-failed")
					if !c.Direct("fault:read-failure-surfaces", err != nil, map[string]any{"fail_after_bytes": n, "of": len(full)}) {
						return
					}
				}
			}
			// io.ErrUnexpectedEOF-style: a reader that fails immediately
			_, err := dom.Builder().FromReader(io.MultiReader(&failAfterReader{}), dec)
			c.Direct("fault:immediate-read-failure-surfaces", err != nil, nil)
		})
		c.Direct("fault:no-panic", out == "ok", txt)
	}
}

// c01Scribble overwrites everything reachable in a value handed out by AsMap (maps and slices in place).
func c01Scribble(v any) {
	switch x := v.(type) {
	case map[string]any:
		for k, e := range x {
			c01Scribble(e)
			x[k] = "scribbled"
		}
		x["scribbled_"] = true
	case []any:
		for i, e := range x {
			c01Scribble(e)
			x[i] = "scribbled"
		}
	}
}

func c01Encoder(f string) dom.EncoderFunc {
	switch f {
	case "yaml":
		return dom.DefaultYamlEncoder
	case "json":
		return dom.DefaultJsonEncoder
	default:
		return common.DefaultFileEncoderProvider(f)
	}
}
