package main

import (
	"bytes"
	"encoding/base64"
	"encoding/json"
	"errors"
	"fmt"
	"io"
	"math/rand"
	"reflect"
	"regexp"
	"sort"

	"github.com/rkosegi/yaml-toolkit/common"
	"github.com/rkosegi/yaml-toolkit/dom"
	"gopkg.in/yaml.v3"
)

// C01 — documents pass through the DOM unchanged (lossless load / convert / serialise).

type c01Map struct {
	M W `json:"m"`
}

type c01Text struct {
	Fmt string `json:"fmt"` // yaml | json
	B64 string `json:"b64"` // the text, base64 (it may be arbitrary bytes)
	Src string `json:"src"` // where the text came from (rendered | feature | malformed)
}

type c01Ser struct {
	M   W      `json:"m"`
	Fmt string `json:"fmt"`
}

var idxSuffixRe = regexp.MustCompile(`\[\d+]$`)

func init() {
	register(&Prop{ID: "C01", Run: c01Run,
		Rule: "generic values (string-keyed maps, lists, scalars of Go types int/int64/uint64/float64/string/bool/time.Time, nulls at any position incl. inside lists, empty maps/lists) through FromMap/AsMap; a keys stream draws the member names of each value from 4-6 names of a wide pool of arbitrary strings (vr_util.go: literal names that spell a dotted / slashed / pointer path NEXT TO the nesting they spell — \"a.b\" beside a -> b —, case twins, blanks, the empty name, precomposed vs combining forms, letters and symbols outside the BMP, U+FFFD, brackets that are no index group, YAML / JSON / template syntax, names that read as numbers, booleans or null, 20+ digit strings) with value-range scalars at half of the leaves (both float zeros, 2^31 / 2^53 / 2^63 / 2^64 neighbours, denormals, +-Inf, blank / case / CRLF variants of strings, boolean spellings); every conversion is repeated 24 times (texts: 12 times) because Go's map iteration order differs from call to call and each result must be deeply equal to the value; YAML and JSON texts (renderings of generated values, a feature corpus: timestamps, anchors/aliases, merge keys, !!binary, non-string keys, big ints, .inf, multi-document, empty; and a malformed stream: truncations, byte flips, random bytes) through FromReader vs a control decode; Serialize x20 per document and encoder; failing writer/reader at every byte offset; afterfail: a call that fails part-way (writer failing after n bytes for six n incl. 0, a value the encoder rejects, a reader failing after n bytes, unparsable text) on one document, then ordinary Serialize / FromReader calls on another and on the same document, compared byte for byte with what they produced before the failure; shared: values in which one Go map / slice object occurs at 2-3 positions; big: texts of Size-1 / Size / Size+1 bytes for Size in 512, 4 KiB, 64 KiB, 1 MiB, and with a 2/3/4-byte UTF-8 character starting at offset Size-1, read whole, in chunks of Size / Size-1 / 511 bytes and one byte at a time, reader and writer failing at the threshold; serhist: documents serialised, edited in place (AddValue / Remove / Set / MustSet / Append / Clear ... through nested builders, Lookup, the root's path API) and serialised again, against a freshly built document.; streams: texts holding 2-4 documents (YAML `---` / `...` markers, JSON concatenated values) any of which, the first in particular, may be blank, comment-only, null, a list, a scalar or malformed — the control decode reads the first document; bracket: member names ending in a bracketed group that is NO index group (decimal digits of nine scripts incl. full-width and non-BMP ones, mixed with ASCII digits, superscripts / fractions / Roman / CJK numerals, signs, radix prefixes, blanks, empty and unbalanced brackets) as values and as YAML / JSON texts; huge: four fixed-count texts per run a little over 8 MiB and 64 MiB (YAML and JSON), read whole and in 64 KiB chunks.; odd-entry: 300 rendered YAML mappings with 1-2 entries put into the root (half of the time) or a nested mapping, next to its ordinary entries, that a string-keyed map cannot hold or holds only after conversion - a sequence or mapping as the member name (`? [x, y]`, `? {k: v}`, block spelling, `[x, y]: v`), an alias to an anchored sequence / mapping as the name, a name spelled twice, null / bool / number / timestamp names, `<<:` with something not mergeable - texts the decoder reads to the end and answers with data AND an error. Non-trivial: the value has at least one composite child or the text decodes to a non-empty map; distinct by case hash.",
		Assumptions: []string{
			"yaml.v3 / encoding/json are external: byte determinism of Serialize rests on the encoder being a function of the value (sorted keys); fault propagation on the codec returning stream errors — validated here by repeated calls and by fault enumeration, not proved",
			"known finding D26: map keys ending in an index group are interpreted as list indices by FromMap (classified by a decidable predicate on the input's keys)",
			"scalars are compared as (Go type, fmt.Sprint) pairs"}})
	evals["C01"] = c01Eval
	shrinkers["C01"] = c01Shrink
}

// c01Shrink: shrinkJSON, plus — for the cases whose document sits in a field named "m", which the generic shrinker
// takes for the document's own wrapper — the candidates that delete an entry of the ROOT map.
func c01Shrink(kind string, raw []byte) [][]byte {
	if kind == "text" {
		return c01ShrinkText(raw)
	}
	out := shrinkJSON(kind, raw)
	if kind != "frommap" {
		return out
	}
	var p c01Map
	if err := json.Unmarshal(raw, &p); err != nil || wireKind(p.M) != "cont" {
		return out
	}
	inner, _ := json.Marshal([]any{p.M})
	var first [][]byte
	for _, cand := range shrinkJSON(kind, inner) {
		var l []any
		if json.Unmarshal(cand, &l) == nil && len(l) == 1 && wireKind(l[0]) == "cont" {
			if b, err := json.Marshal(c01Map{l[0]}); err == nil && len(b) < len(raw) {
				first = append(first, b)
			}
		}
	}
	return append(first, out...)
}

func c01Gen() *DocGen {
	g := stdGen()
	g.Types = []string{"int", "string", "bool", "float64", "int64", "uint64", "time"}
	g.PNull = 0.15
	return g
}

var c01Features = []string{
	"date: 2001-12-14\nx: 1\n",
	"l:\n  - 2001-12-14T21:59:43.10-05:00\n  - null\n  - ~\n",
	"base: &b {a: 1, b: [1, 2]}\ncopy: *b\n",
	"base: &b {a: 1}\nd:\n  <<: *b\n  c: 3\n",
	"bin: !!binary aGVsbG8=\n",
	"a:\n  1: x\n  2: y\n",
	"a:\n  true: x\n",
	"l:\n  - {1: a}\n  - [ {2: b} ]\n",
	"big: 18446744073709551615\nneg: -9223372036854775808\nf: 1e400\n",
	"inf: .inf\nninf: -.inf\n",
	"a: 1\n---\nb: 2\n",
	"",
	"# only a comment\n",
	"- 1\n- 2\n",
	"just a scalar\n",
	"a: [1, null, 3]\nb: [[null], []]\nc: {}\n",
	"a: |\n  multi\n  line\nb: >\n  folded\n  text\n",
	"\"a[1]\": 1\n",
	"a:\n  \"b[0]\": x\n",
	"? [1, 2]\n: v\n",
	"a: !!str 1\nb: !!float 1\nc: 0x1F\nd: 0o17\ne: 1_000\n",
	"t: 12:30:45\nv: 1.2.3\nn: null\nnn: Null\ne: ''\n",
	// value-range breadth of texts: line ends, byte order mark, names that spell paths next to the nesting they spell, case
	// twins, blank and empty names, letters and symbols outside ASCII / outside the BMP, the float zeros, numbers at the
	// width and precision boundaries, boolean spellings, explicitly empty values, escapes, number notations
	"a: 1\r\nb:\r\n  - x\r\n  - y\r\nc: \"p\r\nq\"\r\n",
	"\ufeffa: 1\nb: [2]\n",
	"a.b: {y: 2}\na: {b: {x: 1}}\n",
	"a: {b: {c: {x: 1}}, b.c: {y: 2}}\na.b: {c: {z: 3}}\na.b.c: {w: 4}\n",
	"a/b: {y: 2}\na: {b: {x: 1}}\n/a/b: {z: 3}\n",
	"maxConn: 1\nmaxconn: 2\nMAXCONN: 3\nMaxConn: {maxConn: 4, maxconn: 5}\n",
	"\"\": empty\n\" \": blank\n\"a \": trailing\n\" a\": leading\na: plain\n\"a\\tb\": tab\n\"\\u00a0a\": nbsp\n",
	"größe: 1\nключ: 2\n名前: 3\n🚀: 4\n𝛼: {𝛽: [é, e\u0301]}\n",
	"z: -0.0\np: 0.0\ni: -0\nl: [-0.0, 0.0, +0.0, -0e0]\n",
	"n: 9007199254740993\nm: 9223372036854775807\no: 9223372036854775808\nq: 18446744073709551616\nr: 123456789012345678901234567890\ns: -9223372036854775809\nd: 4.9e-324\ne: 1e-400\n",
	"b: [yes, no, on, off, y, n, T, F, t, f, TRUE, True, true, FALSE, 1, 0]\nyes: 1\ntrue: 2\nnull: 3\n~: 4\n",
	"e1: {}\ne2: []\ne3: \"\"\ne4:\ne5: ~\ne6: [[]]\ne7: [{}]\ne8: {a: {}}\ne9: [\"\"]\ne10: ''\n",
	"s: \"a\\tb\\u00a0c\\U0001F680\\x41\"\nt: 'it''s'\nu: \"\\\\n\"\nv: \"{{x}} ${y} #z\"\nw: a#b\nx: a #b\n",
	"a: &x [1, 2]\nb: *x\nc: [*x, *x]\n",
	"a: \"line1\\r\\nline2\"\nb: |+\n  keep\n\nc: |-\n  strip\n\nd: >\n  f1\n  f2\n\n  p2\n",
	"a: 0b101\nb: 0o17\nc: 017\nd: 1_000\ne: +1\nf: .5\ng: 1.\nh: 1e3\ni: 0x_1F\nj: 1__0\nk: 00\nl: 09\n",
	"a: 2001-12-14 21:59:43.10 -5\nb: 2001-12-14\nc: 2001-12-14t21:59:43Z\nd: 2001-02-30\ne: [2001-12-14, '2001-12-14']\n",
	"l0: []\nl1: [a]\nl2: [a, b]\nl9: [1, 2, 3, 4, 5, 6, 7, 8, 9]\nl10: [1, 2, 3, 4, 5, 6, 7, 8, 9, 10]\nl11: [1, 2, 3, 4, 5, 6, 7, 8, 9, 10, 11]\nl12: [1, 2, 3, 4, 5, 6, 7, 8, 9, 10, 11, null]\n",
}

var c01JsonFeatures = []string{
	`{"a": [1, null, 3], "b": {"c": null}, "d": 1.5e300, "e": 12345678901234567890}`,
	`{"a": {"b": {"c": [[[]]]}}}`,
	`{}`, `[]`, `null`, `1`, ``, `{"a":1}{"b":2}`, `{"a": 1,}`, `{"a[1]": 1}`,
	"{\"a\": \"\\u00e9\\ud834\\udd1e\"}",
	`{"a": 1} trailing`,
	`{"a.b": {"y": 2}, "a": {"b": {"x": 1}}}`,
	`{"a": {"b": {"c": {"x": 1}}, "b.c": {"y": 2}}, "a.b": {"c": {"z": 3}}, "a.b.c": {"w": 4}}`,
	`{"a": -0.0, "b": 0.0, "c": -0, "d": [0, -0.0, 0e0]}`,
	`{"a": 1E400}`, `{"a": 1e-400, "b": 4.9e-324}`,
	`{"a": 9007199254740993, "b": 18446744073709551616, "c": 9223372036854775807, "d": -9223372036854775809, "e": 123456789012345678901234567890}`,
	`{"": 1, " ": 2, "a ": 3, "A": 4, "a": 5, "\ta": 6, "\u00a0a": 7}`,
	"{\"a\": 1,\r\n \"b\": [2,\r\n3]}\r\n",
	`{"a": "\ud800", "b": "\ud83d\ude80", "c": "\udc00x"}`,
	`{"größe": 1, "🚀": {"𝛼": []}, "maxConn": 1, "maxconn": 2}`,
	"\ufeff{\"a\": 1}",
	`{"a": 1, "a": 2, "b": {"c": 1, "c": {"d": 2}}}`,
	`{"e1": {}, "e2": [], "e3": "", "e4": null, "e5": [[]], "e6": [{}], "e7": {"a": {}}, "e8": [""]}`,
	`{"t": true, "T": "T", "f": false, "one": 1, "zero": 0, "s": "true", "n": "null"}`,
	`{"l0": [], "l1": [1], "l2": [1, 2], "l9": [1,2,3,4,5,6,7,8,9], "l10": [1,2,3,4,5,6,7,8,9,10], "l11": [1,2,3,4,5,6,7,8,9,10,11], "l12": [1,2,3,4,5,6,7,8,9,10,11,null]}`,
}

func c01Run(c *Ctx) {
	r := c.Rng
	g := c01Gen()
	for i := 0; i < c.N(2500); i++ {
		c.Tick()
		c.Do("frommap", c01Map{g.Doc(r)})
	}
	// keys stream: member names are arbitrary strings
	gk := c01Gen()
	gk.MaxDepth, gk.PLeaf, gk.MaxWidth = 4, 0.4, 5
	for i := 0; i < c.N(700); i++ {
		c.Tick()
		gk.Keys = c01KeyPool(r)
		m := gk.Doc(r)
		if i%2 == 0 {
			m = vrSprinkle(r, m, 0.5, vrOpts{Time: true, Inf: true})
		}
		c.Dist("frommap:keys-are-arbitrary-strings")
		c.Do("frommap", c01Map{m})
		if i%3 == 0 {
			// the same value as YAML / JSON text (what the encoders make of it: the control decode decides what is expected)
			plain := wirePlain(vrSprinkle(r, gk.Doc(r), 0.3, vrOpts{}))
			if b, err := yaml.Marshal(plain); err == nil {
				c.Do("text", c01Text{"yaml", base64.StdEncoding.EncodeToString(b), "rendered-wide-keys"})
			}
			if b, err := json.Marshal(plain); err == nil {
				c.Do("text", c01Text{"json", base64.StdEncoding.EncodeToString(b), "rendered-wide-keys"})
			}
		}
	}
	// D26 stream: keys with an index suffix
	gi := c01Gen()
	gi.Keys = []string{"a", "b", "a[0]", "a[1]", "b[2]", "c[0][1]", "x-y"}
	gi.MaxDepth = 3
	for i := 0; i < c.N(300); i++ {
		c.Tick()
		c.Do("frommap", c01Map{gi.Doc(r)})
	}
	// texts
	if !c.searchMode || true {
		for _, t := range c01Features {
			c.Do("text", c01Text{"yaml", base64.StdEncoding.EncodeToString([]byte(t)), "feature"})
		}
		for _, t := range c01JsonFeatures {
			c.Do("text", c01Text{"json", base64.StdEncoding.EncodeToString([]byte(t)), "feature"})
		}
	}
	gt := stdGen() // renderable by both codecs
	for i := 0; i < c.N(500); i++ {
		c.Tick()
		m := wirePlain(gt.Doc(r))
		for _, f := range []string{"yaml", "json"} {
			var b []byte
			if f == "yaml" {
				b, _ = yaml.Marshal(m)
			} else {
				b, _ = json.Marshal(m)
			}
			c.Do("text", c01Text{f, base64.StdEncoding.EncodeToString(b), "rendered"})
			if i%3 == 0 && len(b) > 0 {
				c.Do("text", c01Text{f, base64.StdEncoding.EncodeToString(c01Mangle(r, b)), "malformed"})
			}
		}
	}
	// mappings with non-string keys (ints, bools, floats) at random levels
	for i := 0; i < c.N(150); i++ {
		c.Tick()
		b, err := yaml.Marshal(c01AnyKeys(r, wirePlain(gt.Doc(r)), 0))
		if err == nil {
			c.Do("text", c01Text{"yaml", base64.StdEncoding.EncodeToString(b), "non-string-keys"})
		}
	}
	for i := 0; i < c.N(150); i++ {
		c.Tick()
		n := r.Intn(24)
		b := make([]byte, n)
		alphabet := []byte("ab:-[]{},\"' \n\t#&*!|>0129.\x00\xff\xc3")
		for j := range b {
			b[j] = alphabet[r.Intn(len(alphabet))]
		}
		c.Do("text", c01Text{pick(r, []string{"yaml", "json"}), base64.StdEncoding.EncodeToString(b), "malformed"})
	}
	for i := 0; i < c.N(250); i++ {
		c.Tick()
		c.Do("serialize", c01Ser{g.Doc(r), pick(r, []string{"yaml", "json", "file.yaml", "file.yml", "file.json"})})
	}
	gs := stdGen()
	gs.MaxDepth = 3
	for i := 0; i < c.N(40); i++ {
		c.Tick()
		c.Do("fault", c01Ser{gs.Doc(r), pick(r, []string{"yaml", "json"})})
	}
	c01RunMore(c) // c01_more.go: calls after a failed call, shared Go objects, size thresholds, documents with a history
	c01RunWide(c) // c01_wide.go: multi-document streams, names ending in a bracket group that is no index, huge texts
	c01RunTyErr(c) // c01_tyerr.go: well-formed YAML mappings with entries a string-keyed map cannot hold (decoder yields data AND an error)
}

// c01KeyPool: the names one value of the keys stream draws from — a group of names one of which spells a path
// through the others, or a handful of the wide pool (none ends in an index group).
func c01KeyPool(r *rand.Rand) []string {
	if r.Intn(3) == 0 {
		return pick(r, [][]string{{"a", "b", "a.b", "b.a", "a.a"}, {"a", "b", "a.b", "a.b.a", "."}, {"a", "b", "a/b", "/a/b", "~1a"}, {"a", "a.", ".a", "a..b", "b"},
			{"maxConn", "maxconn", "MAXCONN", "a", "a "}, {"", " ", "a", ".", "\u00a0a"}, {"0", "00", "-0", "0.0", "a.0"}})
	}
	n := 4 + r.Intn(3)
	ks := make([]string, n)
	for i := range ks {
		ks[i] = pick(r, vrAnyKeys)
	}
	return ks
}

// c01AnyKeys rewrites some string-keyed maps below the root into maps keyed by ints, bools and
// floats (distinct within each map).
func c01AnyKeys(r *rand.Rand, v any, depth int) any {
	switch x := v.(type) {
	case map[string]any:
		if depth > 0 && r.Intn(2) == 0 {
			m := map[any]any{}
			alt := []any{1, nil, true, 2.5, -7, false, 10}
			for i, k := range sortedKeys(x) {
				if i < len(alt) {
					m[alt[i]] = c01AnyKeys(r, x[k], depth+1)
				} else {
					m[k] = c01AnyKeys(r, x[k], depth+1)
				}
			}
			return m
		}
		m := map[string]any{}
		for _, k := range sortedKeys(x) {
			m[k] = c01AnyKeys(r, x[k], depth+1)
		}
		return m
	case []any:
		l := make([]any, len(x))
		for i, e := range x {
			l[i] = c01AnyKeys(r, e, depth+1)
		}
		return l
	}
	return v
}

func c01Mangle(r *rand.Rand, b []byte) []byte {
	b = append([]byte(nil), b...)
	switch r.Intn(3) {
	case 0:
		return b[:r.Intn(len(b))]
	case 1:
		b[r.Intn(len(b))] ^= byte(1 << uint(r.Intn(8)))
		return b
	default:
		i := r.Intn(len(b))
		return append(append(append([]byte{}, b[:i]...), byte(r.Intn(256))), b[i:]...)
	}
}

// wireHasIdxKey: some map key ends in an index group (the D26 class); collide: two keys of
// one map share a base after stripping all groups (result depends on Go's map order).
func wireIdxKeys(w W) (has bool, collide bool) {
	switch x := w.(type) {
	case []any:
		for _, e := range x {
			h, cl := wireIdxKeys(e)
			has, collide = has || h, collide || cl
		}
	case map[string]any:
		if c, ok := x["m"].(map[string]any); ok {
			bases := map[string]int{}
			for k, e := range c {
				b := k
				if idxSuffixRe.MatchString(k) {
					has = true
					for idxSuffixRe.MatchString(b) {
						b = b[:idxSuffixRe.FindStringIndex(b)[0]]
					}
				}
				bases[b]++
				h, cl := wireIdxKeys(e)
				has, collide = has || h, collide || cl
			}
			for _, n := range bases {
				if n > 1 {
					collide = true
				}
			}
		}
	}
	return
}

// plainIWire renders a decoded value with arbitrary map keys as {"im": [[key scalar, value], …]}
// (entries sorted by key text); collide: two keys of one map have the same fmt.Sprint text, or a key
// ends in an index group (the D26 class) — then the result depends on map order / is a known finding.
func plainIWire(v any) (W, bool) {
	collide := false
	var conv func(v any) W
	entries := func(keys []any, get func(any) any) W {
		seen := map[string]bool{}
		sort.Slice(keys, func(i, j int) bool { return fmt.Sprint(keys[i]) < fmt.Sprint(keys[j]) })
		es := []any{}
		for _, k := range keys {
			t := fmt.Sprint(k)
			if seen[t] || idxSuffixRe.MatchString(t) {
				collide = true
			}
			seen[t] = true
			es = append(es, []any{scalarWire(k), conv(get(k))})
		}
		return map[string]any{"im": es}
	}
	conv = func(v any) W {
		switch x := v.(type) {
		case map[string]any:
			keys := []any{}
			for k := range x {
				keys = append(keys, k)
			}
			return entries(keys, func(k any) any { return x[k.(string)] })
		case map[any]any:
			keys := []any{}
			for k := range x {
				keys = append(keys, k)
			}
			return entries(keys, func(k any) any { return x[k] })
		case []any:
			l := make([]any, len(x))
			for i, e := range x {
				l[i] = conv(e)
			}
			return l
		default:
			return scalarWire(v)
		}
	}
	return conv(v), collide
}

func c01Finding(has bool) string {
	if has {
		return "D26-index-suffix-key"
	}
	return ""
}

func c01CheckDom(c *Ctx, label string, input W, cb dom.ContainerBuilder) {
	has, collide := wireIdxKeys(input)
	if has {
		c.Dist("input:index-suffix-key")
	}
	got := plainWire(cb.AsMap())
	c.DirectF(label+":AsMap(dom)==value", canon(got) == canon(input),
		map[string]any{"asmap": got}, c01Finding(has))
	c.DirectF(label+":scalar-count", wireScalars(got) == wireScalars(input),
		map[string]any{"asmap_scalars": wireScalars(got), "value_scalars": wireScalars(input)}, c01Finding(has))
	c.Direct(label+":DefaultNodeEncoderFn==AsMap", canon(plainWire(dom.DefaultNodeEncoderFn(cb))) == canon(got), nil)
	c.Direct(label+":dom==AsMap", canon(nodeWire(cb)) == canon(got), map[string]any{"dom": nodeWire(cb), "asmap": got})
	if !collide {
		m := c.Model("frommap", map[string]any{"m": input})
		c.Corr(label, map[string]any{"dom": nodeWire(cb), "asmap": got, "scalars": wireScalars(nodeWire(cb)), "noidx": !has}, m)
	}
}

type failAfterWriter struct {
	n   int
	hit bool
}

var errInjected = errors.New("injected stream failure")

func (w *failAfterWriter) Write(p []byte) (int, error) {
	if len(p) <= w.n {
		w.n -= len(p)
		return len(p), nil
	}
	k := w.n
	w.n = 0
	w.hit = true
	return k, errInjected
}

type failAfterReader struct {
	data []byte
	hit  bool
}

func (r *failAfterReader) Read(p []byte) (int, error) {
	if len(r.data) == 0 {
		r.hit = true
		return 0, errInjected
	}
	n := copy(p, r.data)
	r.data = r.data[n:]
	return n, nil
}

func c01Eval(c *Ctx, kind string, raw []byte) {
	if c01EvalMore(c, kind, raw) {
		return
	}
	switch kind {
	case "huge":
		c01EvalHuge(c, raw)
	case "frommap":
		var p c01Map
		if err := json.Unmarshal(raw, &p); err != nil {
			panic(err)
		}
		if wireSize(p.M) > 2 {
			c.Nontrivial()
		}
		out, txt := guard(func() {
			plain := wirePlain(p.M).(map[string]any)
			cb := dom.Builder().FromMap(plain)
			c01CheckDom(c, "frommap", p.M, cb)
			// the input map itself must not have been modified
			c.Direct("frommap:input-untouched", canon(plainWire(plain)) == canon(p.M), nil)
			// repeated use: a second conversion of the same value and a second AsMap are what the first ones were, and
			// the earlier results stay what they were whatever is done with the later ones
			// Go's map iteration order differs from call to call: every conversion of the same value must be deeply equal
			// to the value, whichever entry the decoder happens to visit first
			if has, _ := wireIdxKeys(p.M); !has {
				for i := 0; i < 24; i++ {
					again := dom.Builder().FromMap(plain)
					if !c.Direct("frommap:AsMap(FromMap(m))==m on every one of 24 conversions (map iteration order)", reflect.DeepEqual(again.AsMap(), plain) && canon(nodeWire(again)) == canon(p.M),
						map[string]any{"conversion": i, "asmap": plainWire(again.AsMap()), "dom": nodeWire(again)}) {
						break
					}
				}
			}
			first := cb.AsMap()
			cb2 := dom.Builder().FromMap(plain)
			if _, collide := wireIdxKeys(p.M); !collide {
				c.Direct("frommap:second-FromMap-equal", canon(nodeWire(cb2)) == canon(nodeWire(cb)) && cb2.Equals(cb) && cb.Equals(cb2), nil)
			}
			cb2.AddValue("added_", dom.LeafNode(1))
			for _, k := range sortedKeys(cb2.Children()) {
				if lb, ok := cb2.Children()[k].(dom.ListBuilder); ok {
					lb.Append(dom.LeafNode("added"))
				}
				if sub, ok := cb2.Children()[k].(dom.ContainerBuilder); ok {
					sub.AddValue("added_", dom.LeafNode(1))
				}
			}
			second := cb.AsMap()
			c01Scribble(second)
			has, collide := wireIdxKeys(p.M)
			if collide {
				return // two keys of one map name the same list: the outcome depends on map order (D26 class)
			}
			c.DirectF("frommap:earlier-results-unchanged-by-later-calls", canon(plainWire(first)) == canon(p.M) && canon(plainWire(cb.AsMap())) == canon(p.M) && canon(plainWire(plain)) == canon(p.M),
				map[string]any{"first AsMap now": plainWire(first), "AsMap now": plainWire(cb.AsMap())}, c01Finding(has))
			// equivalent entry points: the factory and the node decoder function
			viaFn := dom.DefaultNodeDecoderFn(plain)
			c.Direct("frommap:DefaultNodeDecoderFn==FromMap", canon(nodeWire(viaFn)) == canon(nodeWire(cb)) && viaFn.Equals(cb) && cb.Equals(viaFn), nil)
		})
		c.Direct("frommap:no-panic", out == "ok", txt)
	case "text":
		var p c01Text
		if err := json.Unmarshal(raw, &p); err != nil {
			panic(err)
		}
		text, _ := base64.StdEncoding.DecodeString(p.B64)
		c.Dist("text:" + p.Fmt + ":" + p.Src)
		// control decode with the underlying decoder into a string-keyed map
		ctl := map[string]any{}
		var ctlErr error
		ctlOut, ctlTxt := guard(func() {
			if p.Fmt == "yaml" {
				ctlErr = yaml.NewDecoder(bytes.NewReader(text)).Decode(&ctl)
			} else {
				ctlErr = json.NewDecoder(bytes.NewReader(text)).Decode(&ctl)
			}
		})
		if ctlOut != "ok" {
			c.Note("control decoder panicked (%s); case skipped", ctlTxt)
			return
		}
		dec := dom.DefaultYamlDecoder
		// every file name the provider documents for the format (a deterministic choice per text)
		provs := []string{"x.yaml", "x.yml", "dir.d/a.b.yml", "/abs/conf.yaml", ".yml", "a.json.yaml"}
		if p.Fmt == "json" {
			dec = dom.DefaultJsonDecoder
			provs = []string{"x.json", "a/b.c.json", ".json", "x.yaml.json"}
		}
		prov := provs[int(hash64(text)%uint64(len(provs)))]
		var cb dom.ContainerBuilder
		var err error
		out, txt := guard(func() { cb, err = dom.Builder().FromReader(bytes.NewReader(text), dec) })
		if !c.Direct("text:no-panic", out == "ok", txt) {
			return
		}
		c.Direct("text:error-iff-control-error", (err != nil) == (ctlErr != nil),
			map[string]any{"impl_err": fmt.Sprint(err), "control_err": fmt.Sprint(ctlErr), "text": c01ShowText(text)})
		if err != nil || ctlErr != nil {
			c.Dist("text:error")
			return
		}
		if len(ctl) > 0 {
			c.Nontrivial()
		}
		c.Dist("text:decoded")
		ctlW := plainWireK(ctl)
		if plainHasNonStringKeys(ctl) {
			// only: error or document, no panic, no lost scalar
			c.Dist("text:non-string-keys")
			got := plainWire(cb.AsMap())
			c.Direct("text:no-lost-scalar(non-string keys)", wireScalars(got) == wireScalars(ctlW),
				map[string]any{"asmap": got, "control": ctlW})
			if iw, collide := plainIWire(ctl); !collide {
				m := c.Model("decodei", map[string]any{"v": iw})
				c.Corr("decodei", map[string]any{"dom": nodeWire(cb), "scalars": wireScalars(nodeWire(cb)), "keysOk": true, "inScalars": wireScalars(ctlW)}, m)
			}
			return
		}
		c01CheckDom(c, "text", ctlW, cb)
		if has, _ := wireIdxKeys(ctlW); !has {
			for i := 0; i < 12; i++ {
				again, errA := dom.Builder().FromReader(bytes.NewReader(text), dec)
				if !c.Direct("text:AsMap(FromReader(t))==decode(t) on every one of 12 loads (map iteration order)", errA == nil && canon(nodeWire(again)) == canon(ctlW),
					map[string]any{"load": i, "dom": nodeWire(again), "control": ctlW}) {
					break
				}
			}
		}
		// the file-suffix provider must select the same decoder
		out, txt = guard(func() {
			cb2, err2 := dom.Builder().FromReader(bytes.NewReader(text), common.DefaultFileDecoderProvider(prov))
			// (two names of one map that collide after index-suffix stripping: the result depends on map order — D26 class)
			_, collide := wireIdxKeys(ctlW)
			c.Direct("text:provider-same", err2 == nil && (collide || canon(nodeWire(cb2)) == canon(nodeWire(cb))), nil)
		})
		c.Direct("text:no-panic(provider)", out == "ok", txt)
		// names without a known suffix have no decoder and no encoder
		for _, n := range []string{"x.txt", "yaml", "x.yaml.bak", "json", "x.", ""} {
			c.Direct("provider:unknown-suffix-has-no-codec", common.DefaultFileDecoderProvider(n) == nil && common.DefaultFileEncoderProvider(n) == nil, n)
		}
	case "serialize":
		var p c01Ser
		if err := json.Unmarshal(raw, &p); err != nil {
			panic(err)
		}
		c.Nontrivial()
		out, txt := guard(func() {
			cb := dom.Builder().FromMap(wirePlain(p.M).(map[string]any))
			enc := c01Encoder(p.Fmt)
			var first []byte
			for i := 0; i < 20; i++ {
				var buf bytes.Buffer
				err := cb.Serialize(&buf, dom.DefaultNodeEncoderFn, enc)
				if !c.Direct("serialize:no-error", err == nil, fmt.Sprint(err)) {
					return
				}
				if i == 0 {
					first = buf.Bytes()
				} else if !c.Direct("serialize:byte-identical", bytes.Equal(first, buf.Bytes()),
					map[string]any{"first": string(first), "later": buf.String()}) {
					return
				}
			}
		})
		c.Direct("serialize:no-panic", out == "ok", txt)
	case "fault":
		var p c01Ser
		if err := json.Unmarshal(raw, &p); err != nil {
			panic(err)
		}
		c.Nontrivial()
		out, txt := guard(func() {
			cb := dom.Builder().FromMap(wirePlain(p.M).(map[string]any))
			enc := c01Encoder(p.Fmt)
			var buf bytes.Buffer
			if err := cb.Serialize(&buf, dom.DefaultNodeEncoderFn, enc); err != nil {
				c.Direct("fault:baseline-serialize", false, fmt.Sprint(err))
				return
			}
			full := buf.Bytes()
			limit := len(full)
			max := 1024
			if c.Thorough() {
				max = 16384
			}
			if limit > max {
				limit = max
			}
			for n := 0; n <= limit; n++ {
				w := &failAfterWriter{n: n}
				var err error
				o, t := guard(func() { err = cb.Serialize(w, dom.DefaultNodeEncoderFn, enc) })
				if !c.Direct("fault:writer-no-panic", o == "ok", t) {
					return
				}
				if w.hit {
					c.Dist("fault:writer-failed")
					if !c.Direct("fault:write-failure-surfaces", err != nil, map[string]any{"fail_after_bytes": n, "of": len(full)}) {
						return
					}
				}
			}
			// ... and the call after the failed ones produces what the call before them did
			var again bytes.Buffer
			errAgain := cb.Serialize(&again, dom.DefaultNodeEncoderFn, enc)
			c.Direct("fault:serialize-byte-identical-after-failed-writes", errAgain == nil && bytes.Equal(again.Bytes(), full),
				map[string]any{"before": string(full), "after": again.String()})
			dec := dom.DefaultYamlDecoder
			if p.Fmt == "json" {
				dec = dom.DefaultJsonDecoder
			}
			for n := 0; n < limit; n++ {
				rd := &failAfterReader{data: append([]byte(nil), full[:n]...)}
				var err error
				o, t := guard(func() { _, err = dom.Builder().FromReader(rd, dec) })
				if !c.Direct("fault:reader-no-panic", o == "ok", t) {
					return
				}
				if rd.hit {
					c.Dist("fault:reader-failed")
					if !c.Direct("fault:read-failure-surfaces", err != nil, map[string]any{"fail_after_bytes": n, "of": len(full)}) {
						return
					}
				}
			}
			// io.ErrUnexpectedEOF-style: a reader that fails immediately
			_, err := dom.Builder().FromReader(io.MultiReader(&failAfterReader{}), dec)
			c.Direct("fault:immediate-read-failure-surfaces", err != nil, nil)
		})
		c.Direct("fault:no-panic", out == "ok", txt)
	}
}

// c01Scribble overwrites everything reachable in a value handed out by AsMap (maps and slices in place).
func c01Scribble(v any) {
	switch x := v.(type) {
	case map[string]any:
		for k, e := range x {
			c01Scribble(e)
			x[k] = "scribbled"
		}
		x["scribbled_"] = true
	case []any:
		for i, e := range x {
			c01Scribble(e)
			x[i] = "scribbled"
		}
	}
}

func c01Encoder(f string) dom.EncoderFunc {
	switch f {
	case "yaml":
		return dom.DefaultYamlEncoder
	case "json":
		return dom.DefaultJsonEncoder
	default:
		return common.DefaultFileEncoderProvider(f)
	}
}
