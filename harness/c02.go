package main

import (
	"encoding/json"
	"fmt"
	"math/rand"
	"reflect"
	"sort"

	"github.com/rkosegi/yaml-toolkit/dom"
	"github.com/rkosegi/yaml-toolkit/props"
	"github.com/rkosegi/yaml-toolkit/xform"
)

// C02 — one addressing scheme: flatten, lookup, search and JSON pointers agree.

type c02Addr struct {
	D   W      `json:"d"`
	Via string `json:"via"` // build: constructed node by node; frommap: decoded with FromMap (nulls are the shared nil leaf); dag: built through the builder API so that structurally equal subtrees are ONE node object attached at several positions
}

type c02Rebuild struct {
	D    W     `json:"d"`
	Perm []int `json:"perm"` // order in which the sorted flattened pairs are inserted
}

func init() {
	register(&Prop{ID: "C02", Run: c02Run,
		Rule: "documents over path-safe keys (a second pool holds digit-only and '-'-prefixed keys: leading zeros, signs, next to their canonical spelling; a third pool holds letters of any script and case — a key over 'letters, digits, _ and -' may be größe, ключ, 名前 or 𝛼: letters in 2, 3 and 4 UTF-8 bytes, case twins such as maxConn / maxconn, prefix-related siblings — of which every document draws four or five so that they meet) weighted towards nested lists (depth <= 4) and lists of containers, a fifth of them with value-range scalars at the leaves (vr_util.go: both float zeros, 2^53 / 2^63 / 2^64 neighbours, blank / case / Unicode variants of strings, 20+ digit strings, boolean spellings); documents are built node by node, decoded with FromMap, or (dag) built through the builder API with ONE node object attached at two or three positions (a composite subtree copied to a second place, then all structurally equal subtrees built once: what AddValue(k1, n); AddValue(k2, n) produces) — a document's scalar POSITIONS are counted, not its node objects; for every flattened (path, leaf): Lookup, Child chain, pointer evaluation, props.ParsePath; Search with equality and type predicates; rebuild from the flattened pairs under all permutations when <= 5 leaves (else 20 seeded shuffles) for documents whose list items all contain a scalar.; searchseq: histories of 3-8 Search calls (and removals) over two or three documents with total predicates, predicates that type-assert and panic on a value of another type (the caller recovers), a predicate that gives up after n values and one that searches another document — every call that returns is compared with the filter of Flatten at that moment; bigrebuild: three fixed-count documents per run with a list of a little over 10^3, 10^4 and 10^5 items (thorough: also 2^17) (scalars, containers or lists as items), rebuilt from the flattened pairs in descending (the longest one) or shuffled order (implementation only). Non-trivial: the document has a list or depth >= 2; distinct by case hash.",
		Assumptions: []string{"keys are non-empty over letters (Unicode category L, any script), ASCII digits, '_' and '-'; the Lean theorems are stated for arbitrary key strings free of '.', '[' and ']'",
			"the rebuild clause ranges over documents in which every list item contains at least one scalar"}})
	evals["C02"] = c02Eval
	shrinkers["C02"] = c02Shrink
}

func c02Gen() *DocGen {
	g := stdGen()
	g.Keys = []string{"a", "b", "k1", "x-y", "z_9", "0", "A"}
	g.PList = 0.55
	g.PLeaf = 0.45
	g.MaxDepth = 5
	g.ListMax = 3
	g.MaxWidth = 3
	return g
}

// wireFlattenRef: reference flatten written from the property text: dotted keys, [i] indices,
// one entry per scalar position; also the number of addressing steps of every path.
func wireFlattenRef(w W, path string, steps int, out map[string]struct {
	V     W
	Steps int
}) {
	switch x := w.(type) {
	case []any:
		for i, e := range x {
			wireFlattenRef(e, fmt.Sprintf("%s[%d]", path, i), steps+1, out)
		}
	case map[string]any:
		if c, ok := x["m"].(map[string]any); ok {
			for k, e := range c {
				p := k
				if path != "" {
					p = path + "." + k
				}
				wireFlattenRef(e, p, steps+1, out)
			}
			return
		}
		out[path] = struct {
			V     W
			Steps int
		}{x, steps}
	}
}

// itemsHaveScalars rewrites w so that every list item contains at least one scalar.
func itemsHaveScalars(r *rand.Rand, g *DocGen, w W, inList bool) W {
	switch x := w.(type) {
	case []any:
		for i := range x {
			x[i] = itemsHaveScalars(r, g, x[i], true)
		}
		if inList && wireScalars(x) == 0 {
			return g.Scalar(r)
		}
		return x
	case map[string]any:
		if c, ok := x["m"].(map[string]any); ok {
			for _, k := range sortedKeys(c) {
				c[k] = itemsHaveScalars(r, g, c[k], false)
			}
			if inList && wireScalars(x) == 0 {
				return g.Scalar(r)
			}
		}
	}
	return w
}

// c02DigitKeys: keys made of digits and '-' only are inside the property's key domain ("letters, digits, '_'
// and '-'").  They look like list indices or numbers to code that converts between the addressing schemes, so the
// pool holds non-canonical spellings (leading zeros, a sign) next to the canonical key they would collapse to.
var c02DigitKeys = []string{"0", "00", "007", "7", "01", "1", "-0", "-1", "10", "1e3", "0x1F", "-", "--", "_", "a", "k1"}

func c02DigitGen() *DocGen {
	g := c02Gen()
	g.Keys = c02DigitKeys
	g.MaxDepth = 4
	g.MaxWidth = 4
	return g
}

// c02LetterPool: the four or five names one document of the letter stream draws its keys from: a group of names
// that are related (case twins, prefixes, the same word in two cases outside ASCII), or a random handful.
func c02LetterPool(r *rand.Rand) []string {
	if r.Intn(2) == 0 {
		return pick(r, [][]string{{"maxConn", "maxconn", "MAXCONN", "max", "maxC"}, {"é", "È", "größe", "GRÖSSE", "ß"}, {"ключ", "Ключ", "a", "k1"},
			{"名前", "名", "𝛼", "𝛼𝛽", "x-名前"}, {"İ", "ı", "ǅ", "Ω", "ω"}, {"a-é", "é_1", "𝛼9", "0é", "-ß", "_ω"}})
	}
	return []string{pick(r, vrLetterKeys), pick(r, vrLetterKeys), pick(r, vrLetterKeys), pick(r, vrLetterKeys), pick(r, vrLetterKeys)}
}

func c02Run(c *Ctx) {
	r := c.Rng
	g := c02Gen()
	vias := []string{"build", "frommap", "dag"}
	for i := 0; i < c.N(1500); i++ {
		c.Tick()
		d := g.Doc(r)
		if i%5 == 4 {
			d = vrSprinkle(r, d, 0.5, vrOpts{Inf: true})
		}
		c.Do("addr", c02Addr{d, pick(r, vias)})
	}
	gd := c02DigitGen()
	for i := 0; i < c.N(500); i++ {
		c.Tick()
		c.Dist("addr:digit-and-sign-keys")
		c.Do("addr", c02Addr{gd.Doc(r), pick(r, vias)})
	}
	gl := c02Gen()
	gl.MaxDepth = 4
	gl.MaxWidth = 4
	for i := 0; i < c.N(500); i++ {
		c.Tick()
		c.Dist("addr:letter-keys(any script, any case)")
		gl.Keys = c02LetterPool(r)
		c.Do("addr", c02Addr{gl.Doc(r), pick(r, vias)})
	}
	// one node object at two or three positions: a composite subtree is copied to a second place (once or twice), the
	// dag build then makes every group of structurally equal subtrees one object
	for i := 0; i < c.N(500); i++ {
		c.Tick()
		gg := g
		switch i % 4 {
		case 2:
			gg = gd
		case 3:
			gl.Keys = c02LetterPool(r)
			gg = gl
		}
		d := gg.Doc(r)
		grafts := 0
		for k, n := 0, 1+r.Intn(2); k < n; k++ {
			if d2, _, _, ok := vrGraftCopy(r, d, gg.Keys); ok {
				d = d2
				grafts++
			}
		}
		if grafts > 0 {
			c.Dist("addr:one-node-object-at-several-positions")
		}
		c.Do("addr", c02Addr{d, "dag"})
	}
	gr := c02Gen()
	gr.MaxDepth = 4
	for i := 0; i < c.N(300); i++ {
		c.Tick()
		if i%5 == 4 {
			gr.Keys = c02DigitKeys
		} else if i%5 == 3 {
			gr.Keys = c02LetterPool(r)
		} else {
			gr.Keys = g.Keys
		}
		d := itemsHaveScalars(r, gr, gr.Doc(r), false)
		n := wireScalars(d)
		if n == 0 {
			continue
		}
		if n <= 5 {
			perm := make([]int, n)
			for j := range perm {
				perm[j] = j
			}
			permutations(perm, func(p []int) {
				c.Do("rebuild", c02Rebuild{d, append([]int(nil), p...)})
			})
		} else {
			for k := 0; k < 20; k++ {
				c.Do("rebuild", c02Rebuild{d, r.Perm(n)})
			}
		}
	}
	c02RunMore(c) // c02_more.go: histories of Search calls (incl. predicates that panic), rebuilds of documents with long lists
}

func permutations(a []int, f func([]int)) {
	var rec func(k int)
	rec = func(k int) {
		if k == len(a) {
			f(a)
			return
		}
		for i := k; i < len(a); i++ {
			a[k], a[i] = a[i], a[k]
			rec(k + 1)
			a[k], a[i] = a[i], a[k]
		}
	}
	rec(0)
}

func c02Eval(c *Ctx, kind string, raw []byte) {
	if c02EvalMore(c, kind, raw) {
		return
	}
	switch kind {
	case "addr":
		var p c02Addr
		if err := json.Unmarshal(raw, &p); err != nil {
			panic(err)
		}
		out, txt := guard(func() {
			cb := wireContainer(p.D)
			switch p.Via {
			case "frommap":
				cb = dom.Builder().FromMap(wirePlain(p.D).(map[string]any))
			case "dag":
				cb = heapBuildDag(p.D, map[string]dom.Node{}).(dom.ContainerBuilder)
				c.Direct("a document built with AddValue / ListNode from shared node objects holds what was put in", canon(nodeWire(cb)) == canon(p.D), nodeWire(cb))
			}
			c.Dist("via:" + p.Via)
			fl := cb.Flatten()
			ref := map[string]struct {
				V     W
				Steps int
			}{}
			wireFlattenRef(p.D, "", 0, ref)
			nested := false
			c.Direct("flatten-size==scalar-positions", len(fl) == wireScalars(p.D), map[string]any{"flatten": len(fl), "scalars": wireScalars(p.D)})
			good := len(fl) == len(ref)
			for q, l := range fl {
				e, ok := ref[q]
				good = good && ok && canon(scalarWire(l.Value())) == canon(e.V)
			}
			c.Direct("flatten==scalar positions under dotted/indexed paths", good, map[string]any{"flatten": flattenWire(cb)})
			per := []any{}
			for _, q := range sortedKeys(fl) {
				leaf := fl[q]
				if ref[q].Steps >= 3 {
					nested = true
				}
				got := cb.Lookup(q)
				c.Direct("lookup(flattened path) is that very leaf", got != nil && got == dom.Node(leaf), map[string]any{"path": q, "got": nodeWire(got)})
				ptr := xform.PointerFromPropPathString(q)
				trail, pn := ptr.Eval(cb)
				c.Direct("pointer(flattened path) evaluates to that very leaf", pn != nil && pn == dom.Node(leaf) && len(trail) > 0 && trail[len(trail)-1] == pn,
					map[string]any{"path": q, "pointer": ptr.String(), "got": nodeWire(pn)})
				segs := props.ParsePath(q)
				c.Direct("props.ParsePath has one segment per step", len(segs) == ref[q].Steps, map[string]any{"path": q, "segments": len(segs), "steps": ref[q].Steps})
				sj := []any{}
				for _, s := range segs {
					if s.IsNum {
						sj = append(sj, map[string]any{"i": s.Index})
					} else {
						sj = append(sj, map[string]any{"k": s.Value})
					}
				}
				per = append(per, map[string]any{"p": q, "lookup": nodeWire(got), "ptr": nodeWire(pn), "segs": sj, "steps": len(segs)})
			}
			if nested {
				c.Nontrivial()
			}
			// search: equality with every distinct value, and two type predicates
			seen := map[string]bool{}
			for _, q := range sortedKeys(fl) {
				v := fl[q].Value()
				key := canon(scalarWire(v))
				if seen[key] {
					continue
				}
				seen[key] = true
				c02Search(c, cb, fl, "equal "+key, dom.SearchEqual(v))
			}
			c02Search(c, cb, fl, "is string", func(v interface{}) bool { _, ok := v.(string); return ok })
			c02Search(c, cb, fl, "is nil", func(v interface{}) bool { return v == nil })
			c02Search(c, cb, fl, "none", func(v interface{}) bool { return false })
			m := c.Model("addr", map[string]any{"d": p.D})
			c.Corr("addr", map[string]any{"flatten": flattenWire(cb), "per": per, "scalars": len(fl)}, m)
			// history: the views were computed once; now edit the document through NESTED handles
			// (a child container's AddValue, a list's Append) and ask again — the flattened view and
			// Search must describe the document as it is now
			edited := false
			for _, k := range sortedKeys(cb.Children()) {
				switch h := cb.Children()[k].(type) {
				case dom.ContainerBuilder:
					h.AddValue("zz-new", dom.LeafNode("fresh"))
					edited = true
				case dom.ListBuilder:
					h.Append(dom.LeafNode("fresh"))
					edited = true
				}
			}
			if edited {
				c.Dist("addr:re-flattened-after-nested-edit")
				now := nodeWire(cb)
				ref2 := map[string]struct {
					V     W
					Steps int
				}{}
				wireFlattenRef(now, "", 0, ref2)
				fl2 := cb.Flatten()
				good := len(fl2) == len(ref2)
				for q, l := range fl2 {
					e, ok := ref2[q]
					good = good && ok && canon(scalarWire(l.Value())) == canon(e.V)
				}
				c.Direct("flatten==scalar positions (after an edit through a nested handle)", good, map[string]any{"flatten": flattenWire(cb), "document": now})
				c02Search(c, cb, fl2, "equal fresh (after nested edit)", dom.SearchEqual("fresh"))
			}
		})
		c.Direct("no-panic", out == "ok", txt)
	case "rebuild":
		var p c02Rebuild
		if err := json.Unmarshal(raw, &p); err != nil {
			panic(err)
		}
		c.Nontrivial()
		out, txt := guard(func() {
			cb := wireContainer(p.D)
			fl := cb.Flatten()
			keys := sortedKeys(fl)
			if len(p.Perm) != len(keys) {
				c.Dist("rebuild:stale-permutation")
				return
			}
			nb := dom.Builder().Container()
			pairs := []any{}
			for _, i := range p.Perm {
				if i < 0 || i >= len(keys) {
					return
				}
				nb.AddValueAt(keys[i], dom.LeafNode(fl[keys[i]].Value()))
				pairs = append(pairs, map[string]any{"p": keys[i], "v": scalarWire(fl[keys[i]].Value())})
			}
			c.Direct("rebuild(any order) gives the same flattened view", canon(flattenWire(nb)) == canon(flattenWire(cb)),
				map[string]any{"original": flattenWire(cb), "rebuilt": flattenWire(nb)})
			m := c.Model("rebuild", map[string]any{"pairs": pairs})
			c.Corr("rebuild", map[string]any{"dom": nodeWire(nb), "flatten": flattenWire(nb)}, m)
		})
		c.Direct("no-panic", out == "ok", txt)
	}
}

func c02Search(c *Ctx, cb dom.ContainerBuilder, fl map[string]dom.Leaf, what string, f dom.SearchValueFunc) {
	got := cb.Search(f)
	sort.Strings(got)
	var want []string
	for q, l := range fl {
		if f(l.Value()) {
			want = append(want, q)
		}
	}
	sort.Strings(want)
	c.Direct("search==filter of flatten", reflect.DeepEqual(got, want) || (len(got) == 0 && len(want) == 0),
		map[string]any{"predicate": what, "got": got, "want": want})
}
