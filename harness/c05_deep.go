package main

import (
	"encoding/json"
	"fmt"
	"reflect"

	"github.com/rkosegi/yaml-toolkit/dom"
)

// C05 — "for all nodes x, y, z": DEEP nodes.
//
// A few large direct-only cases per run (no model: the pairs of c05.go never nest deeper than a handful of levels and
// a document of tens of thousands of levels is nothing the line protocol should carry).  A deep case is a chain of
// `Depth` composites built through the builder API — containers {"d": next level, "n": a leaf}, every ListEvery-th
// level a list [a leaf, next level], the root a container or a list — with one leaf below the last composite.  Such
// a node cannot come out of a decoder once it is deeper than the decoders' nesting limits, it is assembled by
// a program (AddContainer / AddList / Append level by level, or bottom-up with ListNode / AddValue); equality and Clone
// are recursive over it like over any other node.  x is built one way, y the other way: the same content, or content
// that differs at ONE level (one leaf changed, one member / item more, the innermost value of another kind, one level
// less).  Depths: a ladder over the sizes at which recursive code changes its behaviour (255/256, 1000/1024,
// 4096, the nesting limit 10000 of encoding/json and yaml.v3 and its neighbours, 16384 … 100000) and two random
// ones.  The expected answer is known by construction and is confirmed by an iterative (work-list) comparison of the
// two object graphs: reflexive, symmetric, transitive, exactly-when-same-content, nil, SameAs, clone equal / same
// kind / same content / no shared composite / unchanged by later edits of the original.
type c05Deep struct {
	Depth     int    `json:"depth"`                // number of composite levels (root = level 1); the innermost leaf sits at level depth+1
	ListEvery int    `json:"list_every,omitempty"` // every n-th level is a list (0: containers only)
	RootList  bool   `json:"root_list,omitempty"`  // level 1 is a list
	Route     string `json:"route,omitempty"`      // how x is built: "down" (AddContainer/AddList/Append from the root) or "up" (ListNode/AddValue from the bottom); y is built the other way
	Diff      string `json:"diff,omitempty"`       // "" (y has x's content) | leaf | extra | kind | shorter
	DiffAt    int    `json:"diff_at,omitempty"`    // level at which y differs (0 or beyond depth: the last level)
}

var c05DeepLadder = []int{64, 255, 256, 257, 1000, 1001, 1024, 4096, 9999, 10000, 10001, 10002, 16384, 32768}

func c05DeepGen(c *Ctx) {
	r := c.Rng
	depths := append([]int{}, c05DeepLadder...)
	depths = append(depths, pick(r, []int{65536, 100000}), 2+r.Intn(20000), 2+r.Intn(20000))
	if c.Thorough() {
		depths = append(depths, 65536, 100000, 2+r.Intn(100000))
	}
	for _, d := range depths {
		c.Tick()
		dc := c05Deep{Depth: d, Route: pick(r, []string{"down", "up"}), RootList: r.Intn(4) == 0}
		if r.Intn(3) == 0 {
			dc.ListEvery = 2 + r.Intn(5)
		}
		if r.Intn(2) == 0 {
			dc.Diff = pick(r, []string{"leaf", "extra", "kind", "shorter"})
			switch r.Intn(3) {
			case 0:
				dc.DiffAt = 1 + r.Intn(d)
			case 1:
				dc.DiffAt = d - r.Intn(min(d, 3))
			}
		}
		c.Do("deep", dc)
	}
}

func (dc *c05Deep) isList(level int) bool {
	if level == 1 {
		return dc.RootList
	}
	return dc.ListEvery > 1 && level%dc.ListEvery == 0
}

// c05DeepVariant: what one built chain holds besides the regular content.
type c05DeepVariant struct {
	depth   int
	leafAt  int  // the level's own leaf is another one
	extraAt int  // the level has one member / item more
	kind    bool // the innermost value is an empty container instead of a leaf
}

func c05DeepLevelLeaf(lv int, changed bool) dom.Node {
	if changed {
		return dom.LeafNode(fmt.Sprintf("n%d'", lv%7))
	}
	return dom.LeafNode(fmt.Sprintf("n%d", lv%7))
}

// build returns the root and the composites of the chain (nodes[i] = level i+1).
func (dc *c05Deep) build(route string, v c05DeepVariant) (dom.Node, []dom.Node) {
	nodes := make([]dom.Node, v.depth)
	payload := func() dom.Node {
		if v.kind {
			return dom.Builder().Container()
		}
		return dom.LeafNode("bottom")
	}
	if route == "up" {
		cur := payload()
		for lv := v.depth; lv >= 1; lv-- {
			if dc.isList(lv) {
				items := []dom.Node{c05DeepLevelLeaf(lv, lv == v.leafAt), cur}
				if lv == v.extraAt {
					items = append(items, dom.LeafNode("extra"))
				}
				cur = dom.ListNode(items...)
			} else {
				cb := dom.Builder().Container()
				cb.AddValue("d", cur)
				cb.AddValue("n", c05DeepLevelLeaf(lv, lv == v.leafAt))
				if lv == v.extraAt {
					cb.AddValue("x", dom.LeafNode("extra"))
				}
				cur = cb
			}
			nodes[lv-1] = cur
		}
		return cur, nodes
	}
	if dc.isList(1) {
		nodes[0] = dom.ListNode()
	} else {
		nodes[0] = dom.Builder().Container()
	}
	for lv := 1; lv <= v.depth; lv++ {
		last := lv == v.depth
		switch p := nodes[lv-1].(type) {
		case dom.ContainerBuilder:
			p.AddValue("n", c05DeepLevelLeaf(lv, lv == v.leafAt))
			switch {
			case last:
				p.AddValue("d", payload())
			case dc.isList(lv + 1):
				nodes[lv] = p.AddList("d")
			default:
				nodes[lv] = p.AddContainer("d")
			}
			if lv == v.extraAt {
				p.AddValue("x", dom.LeafNode("extra"))
			}
		case dom.ListBuilder:
			p.Append(c05DeepLevelLeaf(lv, lv == v.leafAt))
			switch {
			case last:
				p.Append(payload())
			case dc.isList(lv + 1):
				nodes[lv] = dom.ListNode()
				p.Append(nodes[lv])
			default:
				nodes[lv] = dom.Builder().Container()
				p.Append(nodes[lv])
			}
			if lv == v.extraAt {
				p.Append(dom.LeafNode("extra"))
			}
		}
	}
	return nodes[0], nodes
}

// c05IterEq: same kind and same content — the same keys with equal values, the same items in the same order, equal
// scalars — decided with a work list instead of recursion; distinct=true also demands that no composite node object
// of a is a composite node object of b at the same position.
func c05IterEq(a, b dom.Node, distinct bool) (bool, string) {
	type pair struct {
		a, b dom.Node
		lv   int
	}
	work := []pair{{a, b, 1}}
	for len(work) > 0 {
		p := work[len(work)-1]
		work = work[:len(work)-1]
		switch {
		case p.a == nil || p.b == nil:
			return false, fmt.Sprintf("level %d: a node is missing", p.lv)
		case p.a.IsContainer():
			if !p.b.IsContainer() {
				return false, fmt.Sprintf("level %d: a container next to a non-container", p.lv)
			}
			if distinct && c05Sealed(p.a) == c05Sealed(p.b) {
				return false, fmt.Sprintf("level %d: one container object on both sides", p.lv)
			}
			ca, cb := p.a.(dom.Container).Children(), p.b.(dom.Container).Children()
			if len(ca) != len(cb) {
				return false, fmt.Sprintf("level %d: %d members next to %d", p.lv, len(ca), len(cb))
			}
			for k, e := range ca {
				f, has := cb[k]
				if !has {
					return false, fmt.Sprintf("level %d: member %q on one side only", p.lv, k)
				}
				work = append(work, pair{e, f, p.lv + 1})
			}
		case p.a.IsList():
			if !p.b.IsList() {
				return false, fmt.Sprintf("level %d: a list next to a non-list", p.lv)
			}
			if distinct && c05Sealed(p.a) == c05Sealed(p.b) {
				return false, fmt.Sprintf("level %d: one list object on both sides", p.lv)
			}
			ia, ib := p.a.(dom.List).Items(), p.b.(dom.List).Items()
			if len(ia) != len(ib) {
				return false, fmt.Sprintf("level %d: %d items next to %d", p.lv, len(ia), len(ib))
			}
			for i := range ia {
				work = append(work, pair{ia[i], ib[i], p.lv + 1})
			}
		default:
			if !p.b.IsLeaf() {
				return false, fmt.Sprintf("level %d: a leaf next to a composite", p.lv)
			}
			if va, vb := p.a.(dom.Leaf).Value(), p.b.(dom.Leaf).Value(); !reflect.DeepEqual(va, vb) {
				return false, fmt.Sprintf("level %d: leaf %v next to leaf %v", p.lv, va, vb)
			}
		}
	}
	return true, ""
}

type c05DeepFail struct {
	clause string
	detail map[string]any
}

// c05DeepProbe runs every predicate on the case and returns the failed ones in order.
func c05DeepProbe(dc c05Deep) (fails []c05DeepFail) {
	fail := func(clause string, ok bool, detail map[string]any) {
		if !ok {
			fails = append(fails, c05DeepFail{clause, detail})
		}
	}
	at := dc.DiffAt
	if at < 1 || at > dc.Depth {
		at = dc.Depth
	}
	vx := c05DeepVariant{depth: dc.Depth}
	vy := vx
	switch dc.Diff {
	case "leaf":
		vy.leafAt = at
	case "extra":
		vy.extraAt = at
	case "kind":
		vy.kind = true
	case "shorter":
		vy.depth = dc.Depth - 1
	}
	want := dc.Diff == ""
	other := "up"
	if dc.Route == "up" {
		other = "down"
	}
	out, txt := guard(func() {
		x, xs := dc.build(dc.Route, vx)
		y, _ := dc.build(other, vy)
		z, _ := dc.build(dc.Route, vy)
		if ref, why := c05IterEq(x, y, true); ref != want {
			panic(fmt.Sprintf("harness: the two built chains are not what the case says (%v: %s)", ref, why))
		}
		xy, yx, xx := x.Equals(y), y.Equals(x), x.Equals(x)
		yz, xz := y.Equals(z), x.Equals(z)
		fail("deep: equals-reflexive", xx, map[string]any{"x.Equals(x)": xx})
		fail("deep: equals-iff-structural", xy == want && yx == want, map[string]any{"x.Equals(y)": xy, "y.Equals(x)": yx, "structural": want})
		fail("deep: equals-symmetric", xy == yx, map[string]any{"xy": xy, "yx": yx})
		fail("deep: equals-transitive", yz && (!(xy && yz) || xz) && xz == want, map[string]any{"xy": xy, "yz (same content, built the other way)": yz, "xz": xz})
		fail("deep: equals-nil-false", !x.Equals(nil), nil)
		fail("deep: sameas-iff-kind", x.SameAs(y) && y.SameAs(x), nil)
		sx, sy := c05Sealed(x), c05Sealed(y)
		ss, xs2, sxx := sx.Equals(sy), x.Equals(sy), sx.Equals(x)
		fail("deep: equals-iff-structural(sealed views)", ss == want && xs2 == want && sxx,
			map[string]any{"structural": want, "xs.Equals(ys)": ss, "x.Equals(ys)": xs2, "xs.Equals(x)": sxx})
		// clones
		cl := x.Clone()
		fail("deep: clone-same-kind", cl != nil && cl.SameAs(x) && x.SameAs(cl), nil)
		if cl == nil {
			return
		}
		xc, cx := x.Equals(cl), cl.Equals(x)
		fail("deep: clone-equals-original", xc && cx, map[string]any{"x.Equals(clone)": xc, "clone.Equals(x)": cx})
		same, why := c05IterEq(cl, x, true)
		fail("deep: clone-content (same content, no composite node object in common)", same, map[string]any{"difference": why})
		// edits of the original: at the last level and half way down
		for _, lv := range []int{dc.Depth, (dc.Depth + 1) / 2} {
			switch h := xs[lv-1].(type) {
			case dom.ContainerBuilder:
				h.AddValue("edited", dom.LeafNode(lv))
				h.AddValue("n", dom.LeafNode("overwritten"))
			case dom.ListBuilder:
				h.Append(dom.LeafNode(lv))
				h.Set(0, dom.LeafNode("overwritten"))
			}
		}
		x0, _ := dc.build(other, vx)
		same, why = c05IterEq(cl, x0, true)
		fail("deep: clone-independent (the clone holds what the original held when it was cloned)", same, map[string]any{"difference": why})
		ex, xe := cl.Equals(x), x.Equals(cl)
		fail("deep: equals-iff-structural(after an edit of the original)", !ex && !xe, map[string]any{"clone.Equals(x)": ex, "x.Equals(clone)": xe, "structural": false})
		c0, c00 := cl.Equals(x0), x0.Equals(cl)
		fail("deep: equals-iff-structural(clone against a fresh build)", c0 && c00, map[string]any{"clone.Equals(fresh)": c0, "fresh.Equals(clone)": c00, "structural": true})
	})
	if out != "ok" {
		fails = append(fails, c05DeepFail{"deep: no-panic", map[string]any{"panic": txt}})
	}
	return fails
}

// c05DeepBisected: shape (the case without its depth) + clause -> {largest depth found to hold, smallest found to fail}
var c05DeepBisected = map[string][2]int{}

// c05DeepProbed: shape@depth -> clauses that failed there; c05DeepShapes: the shapes bisected in this run
var c05DeepProbed = map[string]map[string]bool{}
var c05DeepShapes = map[string]bool{}

func c05DeepEval(c *Ctx, raw []byte) {
	var dc c05Deep
	if err := json.Unmarshal(raw, &dc); err != nil {
		panic(err)
	}
	if dc.Depth < 2 || dc.Depth > 200000 || dc.ListEvery < 0 || dc.ListEvery == 1 {
		return // a shrink candidate outside the case's shape
	}
	switch dc.Diff {
	case "", "leaf", "extra", "kind", "shorter":
	default:
		return
	}
	if dc.Route != "up" {
		dc.Route = "down"
	}
	c.Nontrivial()
	switch {
	case dc.Depth < 1000:
		c.Dist("deep:depth<1000")
	case dc.Depth < 10000:
		c.Dist("deep:depth<10000")
	default:
		c.Dist(fmt.Sprintf("deep:depth~%d0000", dc.Depth/10000))
	}
	c.Dist("deep:diff=" + dc.Diff)
	fails := c05DeepProbe(dc)
	shape := dc
	shape.Depth = 0
	sk := mustJSON(shape)
	// probes of this shape at other depths, shared by the clauses (their thresholds mostly coincide)
	failsAt := func(d int, clause string) bool {
		k := fmt.Sprintf("%s@%d", sk, d)
		set, known := c05DeepProbed[k]
		if !known {
			set = map[string]bool{}
			q := dc
			q.Depth = d
			for _, g := range c05DeepProbe(q) {
				set[g.clause] = true
			}
			c05DeepProbed[k] = set
		}
		return set[clause]
	}
	for _, f := range fails {
		if f.detail == nil {
			f.detail = map[string]any{}
		}
		f.detail["depth"] = dc.Depth
		// the smallest depth at which this shape fails the clause (bisection, for the first few failing shapes of a run;
		// the case itself stays as generated)
		key := sk + f.clause
		b, known := c05DeepBisected[key]
		if (!known || b[1] > dc.Depth) && (c05DeepShapes[sk] || len(c05DeepShapes) < 4) {
			c05DeepShapes[sk] = true
			lo, hi := 2, dc.Depth
			if failsAt(lo, f.clause) {
				hi = lo
			}
			for hi-lo > 1 {
				if mid := lo + (hi-lo)/2; failsAt(mid, f.clause) {
					hi = mid
				} else {
					lo = mid
				}
			}
			b, known = [2]int{lo, hi}, true
			c05DeepBisected[key] = b
		}
		if known && b[1] <= dc.Depth {
			if b[0] < b[1] {
				f.detail["holds at depth"] = b[0]
			}
			f.detail["fails from depth (bisection, same shape)"] = b[1]
		}
		c.Direct(f.clause, false, f.detail)
	}
	if len(fails) == 0 {
		c.Direct("deep: equals-reflexive", true, nil)
	}
}

// c05Shrink: deep cases shrink by dropping options and digits of the depth, everything else structurally.
func c05Shrink(kind string, raw []byte) [][]byte {
	if kind != "deep" {
		return shrinkJSON(kind, raw)
	}
	var dc c05Deep
	if json.Unmarshal(raw, &dc) != nil {
		return nil
	}
	var out [][]byte
	add := func(q c05Deep) {
		if b, err := json.Marshal(q); err == nil && len(b) < len(raw) {
			out = append(out, b)
		}
	}
	for _, d := range []int{2, 9, 99, 999, 9999, 99999, dc.Depth / 10, dc.Depth / 2, dc.Depth - 1} {
		if d >= 2 && d < dc.Depth {
			q := dc
			q.Depth = d
			if q.DiffAt > d {
				q.DiffAt = 0
			}
			add(q)
		}
	}
	q := dc
	q.ListEvery = 0
	add(q)
	q = dc
	q.RootList = false
	add(q)
	q = dc
	q.DiffAt = 0
	add(q)
	q = dc
	q.Diff, q.DiffAt = "", 0
	add(q)
	q = dc
	q.Route = ""
	add(q)
	// a depth of fewer characters with the options gone at once
	for _, d := range c05DeepLadder {
		if d < dc.Depth {
			add(c05Deep{Depth: d, Diff: dc.Diff})
			add(c05Deep{Depth: d})
		}
	}
	return out
}
