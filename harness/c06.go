package main

import (
	"bytes"
	"encoding/json"
	"fmt"
	"math/rand"
	"regexp"
	"sort"
	"strconv"
	"strings"

	"github.com/google/go-cmp/cmp"
	"github.com/rkosegi/yaml-toolkit/dom"
)

// C06 — overlay layers: ordered, isolated, first-hit lookup, last-wins merged view.

type c06Op struct {
	Op    string `json:"op"` // put | add | populate | names | lookup | lookupAny | search | walk | merged | snapshot
	L     string `json:"l"`
	Path  string `json:"path"`
	V     W      `json:"v,omitempty"`
	Pred  string `json:"pred,omitempty"` // search: all | null | type | eq (value in V)
	T     string `json:"t,omitempty"`
	Limit int    `json:"limit"` // walk: stop at the limit-th visit, 0 = never
	Opt   string `json:"opt,omitempty"`
	// put / add: ID names the node object this write hands to the overlay; Reuse names an earlier write whose very
	// node object is handed over again (one list / container / leaf instance written to two layers, or twice to one).
	// The value written is then that object's content at this moment.
	ID    string `json:"id,omitempty"`
	Reuse string `json:"reuse,omitempty"`
}

type c06Hist struct {
	Ops []c06Op `json:"ops"`
}

func init() {
	register(&Prop{ID: "C06", Run: c06Run,
		Rule: "histories of Put (leaf / list / container values, incl. leafless containers) / Add / Populate over 4 layer names and path-safe paths of 1-3 components from a 5-key pool with 0-2 index groups (indices 0-3) per component, one write in five aimed at a position an earlier layer defines, into a later layer: Put of a nil leaf (at the leaf or a prefix), Populate with a nil value, or a sparse list write (index >= 1 into a list the later layer does not have, so its null padding covers the earlier items); generated against a scratch overlay so that at most a few steps fall outside the domain (those are skipped by the same decidable predicate at evaluation time); after every write the layer names and every layer's content (Layers()) are compared; after every write every layer's flattened leaves are also read back through the live overlay (Lookup of every path, LookupAny against the first layer that has the path, Search(all), Walk, Merged under alternating strategies against the reference fold); one write in six hands the overlay the very node object of an earlier write (then Merged under both strategies is read at once); one write in eight starts a revisit: three writes into one layer back to back — a scalar Put below a container q that sits at or below a composite position P (mostly a list) of that layer, a Put at P of a fresh copy (one in three: a near-miss copy) of what P holds, which replaces a list wholesale, and a second scalar Put below q; reads (LayerNames, Lookup, LookupAny, Search with 4 predicate kinds, Walk with and without early stop, Merged with both list strategies (against the fold of the implementation's own Merge and, independently, against the reference merge of the property text folded over the per-layer AsMap values) + Serialize, Layers() snapshots re-read at the end) are interleaved; one history in three uses components that LOOK like a list-item reference but are member names (cpu[+1], a[-0], a[ 1], a[], a[x], a[0x1], non-ASCII digits, a[1]x; in write paths, in the member names of written containers, and in read paths derived from a known path by turning l[1] into l[+1]); after every write the value is read back from Layers() at the position the path names by the harness's own reading of the addressing scheme, and the layer's root may have gained no member but the one the first component names; Lookup / LookupAny are compared with that reading as well. A case is non-trivial when at least two layers exist at the end and at least 3 writes were executed; distinct = distinct canonical case JSON (hash).",
		Assumptions: []string{
			"domain: no write descends through an existing scalar (a null padding slot of a list, i.e. the nilLeaf singleton at an index step, is not a scalar written by the history and may be descended through), nor by a key step through an existing list (ensurePath's type assertion panics there); out-of-domain steps are skipped on both sides",
			"Put / Add store the node they are given. Most writes pass fresh nodes; one write in six hands over the very node object of an earlier write again (the same list / container instance in two layers): its content at that moment is the value written, and from then on a write that would modify such an object through one of its positions (a path descending through it) is outside the domain and skipped on both sides — the value model cannot express aliasing",
			"scalars are NaN-free and -0-free; keys are path-safe: free of '.', and not ending in a list-item reference \"[\" ASCII decimal digits \"]\" (a component addresses a list item only when it ends in such groups; any other component, also one that merely resembles an item reference such as cpu[+1] or a[x], is a member name stored, reported and looked up as written)",
			"Serialize clause: byte equality of OverlayDocument.Serialize with Merged().Serialize under yaml.v3 / encoding/json (external encoders, deterministic for a given value)",
		}})
	evals["C06"] = c06Eval
	shrinkers["C06"] = shrinkJSON
}

var c06Layers = []string{"base", "env", "local", "x-1"}
var c06Keys = []string{"a", "b", "l", "k1", "z_9"}

// ---------------------------------------------------------------- paths

type c06Step struct {
	Key   string
	Idx   int
	IsIdx bool
}

var c06IdxRe = regexp.MustCompile(`\[(\d+)]$`)

// c06ParsePath splits a path-safe path into key / index steps.
func c06ParsePath(path string) []c06Step {
	if path == "" {
		return nil
	}
	var steps []c06Step
	for _, comp := range strings.Split(path, ".") {
		var idx []int
		for {
			m := c06IdxRe.FindStringSubmatchIndex(comp)
			if m == nil {
				break
			}
			n, _ := strconv.Atoi(comp[m[2]:m[3]])
			idx = append([]int{n}, idx...)
			comp = comp[:m[0]]
		}
		steps = append(steps, c06Step{Key: comp})
		for _, i := range idx {
			steps = append(steps, c06Step{Idx: i, IsIdx: true})
		}
	}
	return steps
}

// the nilLeaf singleton, as handed out by the public API for a decoded nil
var c06NilLeaf = dom.Builder().FromMap(map[string]any{"x": nil}).Child("x")

// c06WriteSafe: the domain predicate for one write that travels along `path` below `root`
// (nil: layer does not exist yet). For Put the node at the full path may be anything (it is
// overwritten); for Populate the container at the full path is entered, i.e. there is one
// more (virtual) key step.
func c06WriteSafe(root dom.Node, path string, populate bool) bool {
	steps := c06ParsePath(path)
	if populate {
		steps = append(steps, c06Step{Key: "*"})
	}
	cur := root
	for i, st := range steps {
		if cur == nil {
			return true // nothing exists from here on: everything below is created
		}
		if i > 0 {
			if cur.IsLeaf() {
				// an existing scalar on the way ... except the padding slot of a list
				return steps[i-1].IsIdx && cur == c06NilLeaf
			}
			if cur.IsList() && !st.IsIdx {
				return false // key step through a list: ensurePath's type assertion
			}
		}
		switch {
		case st.IsIdx:
			if cur.IsList() && st.Idx < cur.(dom.List).Size() {
				cur = cur.(dom.List).Items()[st.Idx]
			} else {
				cur = nil // a container here is replaced by a fresh list
			}
		default:
			if cur.IsContainer() {
				cur = cur.(dom.Container).Children()[st.Key]
				if cur == nil {
					return true
				}
			} else {
				cur = nil
			}
		}
	}
	return true
}

// c06LeafPaths: flattened leaf paths of a wire container (sorted).
func c06LeafPaths(w W, prefix string, out *[]string) {
	switch x := w.(type) {
	case []any:
		for i, e := range x {
			c06LeafPaths(e, fmt.Sprintf("%s[%d]", prefix, i), out)
		}
	case map[string]any:
		if c, ok := x["m"].(map[string]any); ok {
			for _, k := range sortedKeys(c) {
				p := k
				if prefix != "" {
					p = prefix + "." + k
				}
				c06LeafPaths(c[k], p, out)
			}
			return
		}
		*out = append(*out, prefix)
	}
}

func c06ToPath(path, k string) string {
	if path == "" {
		return k
	}
	return path + "." + k
}

// c06InDomain decides whether a write step is inside the property's domain in the state
// reached so far; `root` is the live builder of the layer (nil when the layer does not exist).
func c06InDomain(root dom.Node, op c06Op) bool {
	switch op.Op {
	case "put":
		if op.Path == "" {
			return false
		}
		if wireKind(op.V) == "cont" {
			var leaves []string
			c06LeafPaths(op.V, "", &leaves)
			for _, k := range leaves {
				if !c06WriteSafe(root, c06ToPath(op.Path, k), false) {
					return false
				}
			}
			return true
		}
		return c06WriteSafe(root, op.Path, false)
	case "add":
		return wireKind(op.V) == "cont"
	case "populate":
		if wireKind(op.V) != "cont" {
			return false
		}
		if op.Path == "" {
			return true
		}
		return c06WriteSafe(root, op.Path, true)
	}
	return true
}

// ---------------------------------------------------------------- execution on the implementation

// c06World is the overlay under test plus what the direct predicates need.
type c06World struct {
	ov     dom.OverlayDocument
	shadow map[string]dom.ContainerBuilder // per layer: a standalone document that received only that layer's writes
	names  []string                        // expected first-write order
	made   map[string]dom.Node             // node objects handed to the overlay, by write ID
	shared map[uintptr]bool                // containers / lists that were handed to the overlay more than once
}

func newC06World() *c06World {
	return &c06World{ov: dom.NewOverlayDocument(), shadow: map[string]dom.ContainerBuilder{}, made: map[string]dom.Node{}, shared: map[uintptr]bool{}}
}

// reused returns the node object an earlier write handed over, when this write asks for it again and it is of a
// usable kind (Add takes a container).
func (w *c06World) reused(op c06Op) dom.Node {
	if op.Reuse == "" {
		return nil
	}
	n := w.made[op.Reuse]
	if n == nil || (op.Op == "add" && !n.IsContainer()) || op.Op == "populate" {
		return nil
	}
	return n
}

// resolve replaces the value of a write that hands over an earlier write's node object by that object's content now.
func (w *c06World) resolve(op c06Op) c06Op {
	if n := w.reused(op); n != nil {
		op.V = nodeWire(n)
	}
	return op
}

// liveNode: the node a layer holds at a step prefix (nil: nothing there), reached through the public read API.
func (w *c06World) liveNode(l string, steps []c06Step) dom.Node {
	if len(steps) == 0 || steps[0].IsIdx {
		return nil
	}
	n := w.ov.Lookup(l, steps[0].Key)
	for _, st := range steps[1:] {
		if n == nil {
			return nil
		}
		if st.IsIdx {
			lst, ok := n.(dom.List)
			if !ok || st.Idx >= lst.Size() {
				return nil
			}
			n = lst.Items()[st.Idx]
		} else {
			c, ok := n.(dom.Container)
			if !ok {
				return nil
			}
			n = c.Children()[st.Key]
		}
	}
	return n
}

// writesIntoShared: the write would modify a container / list object that was handed to the overlay more than once
// (it sits at several positions; the value model has one value per position).  Such a step is outside the domain:
// "Put stores the node it is given" — what later writes through one of its positions do to the others is aliasing
// the property does not speak about.
func (w *c06World) writesIntoShared(op c06Op) bool {
	// the object this very write hands over again counts as shared already: writing it below one of its own
	// positions would modify it (and make the document cyclic)
	extra := map[uintptr]bool{}
	if n := w.reused(op); n != nil {
		var mut []dom.Node
		mutableNodes(n, map[uintptr]bool{}, &mut)
		for _, m := range mut {
			extra[nodeID(m)] = true
		}
	}
	if len(w.shared) == 0 && len(extra) == 0 {
		return false
	}
	exists := false
	for _, n := range w.ov.LayerNames() {
		exists = exists || n == op.L
	}
	if !exists {
		return false
	}
	through := func(path string, inclusive bool) bool {
		steps := c06ParsePath(path)
		last := len(steps) - 1
		if inclusive {
			last = len(steps)
		}
		for k := 1; k <= last; k++ {
			if n := w.liveNode(op.L, steps[:k]); n != nil && !n.IsLeaf() && (w.shared[nodeID(n)] || extra[nodeID(n)]) {
				return true
			}
		}
		return false
	}
	switch op.Op {
	case "put":
		if wireKind(op.V) == "cont" {
			var leaves []string
			c06LeafPaths(op.V, "", &leaves)
			for _, k := range leaves {
				if through(c06ToPath(op.Path, k), false) {
					return true
				}
			}
			return false
		}
		return through(op.Path, false)
	case "populate":
		return op.Path != "" && through(op.Path, true)
	}
	return false
}

// inDomain runs the domain predicate against the live overlay. The overlay has no accessor
// for a layer's own builder and Layers() hands out clones (which do not preserve the identity
// of the nilLeaf padding singleton), so the layer's root is presented by c06LayerView.
func (w *c06World) inDomain(op c06Op) bool {
	op = w.resolve(op)
	if w.writesIntoShared(op) {
		return false
	}
	exists := false
	for _, n := range w.ov.LayerNames() {
		if n == op.L {
			exists = true
		}
	}
	if !exists {
		return c06InDomain(nil, op)
	}
	return c06InDomain(&c06LayerView{ov: w.ov, l: op.L}, op)
}

// c06LayerView presents a layer's root as a dom.Container whose children are fetched through
// OverlayDocument.Lookup (live nodes, so pointer identity with nilLeaf is observable).
type c06LayerView struct {
	dom.Container
	ov dom.OverlayDocument
	l  string
}

func (v *c06LayerView) IsContainer() bool { return true }
func (v *c06LayerView) IsList() bool      { return false }
func (v *c06LayerView) IsLeaf() bool      { return false }
func (v *c06LayerView) Children() map[string]dom.Node {
	out := map[string]dom.Node{}
	for k := range v.ov.Layers()[v.l].Children() {
		out[k] = v.ov.Lookup(v.l, k)
	}
	return out
}

func (w *c06World) ensureName(l string) {
	for _, n := range w.names {
		if n == l {
			return
		}
	}
	w.names = append(w.names, l)
	w.shadow[l] = dom.Builder().Container()
}

// apply executes a write on the overlay and on the per-layer shadow document.
func (w *c06World) apply(op c06Op) {
	op = w.resolve(op)
	node := w.reused(op)
	if node != nil {
		// from now on the object sits at (at least) two positions
		var mut []dom.Node
		mutableNodes(node, map[uintptr]bool{}, &mut)
		for i, m := range mut {
			if op.Op == "add" && i == 0 {
				continue // Add stores the members, not the container itself
			}
			w.shared[nodeID(m)] = true
		}
	} else if op.Op == "put" || op.Op == "add" {
		node = wireNode(op.V)
	}
	if op.ID != "" && node != nil {
		w.made[op.ID] = node
	}
	switch op.Op {
	case "put":
		w.ov.Put(op.L, op.Path, node)
		if wireKind(op.V) == "cont" {
			var leaves []string
			c06LeafPaths(op.V, "", &leaves)
			fresh := wireContainer(op.V)
			for _, k := range leaves {
				w.ensureName(op.L)
				w.shadow[op.L].AddValueAt(c06ToPath(op.Path, k), fresh.Lookup(k))
			}
		} else {
			w.ensureName(op.L)
			w.shadow[op.L].AddValueAt(op.Path, wireNode(op.V))
		}
	case "add":
		w.ov.Add(op.L, node.(dom.Container))
		w.ensureName(op.L)
		fresh := wireContainer(op.V)
		for _, k := range sortedKeys(fresh.Children()) {
			w.shadow[op.L].AddValue(k, fresh.Children()[k])
		}
	case "populate":
		data := wirePlain(op.V).(map[string]any)
		w.ov.Populate(op.L, op.Path, &data)
		w.ensureName(op.L)
		target := w.shadow[op.L]
		if op.Path != "" {
			n := target.Lookup(op.Path)
			if n == nil || !n.IsContainer() {
				nc := dom.Builder().Container()
				target.AddValueAt(op.Path, nc)
				target = nc
			} else {
				target = n.(dom.ContainerBuilder)
			}
		}
		fresh := wireContainer(op.V)
		for _, k := range sortedKeys(fresh.Children()) {
			target.AddValue(k, fresh.Children()[k])
		}
	}
}

// finite: no node object the history handed to the overlay is stored below itself.  Every container the overlay makes
// on its own is fresh and stored once, when made, so a cycle goes through one of the handed-over objects.  Asked before
// Layers() is called: cloning a cyclic document ends the process (stack overflow), which no recover can catch.
func (w *c06World) finite() bool {
	for _, id := range sortedKeys(w.made) {
		if !dhAcyclic(w.made[id]) {
			return false
		}
	}
	return true
}

func (w *c06World) state() (names []string, layers map[string]any) {
	names = w.ov.LayerNames()
	layers = map[string]any{}
	for n, c := range w.ov.Layers() {
		layers[n] = nodeWire(c)
	}
	return
}

func c06Pred(op c06Op) dom.SearchValueFunc {
	switch op.Pred {
	case "null":
		return func(v interface{}) bool { return v == nil }
	case "type":
		return func(v interface{}) bool { return scalarWire(v).(map[string]any)["t"] == op.T }
	case "eq":
		m, _ := op.V.(map[string]any)
		t, _ := m["t"].(string)
		s, _ := m["v"].(string)
		want := scalarFromWire(t, s)
		return func(v interface{}) bool { return cmp.Equal(v, want) }
	}
	return func(interface{}) bool { return true }
}

type c06Visit struct {
	Layer, Path string
	V           W
}

// c06CanonWalk: complete layer groups sorted by path; when the walk was stopped the last
// group is order-dependent and only its layer and size are kept.
func c06CanonWalk(vis []c06Visit, stopped bool) W {
	type group struct {
		layer string
		items [][]any
	}
	var gs []group
	for _, v := range vis {
		if len(gs) == 0 || gs[len(gs)-1].layer != v.Layer {
			gs = append(gs, group{layer: v.Layer})
		}
		g := &gs[len(gs)-1]
		g.items = append(g.items, []any{v.Path, v.V})
	}
	var partial any
	if stopped && len(gs) > 0 {
		last := gs[len(gs)-1]
		partial = []any{last.layer, len(last.items)}
		gs = gs[:len(gs)-1]
	}
	groups := []any{}
	for _, g := range gs {
		sort.Slice(g.items, func(i, j int) bool { return g.items[i][0].(string) < g.items[j][0].(string) })
		groups = append(groups, []any{g.layer, g.items})
	}
	return map[string]any{"stopped": stopped, "groups": groups, "partial": partial, "count": len(vis)}
}

func c06CanonSearch(pairs [][2]string) W {
	out := [][2]string{}
	i := 0
	for i < len(pairs) {
		j := i
		for j < len(pairs) && pairs[j][0] == pairs[i][0] {
			j++
		}
		g := append([][2]string{}, pairs[i:j]...)
		sort.Slice(g, func(a, b int) bool { return g[a][1] < g[b][1] })
		out = append(out, g...)
		i = j
	}
	return out
}

// isSubsequence: xs (distinct) occur in ys in the same relative order.
func c06Subseq(xs, ys []string) bool {
	j := 0
	for _, x := range xs {
		for j < len(ys) && ys[j] != x {
			j++
		}
		if j == len(ys) {
			return false
		}
		j++
	}
	return true
}

// c06NullOverValue counts the positions at which the later side y holds a null (explicit, or
// the padding of a sparse list write) while the earlier side x holds a value — the positions
// where "later wins" must NOT apply. Walks the way the merge pairs positions up.
func c06NullOverValue(x, y W, app bool) int {
	cx, okx := wireCont(x)
	cy, oky := wireCont(y)
	if okx && oky {
		n := 0
		for k, v := range cy {
			if e, ok := cx[k]; ok {
				n += c06NullOverValue(e, v, app)
			}
		}
		return n
	}
	lx, okx := x.([]any)
	ly, oky := y.([]any)
	if okx && oky {
		n := 0
		if !app {
			for i := 0; i < len(lx) && i < len(ly); i++ {
				n += c06NullOverValue(lx[i], ly[i], app)
			}
		}
		return n
	}
	if c04IsNull(y) && !c04IsNull(x) {
		return 1
	}
	return 0
}

func c06Eval(c *Ctx, kind string, raw []byte) {
	if kind == "heap-overlay" {
		heapOverlayEval(c, raw) // heap_share2.go
		return
	}
	if kind != "hist" {
		return
	}
	var h c06Hist
	if err := json.Unmarshal(raw, &h); err != nil {
		panic(err)
	}
	w := newC06World()
	var sent []c06Op
	var obs []any
	type snap struct {
		layers map[string]dom.Container
		wire   map[string]any
	}
	var snaps []snap
	writes := 0
	for _, op := range h.Ops {
		switch op.Op {
		case "put", "add", "populate":
			if op.V == nil || (op.Op == "put" && op.Path == "") || !w.inDomain(op) {
				c.Dist("skipped-out-of-domain:" + op.Op)
				continue
			}
			if w.reused(op) != nil {
				c.Dist("write:hands-over-an-earlier-write's-node-object:" + wireKind(w.resolve(op).V))
			}
			op = w.resolve(op)
			_, before := w.state()
			var names []string
			var after map[string]any
			finite := true
			out, txt := guard(func() {
				w.apply(op)
				if finite = w.finite(); finite {
					names, after = w.state()
				}
			})
			if !c.Direct("no-panic("+op.Op+")", out == "ok", map[string]any{"op": op, "panic": txt}) {
				return
			}
			if !c.Direct("documents-finite(no node stored below itself)", finite, map[string]any{"after": op}) {
				return // not observed any further
			}
			writes++
			c.Dist("write:" + op.Op)
			if c06HasLook(op) {
				c.Dist("write:look-alike-component")
			}
			var layerBefore W = map[string]any{"m": map[string]any{}}
			if b, ok := before[op.L]; ok {
				layerBefore = b
			}
			if la, ok := after[op.L]; ok && !c06CheckWrite(c, op, layerBefore, la) {
				return
			}
			if op.Op == "put" {
				c.Dist("put:" + wireKind(op.V))
				if wireKind(op.V) == "cont" && wireScalars(op.V) == 0 {
					c.Dist("put:leafless-container")
				}
			}
			c.Direct("layer-names-first-write-order", canon(names) == canon(append([]string{}, w.names...)),
				map[string]any{"LayerNames": names, "expected": w.names, "after": op})
			for n, b := range before {
				if n != op.L {
					c.Direct("other-layers-untouched", canon(b) == canon(after[n]), map[string]any{"layer": n, "before": b, "after": after[n], "op": op})
				}
			}
			for _, n := range w.names {
				sh := nodeWire(w.shadow[n])
				c.Direct("layer-sees-only-its-own-writes", canon(sh) == canon(after[n]),
					map[string]any{"layer": n, "overlay": after[n], "standalone": sh, "op": op})
			}
			if !c06Sweep(c, w, op, writes) {
				return
			}
			sent = append(sent, op)
			obs = append(obs, map[string]any{"out": "ok", "state": map[string]any{"names": names, "layers": after}})
		case "names":
			names := w.ov.LayerNames()
			c.Direct("layer-names-first-write-order", canon(names) == canon(append([]string{}, w.names...)), names)
			sent = append(sent, op)
			obs = append(obs, names)
		case "lookup":
			var got, exp, ref W
			out, txt := guard(func() {
				got = nodeWire(w.ov.Lookup(op.L, op.Path))
				if lc, ok := w.ov.Layers()[op.L]; ok {
					ref = c06RefAt(nodeWire(lc), op.Path)
				}
				if sh, ok := w.shadow[op.L]; ok {
					exp = nodeWire(sh.Lookup(op.Path))
				}
			})
			if !c.Direct("no-panic(lookup)", out == "ok", txt) {
				return
			}
			if got != nil {
				c.Dist("lookup:hit")
			} else {
				c.Dist("lookup:miss")
			}
			c.Direct("lookup-sees-only-that-layer", canon(got) == canon(exp), map[string]any{"op": op, "impl": got, "standalone": exp})
			c.Direct("lookup-returns-what-the-layer-holds-at-that-position", canon(got) == canon(ref), map[string]any{"op": op, "Lookup": got, "layer holds there": ref})
			sent = append(sent, op)
			obs = append(obs, got)
		case "lookupAny":
			var got W
			out, txt := guard(func() {
				n := w.ov.LookupAny(op.Path)
				got = nodeWire(n)
				var first dom.Node
				hits := 0
				for _, l := range w.ov.LayerNames() {
					if x := w.ov.Lookup(l, op.Path); x != nil {
						if first == nil {
							first = x
						}
						hits++
					}
				}
				if hits > 1 {
					c.Dist("lookupAny:several-layers-hit")
				} else if hits == 1 {
					c.Dist("lookupAny:one-layer-hits")
				} else {
					c.Dist("lookupAny:miss")
				}
				c.Direct("lookupAny-first-layer-with-hit", n == first, map[string]any{"op": op, "impl": got, "first": nodeWire(first)})
				var ref W
				ls := w.ov.Layers()
				for _, l := range w.ov.LayerNames() {
					if ref = c06RefAt(nodeWire(ls[l]), op.Path); ref != nil {
						break
					}
				}
				c.Direct("lookupAny-returns-what-the-first-layer-with-that-position-holds", canon(got) == canon(ref), map[string]any{"op": op, "LookupAny": got, "expected": ref})
			})
			if !c.Direct("no-panic(lookupAny)", out == "ok", txt) {
				return
			}
			sent = append(sent, op)
			obs = append(obs, got)
		case "search":
			fn := c06Pred(op)
			var pairs [][2]string
			out, txt := guard(func() {
				for _, co := range w.ov.Search(fn) {
					pairs = append(pairs, [2]string{co.Layer(), co.Path()})
				}
				// expectation from the per-layer flattened views
				var exp [][2]string
				ls := w.ov.Layers()
				for _, l := range w.ov.LayerNames() {
					fl := ls[l].Flatten()
					for _, p := range sortedKeys(fl) {
						if fn(fl[p].Value()) {
							exp = append(exp, [2]string{l, p})
						}
					}
				}
				c.Direct("search-exactly-matching-positions", canon(c06CanonSearch(pairs)) == canon(c06CanonSearch(exp)),
					map[string]any{"op": op, "impl": pairs, "expected": exp})
			})
			if !c.Direct("no-panic(search)", out == "ok", txt) {
				return
			}
			c.Dist(fmt.Sprintf("search:%s:hits=%d", op.Pred, min(len(pairs), 3)))
			sent = append(sent, op)
			obs = append(obs, c06CanonSearch(pairs))
		case "walk":
			var vis []c06Visit
			stopped := false
			calledAfterStop := false
			identityOK := true
			out, txt := guard(func() {
				w.ov.Walk(func(layer, path string, parent, node dom.Node) bool {
					if stopped {
						calledAfterStop = true
					}
					if !node.IsLeaf() || w.ov.Lookup(layer, path) != node {
						identityOK = false
						vis = append(vis, c06Visit{layer, path, nodeWire(node)})
					} else {
						vis = append(vis, c06Visit{layer, path, scalarWire(node.(dom.Leaf).Value())})
					}
					if op.Limit != 0 && len(vis) >= op.Limit {
						stopped = true
						return false
					}
					return true
				})
			})
			if !c.Direct("no-panic(walk)", out == "ok", txt) {
				return
			}
			c.Direct("walk-stops-when-visitor-returns-false", !calledAfterStop, map[string]any{"op": op, "visited": len(vis)})
			c.Direct("walk-visits-leaves-at-their-lookup-path", identityOK, map[string]any{"op": op, "visited": vis})
			// expectation: per-layer flattened views, layers in order
			var order []string
			total := 0
			flat := map[string]map[string]W{}
			ls := w.ov.Layers()
			for _, l := range w.ov.LayerNames() {
				fl := ls[l].Flatten()
				flat[l] = map[string]W{}
				for p, lf := range fl {
					flat[l][p] = scalarWire(lf.Value())
				}
				if len(fl) > 0 {
					order = append(order, l)
				}
				total += len(fl)
			}
			ok := true
			var groupsSeen []string
			seen := map[string]bool{}
			perLayer := map[string]int{}
			for _, v := range vis {
				if len(groupsSeen) == 0 || groupsSeen[len(groupsSeen)-1] != v.Layer {
					groupsSeen = append(groupsSeen, v.Layer)
				}
				key := v.Layer + "\x00" + v.Path
				if seen[key] {
					ok = false
				}
				seen[key] = true
				perLayer[v.Layer]++
				if e, has := flat[v.Layer][v.Path]; !has || canon(e) != canon(v.V) {
					ok = false
				}
			}
			// groups are a prefix of the non-empty layers in order, all but (when stopped) the last complete
			if len(groupsSeen) > len(order) {
				ok = false
			}
			for i, l := range groupsSeen {
				if i >= len(order) || order[i] != l {
					ok = false
					break
				}
				if (i < len(groupsSeen)-1 || !stopped) && perLayer[l] != len(flat[l]) {
					ok = false
				}
			}
			if stopped {
				ok = ok && len(vis) == op.Limit
				c.Dist("walk:stopped")
			} else {
				ok = ok && len(vis) == total && len(groupsSeen) == len(order)
				c.Dist("walk:full")
			}
			c.Direct("walk-visits-exactly-the-flattened-triples", ok, map[string]any{"op": op, "visited": vis, "flattened": flat, "names": w.ov.LayerNames()})
			sent = append(sent, op)
			obs = append(obs, c06CanonWalk(vis, stopped))
		case "merged":
			var mw, mmap, fold W
			var layerMaps []W
			var ser1, ser2 []byte
			var serErr bool
			out, txt := guard(func() {
				m := w.ov.Merged(c04Opts(op.Opt)...)
				if !c.Direct("merged-view-is-a-finite-tree", dhAcyclic(m), map[string]any{"op": op}) {
					panic("harness: cyclic document, not observed any further")
				}
				mw, mmap = nodeWire(m), plainWire(m.AsMap())
				acc := dom.Builder().Container()
				ls := w.ov.Layers()
				for _, n := range w.ov.LayerNames() {
					acc = acc.Merge(ls[n], c04Opts(op.Opt)...)
					layerMaps = append(layerMaps, plainWire(ls[n].AsMap()))
				}
				fold = nodeWire(acc)
				// repeated use: a second and third merged view (other strategy, same strategy) leave the first one what it was
				other := "append"
				if op.Opt == "append" {
					other = "meld"
				}
				_ = w.ov.Merged(c04Opts(other)...)
				m3 := w.ov.Merged(c04Opts(op.Opt)...)
				c.Direct("merged-view-unchanged-by-later-Merged-calls", canon(nodeWire(m)) == canon(mw) && canon(nodeWire(m3)) == canon(mw),
					map[string]any{"op": op, "first then": mw, "first now": nodeWire(m), "third": nodeWire(m3)})
				if op.Opt != "append" {
					for ei, enc := range []dom.EncoderFunc{dom.DefaultYamlEncoder, dom.DefaultJsonEncoder} {
						var b0, b1, b2 bytes.Buffer
						// ... preceded by the same call into a writer that fails part-way (after 0, 1, half of the bytes):
						// the ordinary call that follows writes what it wrote before
						e0 := w.ov.Serialize(&b0, dom.DefaultNodeEncoderFn, enc)
						for _, n := range []int{0, 1, b0.Len() / 2, b0.Len() - 1} {
							if n >= 0 && n < b0.Len() {
								fw := &failAfterWriter{n: n}
								ef := w.ov.Serialize(fw, dom.DefaultNodeEncoderFn, enc)
								c.Direct("serialize-write-failure-surfaces", !fw.hit || ef != nil, map[string]any{"fail_after_bytes": n, "of": b0.Len(), "encoder": ei})
							}
						}
						e1 := w.ov.Serialize(&b1, dom.DefaultNodeEncoderFn, enc)
						c.Direct("serialize-byte-identical-after-a-failed-write", e0 == nil && bytes.Equal(b0.Bytes(), b1.Bytes()), map[string]any{"before": b0.String(), "after": b1.String()})
						e2 := w.ov.Merged().Serialize(&b2, dom.DefaultNodeEncoderFn, enc)
						if e1 != nil || e2 != nil {
							serErr = true
						}
						ser1 = append(ser1, b1.Bytes()...)
						ser2 = append(ser2, b2.Bytes()...)
					}
				}
			})
			if !c.Direct("no-panic(merged)", out == "ok", txt) {
				return
			}
			c.Direct("merged-eq-fold-of-Merge-in-layer-order", canon(mw) == canon(fold) && canon(mmap) == canon(fold), map[string]any{"op": op, "merged": mw, "fold": fold})
			// the same clause against a reference that shares no code with the implementation:
			// the merge of the property text (c04RefDoc, harness/c04.go) folded over the
			// per-layer AsMap values in layer order, later layers win
			var ref W = map[string]any{"m": map[string]any{}}
			nullOver := 0
			for _, lm := range layerMaps {
				nullOver += c06NullOverValue(ref, lm, op.Opt == "append")
				ref = c04RefDoc(ref, lm, op.Opt == "append")
			}
			c.Direct("merged-AsMap-eq-reference-fold-of-layer-AsMaps", canon(mmap) == canon(ref) && canon(mw) == canon(ref),
				map[string]any{"op": op, "layers": layerMaps, "merged": mmap, "expected": ref})
			if nullOver > 0 {
				c.Dist("merged:later-null-over-earlier-value")
			}
			c.Direct("serialize-serialises-merged-view", !serErr && bytes.Equal(ser1, ser2), map[string]any{"overlay": string(ser1), "merged": string(ser2)})
			c.Dist("merged:" + op.Opt)
			sent = append(sent, op)
			obs = append(obs, mw)
		case "snapshot":
			ls := w.ov.Layers()
			wire := map[string]any{}
			for n, l := range ls {
				wire[n] = nodeWire(l)
			}
			snaps = append(snaps, snap{ls, wire})
			c.Dist("snapshot")
			sent = append(sent, op)
			obs = append(obs, map[string]any{"names": w.ov.LayerNames(), "layers": wire})
		}
	}
	for i, s := range snaps {
		now := map[string]any{}
		for n, l := range s.layers {
			now[n] = nodeWire(l)
		}
		c.Direct("snapshot-unaffected-by-later-writes", canon(now) == canon(s.wire), map[string]any{"snapshot": i, "taken": s.wire, "now": now})
	}
	if writes >= 3 && len(w.names) >= 2 {
		c.Nontrivial()
	}
	c.Dist(fmt.Sprintf("layers-at-end=%d", len(w.names)))
	c.Dist(fmt.Sprintf("writes=%d", (writes+4)/5*5))
	if len(sent) == 0 {
		return
	}
	m := c.Model("run", map[string]any{"ops": sent})
	ml, ok := m.([]any)
	if !ok || len(ml) != len(sent) {
		c.Corr("run", obs, m)
		return
	}
	for i, op := range sent {
		mo := ml[i]
		if op.Op == "walk" {
			// canonicalise the model's visit sequence the same way
			if mm, ok := mo.(map[string]any); ok {
				var vis []c06Visit
				if l, ok := mm["visited"].([]any); ok {
					for _, e := range l {
						t := e.([]any)
						vis = append(vis, c06Visit{t[0].(string), t[1].(string), t[2]})
					}
				}
				st, _ := mm["stopped"].(bool)
				mo = c06CanonWalk(vis, st)
			}
		}
		if !c.Corr(op.Op, obs[i], mo) {
			break
		}
	}
}

// ---------------------------------------------------------------- generation

func c06GenPath(r *rand.Rand, maxComp int) string {
	n := 1 + r.Intn(maxComp)
	comps := make([]string, n)
	for i := range comps {
		c := pick(r, c06Keys)
		if c == "l" || r.Intn(6) == 0 {
			for g, ng := 0, 1+r.Intn(5)/4; g < ng; g++ {
				c += fmt.Sprintf("[%d]", r.Intn(4))
			}
		}
		if c06Look && r.Intn(5) == 0 {
			c = c06LookAlike(r, c) // c06_look.go
		}
		comps[i] = c
	}
	return strings.Join(comps, ".")
}

func c06Run(c *Ctx) {
	r := c.Rng
	g := stdGen()
	g.Keys = c06Keys
	g.MaxDepth = 2
	g.MaxWidth = 3
	g.ListMax = 3
	g.PNull = 0.15
	g.PEmpty = 0.1
	for i := 0; i < c.N(700); i++ {
		c.Tick()
		maxWrites := 4 + r.Intn(22)
		if c.Thorough() && r.Intn(10) == 0 {
			maxWrites = 30 + r.Intn(120)
		}
		c.Do("hist", c06GenHist(r, g, maxWrites))
	}
	heapOverlayGen(c, c.N(500)) // heap_share2.go
}

func c06GenHist(r *rand.Rand, g *DocGen, maxWrites int) c06Hist {
	w := newC06World() // scratch overlay: keeps the generated history inside the domain
	// one history in three uses components that look like a list-item reference but are member names (c06_look.go),
	// in paths and as member names of the container values written
	c06Look = r.Intn(3) == 0
	defer func() { c06Look = false }()
	if c06Look {
		g2 := *g
		g2.Keys = append(append([]string{}, c06Keys...), c06LookAlike(r, pick(r, c06Keys)), c06LookAlike(r, pick(r, c06Keys)))
		g = &g2
	}
	var ops []c06Op
	var known []string // paths written so far (for aimed reads)
	nLayers := 3 + r.Intn(2)
	// aimed: a write into a LATER layer (later in first-write order, or not written yet) at a
	// position where an earlier layer holds something — an explicit null (Put of a nil leaf,
	// Populate with a nil value) or a sparse list write whose padding covers the earlier
	// layer's items. These are the positions where the merged view must keep the earlier value.
	aimed := func() (c06Op, bool) {
		if len(w.names) == 0 {
			return c06Op{}, false
		}
		si := r.Intn(len(w.names))
		src := w.names[si]
		cands := append([]string{}, w.names[si+1:]...)
		for _, l := range c06Layers[:nLayers] {
			seen := false
			for _, n := range w.names {
				seen = seen || n == l
			}
			if !seen {
				cands = append(cands, l)
			}
		}
		ks := sortedKeys(w.ov.Layers()[src].Flatten())
		if len(cands) == 0 || len(ks) == 0 {
			return c06Op{}, false
		}
		op := c06Op{Op: "put", L: pick(r, cands)}
		p := pick(r, ks)
		switch k := r.Intn(5); {
		case k >= 2 && strings.Contains(p, "["):
			// sparse list write: the list the leaf sits in has n items in the earlier layer
			p0 := p[:strings.LastIndex(p, "[")]
			lst, ok := w.ov.Lookup(src, p0).(dom.List)
			if !ok {
				return c06Op{}, false
			}
			idx := lst.Size() + r.Intn(2)
			if r.Intn(3) == 0 && lst.Size() > 1 {
				idx = 1 + r.Intn(lst.Size()-1)
			}
			op.Path = fmt.Sprintf("%s[%d]", p0, idx)
			op.V = scalarWire(1 + r.Intn(9))
		case k == 1:
			// Populate with a nil value (plus, sometimes, a sibling value)
			i := strings.LastIndex(p, ".")
			key := p[i+1:]
			if j := strings.Index(key, "["); j >= 0 {
				key = key[:j]
			}
			op.Op = "populate"
			if i > 0 {
				op.Path = p[:i]
			}
			m := map[string]any{key: scalarWire(nil)}
			if r.Intn(2) == 0 {
				m[pick(r, c06Keys)] = g.Scalar(r)
			}
			op.V = map[string]any{"m": m}
		default:
			// Put of a nil leaf, at the leaf or (null over a composite) at a prefix of its path
			if r.Intn(3) == 0 {
				if i := strings.LastIndexAny(p, ".["); i > 0 {
					p = p[:i]
				}
			}
			op.Path = p
			op.V = scalarWire(nil)
		}
		return op, true
	}
	nextID := 0
	var reusable []c06Op // executed put / add writes: their node objects can be handed over again
	newID := func() string {
		nextID++
		return fmt.Sprintf("n%d", nextID)
	}
	// revisit: a position below a composite is written, the composite is then REPLACED by a fresh composite of
	// (nearly) the same shape through a Put at its own path, and the position below it is written once more — three
	// writes into one layer, queued back to back.  What the layer holds afterwards must be the replacement plus the
	// last write; whatever the first write resolved on its way down belongs to the value that is gone.
	var queue []c06Op
	revisit := func() bool {
		if len(w.names) == 0 {
			return false
		}
		l := pick(r, w.names)
		lw := nodeWire(w.ov.Layers()[l])
		var pairs, listPairs [][2]string // (composite position P, container position q at or below P)
		var walk func(x W, path string, above []string, aboveList []bool)
		walk = func(x W, path string, above []string, aboveList []bool) {
			switch v := x.(type) {
			case []any:
				if path != "" {
					above, aboveList = append(append([]string{}, above...), path), append(append([]bool{}, aboveList...), true)
				}
				for i, e := range v {
					walk(e, fmt.Sprintf("%s[%d]", path, i), above, aboveList)
				}
			case map[string]any:
				c, ok := v["m"].(map[string]any)
				if !ok {
					return
				}
				if path != "" {
					above, aboveList = append(append([]string{}, above...), path), append(append([]bool{}, aboveList...), false)
					for i, p := range above {
						pairs = append(pairs, [2]string{p, path})
						if aboveList[i] {
							listPairs = append(listPairs, [2]string{p, path})
						}
					}
				}
				for _, k := range sortedKeys(c) {
					walk(c[k], c06ToPath(path, k), above, aboveList)
				}
			}
		}
		walk(lw, "", nil, nil)
		if len(listPairs) > 0 && r.Intn(4) > 0 {
			pairs = listPairs
		}
		if len(pairs) == 0 {
			return false
		}
		pq := pick(r, pairs)
		cur := nodeWire(w.ov.Lookup(l, pq[0]))
		if cur == nil {
			return false
		}
		repl := deepCopyW(cur)
		if r.Intn(3) == 0 {
			repl = g.Mutate(r, cur)
		}
		k1, k2 := pick(r, c06Keys), pick(r, c06Keys)
		queue = append(queue,
			c06Op{Op: "put", L: l, Path: pq[1] + "." + k1, V: g.Scalar(r)},
			c06Op{Op: "put", L: l, Path: pq[0], V: repl},
			c06Op{Op: "put", L: l, Path: pq[1] + "." + k2, V: g.Scalar(r)})
		return true
	}
	genWrite := func() c06Op {
		if len(queue) > 0 {
			op := queue[0]
			queue = queue[1:]
			return op
		}
		if r.Intn(8) == 0 && revisit() {
			op := queue[0]
			queue = queue[1:]
			return op
		}
		if len(reusable) > 0 && r.Intn(6) == 0 {
			// the very node object of an earlier write once more: into another layer at the same path (mostly), or
			// at another path
			src := pick(r, reusable)
			for try := 0; try < 4 && wireKind(src.V) == "leaf"; try++ {
				src = pick(r, reusable)
			}
			op := c06Op{Op: src.Op, L: c06Layers[r.Intn(nLayers)], Path: src.Path, V: src.V, Reuse: src.ID, ID: newID()}
			if op.Op == "put" && r.Intn(4) == 0 {
				op.Path = c06GenPath(r, 2)
			}
			return op
		}
		if r.Intn(5) == 0 {
			if op, ok := aimed(); ok {
				return op
			}
		}
		op := c06Op{L: c06Layers[r.Intn(nLayers)]}
		switch k := r.Intn(10); {
		case k < 6:
			op.Op = "put"
			op.Path = c06GenPath(r, 3)
			if len(known) > 0 && r.Intn(3) == 0 {
				// extend or re-use a known path
				op.Path = pick(r, known)
				if r.Intn(2) == 0 {
					op.Path += "." + c06GenPath(r, 1)
				}
			}
			switch v := r.Intn(10); {
			case v < 5:
				op.V = g.Scalar(r)
			case v < 7:
				op.V = g.List(r, 1)
			case v == 7 && r.Intn(2) == 0:
				op.V = pick(r, []W{
					map[string]any{"m": map[string]any{}},
					map[string]any{"m": map[string]any{"a": map[string]any{"m": map[string]any{}}}},
					map[string]any{"m": map[string]any{"l": []any{}}},
					map[string]any{"m": map[string]any{"l": []any{[]any{}, map[string]any{"m": map[string]any{}}}}},
				})
			default:
				op.V = g.Cont(r, 1)
			}
		case k < 8:
			op.Op = "add"
			op.V = g.Cont(r, 1)
		default:
			op.Op = "populate"
			if r.Intn(3) > 0 {
				op.Path = c06GenPath(r, 2)
			}
			op.V = g.Cont(r, 1)
		}
		return op
	}
	genRead := func() c06Op {
		somePath := func() string {
			if c06Look && len(known) > 0 && r.Intn(4) == 0 {
				return c06LookRead(r, pick(r, known))
			}
			if len(known) > 0 && r.Intn(5) > 0 {
				p := pick(r, known)
				switch r.Intn(6) {
				case 0: // a prefix
					if i := strings.LastIndex(p, "."); i > 0 {
						p = p[:i]
					}
				case 1:
					p += "." + pick(r, c06Keys)
				}
				return p
			}
			return c06GenPath(r, 3)
		}
		switch r.Intn(10) {
		case 0:
			return c06Op{Op: "names"}
		case 1, 2:
			return c06Op{Op: "lookup", L: c06Layers[r.Intn(4)], Path: somePath()}
		case 3, 4:
			return c06Op{Op: "lookupAny", Path: somePath()}
		case 5:
			switch r.Intn(4) {
			case 0:
				return c06Op{Op: "search", Pred: "all"}
			case 1:
				return c06Op{Op: "search", Pred: "null"}
			case 2:
				return c06Op{Op: "search", Pred: "type", T: pick(r, []string{"int", "string", "bool", "float64", "nil"})}
			default:
				return c06Op{Op: "search", Pred: "eq", V: g.Scalar(r)}
			}
		case 6:
			return c06Op{Op: "walk", Limit: 0}
		case 7:
			return c06Op{Op: "walk", Limit: 1 + r.Intn(8)}
		case 8:
			return c06Op{Op: "merged", Opt: pick(r, []string{"meld", "meld", "append"})}
		default:
			return c06Op{Op: "snapshot"}
		}
	}
	for n := 0; n < maxWrites; n++ {
		var op c06Op
		ok := false
		for try := 0; try < 6 && !ok; try++ {
			op = genWrite()
			ok = w.inDomain(op)
			if !ok && r.Intn(5) == 0 {
				ok = true // now and then keep an out-of-domain step: the evaluation must skip it
				break
			}
		}
		if !ok {
			continue
		}
		if w.inDomain(op) {
			out, _ := guard(func() { w.apply(op) })
			if out != "ok" || !w.finite() {
				// the implementation panicked inside the domain, or stored a node below itself: keep the step, the
				// evaluation reports it
				ops = append(ops, op)
				break
			}
			if op.Op == "put" {
				known = append(known, op.Path)
			}
			if op.Op == "put" || op.Op == "add" {
				if op.ID == "" {
					op.ID = newID()
				}
				reusable = append(reusable, w.resolve(op))
			}
			if ls := w.ov.Layers()[op.L]; ls != nil && r.Intn(3) == 0 {
				fl := ls.Flatten()
				ks := sortedKeys(fl)
				if len(ks) > 0 {
					known = append(known, ks[r.Intn(len(ks))])
				}
			}
		}
		ops = append(ops, op)
		if op.Reuse != "" {
			ops = append(ops, c06Op{Op: "merged", Opt: "append"}, c06Op{Op: "merged", Opt: "meld"})
		}
		for k, nr := 0, r.Intn(3); k < nr; k++ {
			ops = append(ops, genRead())
		}
	}
	ops = append(ops, c06Op{Op: "names"}, c06Op{Op: "walk"}, c06Op{Op: "merged", Opt: "meld"})
	return c06Hist{Ops: ops}
}

// c06Sweep reads, after a write, everything the layers hold back through the LIVE overlay (the per-write comparison
// above goes through Layers(), i.e. clones): Lookup of every flattened path of every layer, LookupAny of it against
// the first layer that has the path, Search(all) and Walk against the flattened views, Merged (strategies
// alternating) against the reference merge folded over the layers.  Expectations come from the per-layer
// standalone documents, which received the same writes one by one.
func c06Sweep(c *Ctx, w *c06World, op c06Op, nth int) bool {
	ok := true
	out, txt := guard(func() {
		type lp struct{ l, p string }
		want := map[lp]string{}
		first := map[string]string{} // path -> first layer (in order) whose Lookup finds something there
		var ref W = map[string]any{"m": map[string]any{}}
		app := nth%2 == 1
		for _, n := range w.names {
			sh := w.shadow[n]
			for p, lf := range sh.Flatten() {
				want[lp{n, p}] = canon(scalarWire(lf.Value()))
			}
			ref = c04RefDoc(ref, nodeWire(sh), app)
		}
		paths := map[string]bool{}
		for k := range want {
			paths[k.p] = true
		}
		for _, p := range sortedKeys(paths) {
			for _, n := range w.names {
				if w.shadow[n].Lookup(p) != nil {
					first[p] = n
					break
				}
			}
		}
		wantKeys := make([]lp, 0, len(want))
		for k := range want {
			wantKeys = append(wantKeys, k)
		}
		sort.Slice(wantKeys, func(i, j int) bool {
			return wantKeys[i].l < wantKeys[j].l || (wantKeys[i].l == wantKeys[j].l && wantKeys[i].p < wantKeys[j].p)
		})
		for _, k := range wantKeys {
			v := want[k]
			n := w.ov.Lookup(k.l, k.p)
			if n == nil || !n.IsLeaf() || canon(scalarWire(n.(dom.Leaf).Value())) != v {
				ok = c.Direct("lookup-sees-only-that-layer(every leaf after every write)", false,
					map[string]any{"after": op, "layer": k.l, "path": k.p, "impl": nodeWire(n), "expected": json.RawMessage(v)}) && ok
				return
			}
		}
		for _, p := range sortedKeys(paths) {
			got := w.ov.LookupAny(p)
			exp := w.ov.Lookup(first[p], p)
			if got != exp || got == nil {
				ok = c.Direct("lookupAny-first-layer-with-hit(every leaf after every write)", false,
					map[string]any{"after": op, "path": p, "impl": nodeWire(got), "first layer": first[p], "expected": nodeWire(exp)}) && ok
				return
			}
		}
		found := map[lp]int{}
		for _, co := range w.ov.Search(func(interface{}) bool { return true }) {
			found[lp{co.Layer(), co.Path()}]++
		}
		good := len(found) == len(want)
		for k, n := range found {
			if _, has := want[k]; !has || n != 1 {
				good = false
			}
		}
		ok = c.Direct("search-exactly-matching-positions(all, after every write)", good, map[string]any{"after": op, "found": len(found), "expected": len(want)}) && ok
		seen := map[lp]int{}
		good = true
		w.ov.Walk(func(layer, path string, parent, node dom.Node) bool {
			k := lp{layer, path}
			seen[k]++
			if v, has := want[k]; !has || !node.IsLeaf() || canon(scalarWire(node.(dom.Leaf).Value())) != v {
				good = false
			}
			return true
		})
		ok = c.Direct("walk-visits-exactly-the-flattened-triples(after every write)", good && len(seen) == len(want), map[string]any{"after": op, "visited": len(seen), "expected": len(want)}) && ok
		opt := "meld"
		if app {
			opt = "append"
		}
		m := w.ov.Merged(c04Opts(opt)...)
		if !c.Direct("merged-view-is-a-finite-tree", dhAcyclic(m), map[string]any{"after": op}) {
			panic("harness: cyclic document, not observed any further")
		}
		ok = c.Direct("merged-AsMap-eq-reference-fold-of-layer-AsMaps(after every write)", canon(plainWire(m.AsMap())) == canon(ref) && canon(nodeWire(m)) == canon(ref),
			map[string]any{"after": op, "opt": opt, "merged": nodeWire(m), "expected": ref}) && ok
	})
	return c.Direct("no-panic(reads after a write)", out == "ok", map[string]any{"after": op, "panic": txt}) && ok
}
