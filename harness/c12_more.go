package main

// C12, further case kinds:
//
//	hist    HISTORY: one ActionSpec value (built once / decoded from YAML once) executed several times, every
//	        time by a fresh executor with its own data, its own recording listener and its own ext action
//	        registrations (the same function name may trace in one run, fail in the next and be absent in a
//	        third).  Each run, on its own, must satisfy the property: trace, error and final data equal the
//	        reference interpreter's for THAT run's executor.
//	mixed   action trees whose nodes carry subsets of ALL operation kinds the program form knows (set,
//	        template, log, ext, abort, call, define, forEach, loop) in the same node; first every pair of kinds
//	        on one node, then random trees.
//	allops  one action carrying a subset of all sixteen OpSpec fields (patch, import, templateFile, env, exec,
//	        export, html2Dom included), each configured to succeed or — where the operation can — to fail; no
//	        model is involved: the operations that ran must be the fields present, in the documented order,
//	        up to the first failing one.

import (
	"encoding/json"
	"fmt"
	"math/rand"
	"os"
	osexec "os/exec"
	"path/filepath"
	"regexp"
	"sort"
	"strings"

	"github.com/rkosegi/yaml-toolkit/patch"
	"github.com/rkosegi/yaml-toolkit/pipeline"
	"gopkg.in/yaml.v3"
)

// ---------------------------------------------------------------- hist

type c12RunCfg struct {
	// ext function name -> behaviour (trace | fail | inc) registered with this run's executor; a name that
	// is missing is not registered
	Fns  map[string]string `json:"fns"`
	Data W                 `json:"data"` // this run's initial data (nil: the case's)
}

type c12Hist struct {
	Data W           `json:"data"`
	Root c12Act      `json:"root"`
	Runs []c12RunCfg `json:"runs"`
}

var c12FnPool = []string{"trace", "gate", "aux"}

func c12ForEachOp(a *c12Act, f func(o *c12Op)) {
	if a == nil {
		return
	}
	for i := range a.Ops {
		o := &a.Ops[i]
		f(o)
		c12ForEachOp(o.Body, f)
		c12ForEachOp(o.Init, f)
		c12ForEachOp(o.Post, f)
	}
	for i := range a.Children {
		c12ForEachOp(&a.Children[i], f)
	}
}

func c12GenHist(r *rand.Rand) c12Hist {
	var others []string
	maxDepth, maxFan := 1+r.Intn(3), 1+r.Intn(3)
	var tpls []string
	root := c12RandTree(r, "r", 0, maxDepth, maxFan, &others, &tpls)
	exts := 0
	c12ForEachOp(&root, func(o *c12Op) {
		if o.K == "ext" {
			o.Fn = pick(r, c12FnPool)
			exts++
		}
	})
	if exts == 0 {
		// the history is about ext registrations: at least one ext operation, before whatever the node has
		tgt := &root
		if len(root.Children) > 0 && r.Intn(2) == 0 {
			tgt = &root.Children[r.Intn(len(root.Children))]
		}
		tgt.Ops = append(tgt.Ops, c12Op{K: "ext", Fn: pick(r, c12FnPool), ID: tgt.Name})
	}
	h := c12Hist{Data: c12Data(), Root: root}
	for i, n := 0, 2+r.Intn(3); i < n; i++ {
		rc := c12RunCfg{Fns: map[string]string{}}
		for _, fn := range c12FnPool {
			switch x := r.Intn(20); {
			case x < 11:
				rc.Fns[fn] = "trace"
			case x < 17:
				rc.Fns[fn] = "fail"
			}
		}
		if r.Intn(4) == 0 {
			// other initial data for this run: the flags the conditions and templates read
			rc.Data = plainWire(map[string]any{"flagT": r.Intn(4) > 0, "flagF": r.Intn(4) == 0, "keep": map[string]any{"x": i, "y": "s"}})
		}
		h.Runs = append(h.Runs, rc)
	}
	return h
}

// the program as the model has to see it for one run: every ext function name replaced by the behaviour
// registered under it (a name that is not registered becomes a name the model does not know either)
func c12SubstFn(fns map[string]string, name string) string {
	if b, ok := fns[name]; ok {
		return b
	}
	return "unregistered/" + name
}

func c12SubstRoot(root *c12Act, fns map[string]string) c12Act {
	var cp c12Act
	b, _ := json.Marshal(root)
	_ = json.Unmarshal(b, &cp)
	cp.norm()
	c12ForEachOp(&cp, func(o *c12Op) {
		if o.K == "ext" {
			o.Fn = c12SubstFn(fns, o.Fn)
		}
	})
	return cp
}

func c12SubstTrace(tr []any, fns map[string]string) []any {
	out := make([]any, len(tr))
	for i, e := range tr {
		ev := e.([]any)
		if l, ok := ev[1].(string); ok && (ev[0] == "b" || ev[0] == "a") && strings.HasPrefix(l, "ext:") {
			cp := append([]any{}, ev...)
			cp[1] = "ext:" + c12SubstFn(fns, strings.TrimPrefix(l, "ext:"))
			out[i] = cp
		} else {
			out[i] = e
		}
	}
	return out
}

func c12EvalHist(c *Ctx, raw []byte) {
	var p c12Hist
	if err := json.Unmarshal(raw, &p); err != nil {
		panic(err)
	}
	p.Root.norm()
	if _, ok := wireCont(p.Data); !ok {
		p.Data = map[string]any{"m": map[string]any{}}
	}
	if len(p.Runs) > 8 {
		p.Runs = p.Runs[:8]
	}
	exts := 0
	c12ForEachOp(&p.Root, func(o *c12Op) {
		if o.K == "ext" {
			exts++
		}
	})
	if len(p.Runs) >= 2 && exts >= 1 {
		c.Nontrivial()
	}
	c.Dist(fmt.Sprintf("hist:runs:%d", len(p.Runs)))
	for _, variant := range []string{"struct", "yaml"} {
		// ONE spec value for all runs of this variant
		var spec pipeline.ActionSpec
		if variant == "struct" {
			spec = p.Root.spec()
		} else {
			s, txt, err := p.Root.specViaYAML()
			if !c.Direct("yaml-decodes", err == nil, map[string]any{"yaml": txt, "err": fmt.Sprint(err)}) {
				continue
			}
			spec = s
		}
		var runs []*c12RunRes
		var lens []int
		for i, rc := range p.Runs {
			data := rc.Data
			if _, ok := wireCont(data); !ok {
				data = p.Data
			}
			fns := rc.Fns
			if fns == nil {
				fns = map[string]string{}
			}
			vv := variant
			if i > 0 {
				vv += ",executed-again-by-a-fresh-executor"
			}
			// the one spec value, passed by value and — every other run — as a pointer to it (equivalent entry points)
			var act pipeline.Action = spec
			if i%2 == 1 {
				act = &spec
				vv += ",passed-as-pointer"
			}
			run := c12ExecFns(data, []pipeline.Action{act}, true, fns)
			runs, lens = append(runs, run), append(lens, len(run.rec.ev))
			if strings.HasPrefix(run.text, "runaway") {
				if !c.searchMode {
					c.Direct("terminates("+vv+")", false, run.text)
				}
				break
			}
			if !c.Direct("no-panic("+vv+")", run.outcome == "ok", run.text) {
				break
			}
			ret := run.errs[0]
			one := c12Case{Data: data, Root: p.Root}
			c12Direct(c, &one, run, ret, vv)
			c12RefDirect(c, refExec(data, &p.Root, fns), run, 0, "("+vv+")")
			if ret != nil {
				c.Dist("hist:result:error:" + strings.SplitN(fmt.Sprint(run.rec.tag(ret)), ":", 2)[0])
			} else {
				c.Dist("hist:result:ok")
			}
			if !c.searchMode {
				model := c.Model("exec", map[string]any{"data": data, "root": c12SubstRoot(&p.Root, fns), "fuel": c12Fuel})
				c.Corr("exec("+vv+")", map[string]any{"tr": c12SubstTrace(run.tr, fns), "err": run.rec.tag(ret), "data": run.dataWire()},
					c12ModelView(model))
			}
		}
		// a run is observed by its own executor's listener and ext actions only
		for i, run := range runs {
			c.Direct("later-runs-leave-this-executors-recording-alone("+variant+")", len(run.rec.ev) == lens[i],
				map[string]any{"run": i, "eventsAfterOwnRun": lens[i], "eventsNow": len(run.rec.ev), "arrivedLater": run.rec.ev[min(lens[i], len(run.rec.ev)):]})
		}
	}
}

// ---------------------------------------------------------------- mixed

var c12MixedKinds = []string{"set", "template", "log", "ext", "abort", "call", "define", "forEach", "loop"}

// c12MkMixedOp: an operation of any kind, tagged with its node's unique name.  defined = callables some node
// defines (whether that node has run by then is the program's business: an undefined callable is an error).
func c12MkMixedOp(r *rand.Rand, kind, name string, defined []string) c12Op {
	switch kind {
	case "call":
		target := "d_" + name // the node's own definition: Call is declared before Define
		if len(defined) > 0 && r.Intn(3) > 0 {
			target = pick(r, defined)
		}
		if r.Intn(8) == 0 {
			target = "nope"
		}
		op := c12Op{K: "call", Name: target, Args: plainWire(map[string]any{"x": name, "t": "{{ .flagT }}"})}
		if r.Intn(2) == 0 {
			op.ArgsPath = sp("ap_" + name)
		}
		return op
	case "define":
		return c12Op{K: "define", Name: "d_" + name, Body: &c12Act{Name: "db_" + name, Ops: []c12Op{{K: "log", Msg: "D-" + name + "-{{ .flagT }}"}}}}
	case "forEach":
		vname := "forEach"
		op := c12Op{K: "forEach"}
		if r.Intn(2) == 0 {
			vname = "it_" + name
			op.Var = sp(vname)
		}
		its := []c12VoR{}
		bools := r.Intn(4) == 0 // items that are boolean texts: a condition may read the variable
		for i, n := 0, r.Intn(3); i < n; i++ {
			if bools {
				its = append(its, c12VoR{Val: pick(r, []string{"true", "false", "1"})})
			} else {
				its = append(its, c12VoR{Val: fmt.Sprintf("i%d", i)})
			}
		}
		op.Items = &its
		op.Body = &c12Act{Name: "fb_" + name, Ops: []c12Op{{K: "log", Msg: "F-" + name + "-{{ ." + vname + " }}"}}}
		if r.Intn(3) == 0 {
			op.Body.Ops = append(op.Body.Ops, c12Op{K: "ext", Fn: "trace", ID: "fe_" + name})
		}
		return op
	case "loop":
		if r.Intn(2) == 0 {
			return c12Op{K: "loop", Test: pick(r, []string{"false", "{{ .flagF }}", "0"}), Body: &c12Act{Name: "lb_" + name, Ops: []c12Op{{K: "log", Msg: "never"}}}}
		}
		ctr, n := "c_"+name, 1+r.Intn(2)
		return c12Op{K: "loop", Test: "{{ ." + ctr + "_go }}",
			Init: &c12Act{Name: "li_" + name, Ops: []c12Op{{K: "set", Data: plainWire(map[string]any{ctr: 0, ctr + "_go": true})}}},
			Body: &c12Act{Name: "lb_" + name, Ops: []c12Op{{K: "log", Msg: "B-" + name + "-{{ ." + ctr + " }}"}}},
			Post: &c12Act{Name: "lp_" + name, Ops: []c12Op{{K: "ext", Fn: "inc", ID: ctr, N: n}}}}
	}
	return c12MkOp(kind, name)
}

// c12ScopedRefs: the field chains under which the node's own iteration / call operations bind their temporaries —
// the forEach variable, a member of the call's arguments.  Scoped: there while the body runs, gone afterwards.
func c12ScopedRefs(a *c12Act) []string {
	var out []string
	for i := range a.Ops {
		switch o := &a.Ops[i]; o.K {
		case "forEach":
			out = append(out, c14VarName(o.Var))
		case "call":
			if o.ArgsPath != nil {
				out = append(out, *o.ArgsPath+".x")
			} else {
				out = append(out, "args.x")
			}
		}
	}
	return out
}

// c12ReadScoped: the node's log / abort message reads one of the given temporaries through a template (Log and
// Abort are declared after Call and ForEach: by then the temporaries of the node's own operations are gone, and so
// are those of the nodes that ran before — what the message shows is what the data document holds at THAT moment)
func c12ReadScoped(r *rand.Rand, a *c12Act, refs []string, kinds ...string) {
	if len(refs) == 0 {
		return
	}
	for i := range a.Ops {
		for _, k := range kinds {
			if a.Ops[i].K == k {
				a.Ops[i].Msg = strings.ToUpper(k[:1]) + "-" + a.Name + "-{{ ." + pick(r, refs) + " }}"
			}
		}
	}
}

func c12MixedTree(r *rand.Rand, name string, depth, maxDepth, maxFan int, defined *[]string) c12Act {
	var scoped []string
	return c12MixedTreeS(r, name, depth, maxDepth, maxFan, defined, &scoped)
}

// scoped = the temporaries (c12ScopedRefs) of the nodes generated so far
func c12MixedTreeS(r *rand.Rand, name string, depth, maxDepth, maxFan int, defined *[]string, scoped *[]string) c12Act {
	a := c12Act{Name: name, Ops: []c12Op{}, Children: []c12Act{}}
	var kinds []string
	for _, k := range c12MixedKinds {
		p := 0.3
		if k == "abort" {
			p = 0.15
		}
		if r.Float64() < p {
			kinds = append(kinds, k)
		}
	}
	r.Shuffle(len(kinds), func(i, j int) { kinds[i], kinds[j] = kinds[j], kinds[i] })
	for _, k := range kinds {
		a.Ops = append(a.Ops, c12MkMixedOp(r, k, name, *defined))
	}
	for _, k := range kinds {
		if k == "define" {
			*defined = append(*defined, "d_"+name)
		}
	}
	switch x := r.Intn(10); {
	case x == 0:
		a.When = sp("{{ .flagF }}")
	case x < 3:
		a.When = sp(pick(r, []string{"true", "{{ .flagT }}", " 1 "}))
	}
	// TEMPORARIES READ FROM OUTSIDE THEIR SCOPE: a message of this node reads the variable / the arguments of the
	// node's own forEach / call (gone by the time Log and Abort run) or of a node generated earlier; now and then
	// a condition does (no value there: no boolean — the action fails)
	*scoped = append(*scoped, c12ScopedRefs(&a)...)
	if own := c12ScopedRefs(&a); len(own) > 0 && r.Intn(2) == 0 {
		c12ReadScoped(r, &a, own, "log", "abort")
	} else if len(*scoped) > 0 && r.Intn(4) == 0 {
		c12ReadScoped(r, &a, *scoped, pick(r, []string{"log", "abort"}))
	}
	if len(*scoped) > 0 && a.When == nil && r.Intn(12) == 0 {
		a.When = sp("{{ ." + pick(r, *scoped) + " }}")
	}
	if depth < maxDepth {
		n := r.Intn(maxFan + 1)
		orders := r.Perm(2*maxFan + 1)
		for i := 0; i < n; i++ {
			ch := c12MixedTreeS(r, fmt.Sprintf("%s%d", name, i), depth+1, maxDepth, maxFan, defined, scoped)
			ch.Order = orders[i] - maxFan
			a.Children = append(a.Children, ch)
		}
		// children are listed in a random order; they run by ascending order value.  (The definitions a
		// call may refer to were collected in generation order: some calls come too early — an error.)
		r.Shuffle(len(a.Children), func(i, j int) { a.Children[i], a.Children[j] = a.Children[j], a.Children[i] })
	}
	return a
}

// every pair of operation kinds on one node (listed against the documented order), with a sibling that
// defines a callable first
func c12MixedPairs(r *rand.Rand) []c12Case {
	var out []c12Case
	for i := range c12MixedKinds {
		for j := i + 1; j < len(c12MixedKinds); j++ {
			first := c12Act{Name: "a", Order: 1, Ops: []c12Op{c12MkMixedOp(r, "define", "a", nil)}, Children: []c12Act{}}
			second := c12Act{Name: "b", Order: 2, Children: []c12Act{}}
			second.Ops = []c12Op{c12MkMixedOp(r, c12MixedKinds[j], "b", []string{"d_a"}), c12MkMixedOp(r, c12MixedKinds[i], "b", []string{"d_a"})}
			root := c12Act{Name: "r", Ops: []c12Op{}, Children: []c12Act{second, first}}
			out = append(out, c12Case{Data: c12Data(), Root: root})
			if own := c12ScopedRefs(&second); len(own) > 0 {
				// the same pair, the node's message (its own, or a later sibling's) reading the temporary of the node's
				// forEach / call: gone by then
				var cp c12Act
				b, _ := json.Marshal(root)
				_ = json.Unmarshal(b, &cp)
				sec := &cp.Children[0]
				for _, o := range sec.Ops {
					if o.K == "forEach" && len(*o.Items) == 0 {
						*o.Items = append(*o.Items, c12VoR{Val: "i0"}, c12VoR{Val: "i1"})
					}
				}
				c12ReadScoped(r, sec, own, "log", "abort")
				cp.Children = append(cp.Children, c12Act{Name: "c", Order: 3, Ops: []c12Op{{K: "log", Msg: "L-c-{{ ." + own[0] + " }}"}}, Children: []c12Act{}})
				out = append(out, c12Case{Data: c12Data(), Root: cp})
			}
		}
	}
	return out
}

// ---------------------------------------------------------------- allops

type c12All struct {
	Fields []string `json:"fields"` // OpSpec fields present on the action (any order)
	Fail   []string `json:"fail"`   // of those, the ones configured so that they fail (Abort always does; Env and Log cannot)
}

var c12HaveTrue = func() bool { _, err := osexec.LookPath("true"); return err == nil }()

func c12AllCanFail(f string) bool { return f != "Env" && f != "Log" }

func c12AnyVal(src string) *pipeline.AnyVal {
	var av pipeline.AnyVal
	if err := yaml.Unmarshal([]byte(src), &av); err != nil {
		panic(err)
	}
	return &av
}

func c12AllFiles(dir string) {
	_ = os.MkdirAll(dir, 0o755)
	_ = os.WriteFile(filepath.Join(dir, "imp.yaml"), []byte("k: v\n"), 0o644)
	_ = os.WriteFile(filepath.Join(dir, "tf.tmpl"), []byte("x={{ .keep.x }}\n"), 0o644)
}

// the action as Go structs
func c12AllSpec(p *c12All, dir string) pipeline.ActionSpec {
	has, bad := map[string]bool{}, map[string]bool{}
	for _, f := range p.Fields {
		has[f] = true
	}
	for _, f := range p.Fail {
		bad[f] = true
	}
	logAct := func(msg string) pipeline.ActionSpec {
		return pipeline.ActionSpec{Operations: pipeline.OpSpec{Log: &pipeline.LogOp{Message: msg}}}
	}
	var o pipeline.OpSpec
	if has["Set"] {
		o.Set = &pipeline.SetOp{Path: "s.x"}
		if !bad["Set"] {
			o.Set.Data = map[string]interface{}{"a": 1}
		}
	}
	if has["Patch"] {
		o.Patch = &pipeline.PatchOp{Op: patch.OpAdd, Path: "/pz", Value: c12AnyVal("1")}
		if bad["Patch"] {
			o.Patch = &pipeline.PatchOp{Op: patch.OpRemove, Path: "/does/not/exist"}
		}
	}
	if has["Import"] {
		o.Import = &pipeline.ImportOp{File: filepath.Join(dir, "imp.yaml"), Path: "imp", Mode: pipeline.ParseFileModeYaml}
		if bad["Import"] {
			o.Import.File = filepath.Join(dir, "missing.yaml")
		}
	}
	if has["Template"] {
		o.Template = &pipeline.TemplateOp{Template: "T", Path: "tp"}
		if bad["Template"] {
			o.Template.Template = ""
		}
	}
	if has["TemplateFile"] {
		o.TemplateFile = &pipeline.TemplateFileOp{File: filepath.Join(dir, "tf.tmpl"), Output: filepath.Join(dir, "tf.out")}
		if bad["TemplateFile"] {
			o.TemplateFile.File = ""
		}
	}
	if has["Call"] {
		o.Call = &pipeline.CallOp{Name: "pre"}
		if bad["Call"] {
			o.Call.Name = "not-defined"
		}
	}
	if has["Define"] {
		o.Define = &pipeline.DefineOp{Name: "fresh", Action: logAct("never-called")}
		if bad["Define"] {
			o.Define.Name = "pre"
		}
	}
	if has["Env"] {
		o.Env = &pipeline.EnvOp{Include: regexp.MustCompile(`^C12_NO_SUCH_VARIABLE$`), Path: "envp"}
	}
	if has["Exec"] {
		o.Exec = &pipeline.ExecOp{Program: "true"}
		if bad["Exec"] {
			o.Exec.Program = filepath.Join(dir, "no-such-program")
		}
	}
	if has["Export"] {
		o.Export = &pipeline.ExportOp{File: &pipeline.ValOrRef{Val: filepath.Join(dir, "exp.yaml")}, Format: pipeline.OutputFormatYaml}
		if bad["Export"] {
			o.Export.Format = "bogus"
		}
	}
	if has["Ext"] {
		o.Ext = &pipeline.ExtOp{Function: "trace", Args: map[string]interface{}{"id": "E"}}
		if bad["Ext"] {
			o.Ext.Function = "fail"
		}
	}
	if has["ForEach"] {
		o.ForEach = &pipeline.ForEachOp{Item: &pipeline.ValOrRefSlice{&pipeline.ValOrRef{Val: "i1"}}, Action: logAct("F")}
		if bad["ForEach"] {
			o.ForEach.Action = pipeline.ActionSpec{Operations: pipeline.OpSpec{Abort: &pipeline.AbortOp{Message: "fe"}}}
		}
	}
	if has["Log"] {
		o.Log = &pipeline.LogOp{Message: "L"}
	}
	if has["Loop"] {
		o.Loop = &pipeline.LoopOp{Test: "false", Action: logAct("never")}
		if bad["Loop"] {
			o.Loop.Test = "not-a-bool"
		}
	}
	if has["Abort"] {
		o.Abort = &pipeline.AbortOp{Message: "A"}
	}
	if has["Html2Dom"] {
		o.Html2Dom = &pipeline.Html2DomOp{From: "html", To: "dom"}
		if bad["Html2Dom"] {
			o.Html2Dom.From = ""
		}
	}
	return pipeline.ActionSpec{ActionMeta: pipeline.ActionMeta{Name: "all"}, Operations: o}
}

// the same action as YAML text (keys in a scrambled order: the order must not come from the document)
func c12AllYAML(p *c12All, dir string) string {
	bad := map[string]bool{}
	for _, f := range p.Fail {
		bad[f] = true
	}
	q := func(s string) string { b, _ := json.Marshal(s); return string(b) }
	sel := func(f, ok, ko string) string {
		if bad[f] {
			return ko
		}
		return ok
	}
	snippets := map[string]string{
		"Set":          sel("Set", "set: {data: {a: 1}, path: s.x}", "set: {path: s.x}"),
		"Patch":        sel("Patch", "patch: {op: add, path: /pz, value: 1}", "patch: {op: remove, path: /does/not/exist}"),
		"Import":       "import: {file: " + q(filepath.Join(dir, sel("Import", "imp.yaml", "missing.yaml"))) + ", path: imp, mode: yaml}",
		"Template":     sel("Template", `template: {template: "T", path: tp}`, `template: {template: "", path: tp}`),
		"TemplateFile": "templateFile: {file: " + sel("TemplateFile", q(filepath.Join(dir, "tf.tmpl")), `""`) + ", output: " + q(filepath.Join(dir, "tf.out")) + "}",
		"Call":         sel("Call", "call: {name: pre}", "call: {name: not-defined}"),
		"Define":       "define: {name: " + sel("Define", "fresh", "pre") + ", action: {log: {message: never-called}}}",
		"Env":          `env: {include: "^C12_NO_SUCH_VARIABLE$", path: envp}`,
		"Exec":         "exec: {program: " + sel("Exec", `"true"`, q(filepath.Join(dir, "no-such-program"))) + "}",
		"Export":       "export: {file: " + q(filepath.Join(dir, "exp.yaml")) + ", format: " + sel("Export", "yaml", "bogus") + "}",
		"Ext":          "ext: {func: " + sel("Ext", "trace", "fail") + ", args: {id: E}}",
		"ForEach":      "forEach: {item: [i1], action: {" + sel("ForEach", "log: {message: F}", "abort: {message: fe}") + "}}",
		"Log":          "log: {message: L}",
		"Loop":         "loop: {test: " + sel("Loop", `"false"`, "not-a-bool") + ", action: {log: {message: never}}}",
		"Abort":        "abort: {message: A}",
		"Html2Dom":     "html2DomOp: {from: " + sel("Html2Dom", "html", `""`) + ", to: dom}",
	}
	lines := []string{"name: all"}
	seen := map[string]bool{}
	for _, f := range p.Fields {
		if s, ok := snippets[f]; ok && !seen[f] {
			seen[f] = true
			lines = append(lines, s)
		}
	}
	return strings.Join(lines, "\n") + "\n"
}

func c12AllData() W {
	return plainWire(map[string]any{"html": "<p>x</p>", "keep": map[string]any{"x": 1}})
}

func c12EvalAll(c *Ctx, raw []byte) {
	var p c12All
	if err := json.Unmarshal(raw, &p); err != nil {
		panic(err)
	}
	known := map[string]bool{}
	for _, f := range c12DocumentedOrder {
		known[f] = true
	}
	present := map[string]bool{}
	var fields []string
	for _, f := range p.Fields {
		if known[f] && !present[f] && (f != "Exec" || c12HaveTrue) {
			present[f] = true
			fields = append(fields, f)
		}
	}
	p.Fields = fields
	failing := map[string]bool{"Abort": present["Abort"]}
	var fail []string
	for _, f := range p.Fail {
		if present[f] && c12AllCanFail(f) && !failing[f] {
			failing[f] = true
			fail = append(fail, f)
		}
	}
	p.Fail = fail
	// "runs its own operations first, in the fixed declared operation order … the first failing operation
	// stops the whole run": the fields present, in the documented order, up to the first failing one
	var want []string
	wantErr := false
	for _, f := range c12DocumentedOrder {
		if present[f] {
			want = append(want, f)
			if failing[f] {
				wantErr = true
				break
			}
		}
	}
	if len(p.Fields) >= 2 {
		c.Nontrivial()
	}
	c.Dist(fmt.Sprintf("allops:fields:%d", min(len(p.Fields), 8)))
	dir := filepath.Join(c.VerifDir, ".work", fmt.Sprintf("c12-allops-%d", os.Getpid()))
	defer os.RemoveAll(dir)
	for _, variant := range []string{"struct", "yaml"} {
		_ = os.RemoveAll(dir)
		c12AllFiles(dir)
		var spec pipeline.ActionSpec
		if variant == "struct" {
			spec = c12AllSpec(&p, dir)
		} else {
			txt := c12AllYAML(&p, dir)
			if err := yaml.Unmarshal([]byte(txt), &spec); !c.Direct("yaml-decodes", err == nil, map[string]any{"yaml": txt, "err": fmt.Sprint(err)}) {
				continue
			}
		}
		pre := &pipeline.DefineOp{Name: "pre", Action: pipeline.ActionSpec{Operations: pipeline.OpSpec{Log: &pipeline.LogOp{Message: "P"}}}}
		run := c12Exec(c12AllData(), []pipeline.Action{pre, spec}, false)
		v := "(" + variant + ")"
		if !c.Direct("no-panic"+v, run.outcome == "ok", run.text) {
			continue
		}
		roots, problem := c12Parse(run.rec)
		if !c.Direct("well-nested"+v, problem == "" && len(roots) == 2, map[string]any{"problem": problem, "trace": run.tr}) {
			continue
		}
		ret := run.errs[1]
		ff := c12FailFast(run.rec, roots[1].first, roots[1].last+1, ret)
		c.Direct("fail-fast"+v, ff == "", map[string]any{"problem": ff, "trace": run.tr})
		var ran []string
		for _, k := range roots[1].kids {
			if k.label == "ops" {
				for _, g := range k.kids {
					ran = append(ran, c12LabelField(g.label))
				}
			}
		}
		c.Direct("declared-op-order-over-all-operation-kinds"+v, canon(ran) == canon(want),
			map[string]any{"present": p.Fields, "configuredToFail": p.Fail, "ran": ran, "documentedOrderUpToFirstFailure": want})
		c.Direct("error-iff-an-operation-fails"+v, (ret != nil) == wantErr, map[string]any{"returned": fmt.Sprint(ret), "configuredToFail": p.Fail, "present": p.Fields})
	}
}

func c12GenAll(r *rand.Rand) c12All {
	perm := r.Perm(len(c12DocumentedOrder))
	n := 2 + r.Intn(6)
	var p c12All
	for _, i := range perm[:n] {
		f := c12DocumentedOrder[i]
		if f == "Exec" && r.Intn(3) > 0 {
			continue // spawns a process: kept rare
		}
		p.Fields = append(p.Fields, f)
		if c12AllCanFail(f) && f != "Abort" && r.Intn(5) == 0 {
			p.Fail = append(p.Fail, f)
		}
	}
	sort.Strings(p.Fail)
	return p
}
