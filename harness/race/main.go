// Command race is the C20 race-detector program.  It is built with `go build -race` by the C20
// harness at check time and run with GORACE="halt_on_error=1 exitcode=66".
//
//	race <cases.json>
//
// For every case: `repeat` times, a FRESH instance of the document is built and 16 (= number of
// sequences) goroutines run their sequences on it at the same time — the concurrent readers are the
// FIRST to read the document and the first in this process to use the paths / child names of the
// case (nothing is resolved single-threaded beforehand, so state that a read path initialises or
// memoises lazily, in the document or anywhere else, is initialised under concurrency).  Only
// AFTERWARDS the single-threaded observations of every call sequence are computed, on yet another
// fresh instance; every goroutine's observations must equal them.  A data race makes the runtime
// print its report and exit 66.  A case may name serialisations of OTHER documents that fail part-way
// (`pre`): they are performed in every round after the goroutines have been created and before they are
// released, so the readers run in whatever state a failed call leaves behind.
package main

import (
	"crypto/sha256"
	"encoding/json"
	"fmt"
	"os"
	"sync"

	"verifharness/c20lib"
)

func hashObs(s *c20lib.Subject, seq []c20lib.Call) string {
	h := sha256.New()
	for _, c := range seq {
		h.Write([]byte(s.Exec(c)))
		h.Write([]byte{0})
	}
	return fmt.Sprintf("%x", h.Sum(nil)[:8])
}

func main() {
	if len(os.Args) < 2 {
		fmt.Fprintln(os.Stderr, "usage: race cases.json")
		os.Exit(2)
	}
	b, err := os.ReadFile(os.Args[1])
	if err != nil {
		fmt.Fprintln(os.Stderr, err)
		os.Exit(2)
	}
	var cases []c20lib.Case
	if err := json.Unmarshal(b, &cases); err != nil {
		fmt.Fprintln(os.Stderr, err)
		os.Exit(2)
	}
	for i, cs := range cases {
		fmt.Printf("CASE %d\n", i)
		os.Stdout.Sync()
		cs.D1 = c20lib.Enlarged(cs.D1, cs.Pad, cs.Long)
		rep := cs.Repeat
		if rep < 1 {
			rep = 1
		}
		all := make([][]string, rep)
		for r := 0; r < rep; r++ {
			subj := c20lib.Build(cs.Origin, cs.D1, cs.D2, cs.More...)
			got := make([]string, len(cs.Seqs))
			start := make(chan struct{})
			var wg sync.WaitGroup
			for g := range cs.Seqs {
				wg.Add(1)
				go func(g int) {
					defer wg.Done()
					<-start
					got[g] = hashObs(subj, cs.Seqs[g])
				}(g)
			}
			// calls of the serialisation API that FAIL part-way, on other documents, precede the readers: whatever a
			// failed call leaves behind (package-level state, pooled buffers) is there when they start
			for _, f := range cs.Pre {
				f.Run()
			}
			close(start)
			wg.Wait()
			all[r] = got
		}
		// the single-threaded reference, computed after the concurrent rounds
		ref := c20lib.Build(cs.Origin, cs.D1, cs.D2, cs.More...)
		single := make([]string, len(cs.Seqs))
		for g, seq := range cs.Seqs {
			single[g] = hashObs(ref, seq)
		}
		for _, got := range all {
			for g := range got {
				if got[g] != single[g] {
					fmt.Printf("MISMATCH %d %d %s %s\n", i, g, single[g], got[g])
				}
			}
		}
		fmt.Printf("OBS %d %v\n", i, single)
	}
	fmt.Println("DONE")
}
