package main

import (
	"bytes"
	"encoding/json"
	"fmt"
	"math/rand"
	"net/url"
	"os"
	"path/filepath"
	"reflect"
	"regexp"
	"strings"

	"github.com/rkosegi/yaml-toolkit/common"
	"github.com/rkosegi/yaml-toolkit/diff"
	"github.com/rkosegi/yaml-toolkit/dom"
	"github.com/rkosegi/yaml-toolkit/pipeline"
	"github.com/rkosegi/yaml-toolkit/props"
	"github.com/rkosegi/yaml-toolkit/utils"
	"gopkg.in/yaml.v3"
)

// C13 — the functions the pipeline adds to text/template (pipeline/template_engine_funcs.go), called from REAL
// templates rendered by the executor's template engine, and through TemplateOp.  Model: lean/YtkModel/TplFuncs.lean
// (driver op "tplFuncs").  A value a function returns is taken out of the template with `{{ call .sink (…) }}`:
// `sink` is a Go function in the template's data that keeps its argument, so the harness sees the typed Go value
// (a map, a dom.Container, a []diff.Modification), not its printed form.

type c13tfFile struct {
	Name string `json:"name"`           // base name with suffix
	Doc  W      `json:"doc,omitempty"`  // content (a document), encoded by the suffix's control encoder
	Kind string `json:"kind,omitempty"` // "" (a good file) | missing | broken | dir
}

type c13tfCase struct {
	Data  W           `json:"data,omitempty"`
	Key   string      `json:"key,omitempty"`
	Files []c13tfFile `json:"files,omitempty"`
	List  []string    `json:"list,omitempty"`
	List2 []string    `json:"list2,omitempty"`
	Fmt   string      `json:"fmt,omitempty"`
	L     W           `json:"l,omitempty"`
	R     W           `json:"r,omitempty"`
	T     string      `json:"t,omitempty"`
	Q     string      `json:"q,omitempty"`
	Call  string      `json:"call,omitempty"` // tf-op: isEmpty | fileExists | isDir | mergeDom2
	Path  string      `json:"path,omitempty"` // tf-op: target path
}

var c13tfIdent = regexp.MustCompile(`^[A-Za-z_][A-Za-z0-9_]*$`)

// c13tfRef is how a template reads key k of its data: `.k` for identifiers, `(index . "k")` otherwise.
func c13tfRef(k string) string {
	if c13tfIdent.MatchString(k) {
		return "." + k
	}
	return fmt.Sprintf("(index . %q)", k)
}

// c13tfSpecials: the values the kinds of which isEmpty has to tell apart.
func c13tfSpecials() []W {
	return []W{scalarWire(nil), scalarWire(""), scalarWire(" "), scalarWire("a"), scalarWire(0), scalarWire(false), scalarWire(0.0),
		[]any{}, map[string]any{"m": map[string]any{}}, []any{scalarWire(nil)}, []any{scalarWire("")},
		map[string]any{"m": map[string]any{"a": scalarWire("")}}, scalarWire("0"), scalarWire("false"), scalarWire("<nil>"), scalarWire("\n")}
}

func c13tfRun(c *Ctx) {
	r := c.Rng
	g := c13Gen()
	g.PNull = 0.15
	keyOf := func(data W) string {
		m, _ := wireCont(data)
		ks := sortedKeys(m)
		if len(ks) == 0 || r.Intn(5) == 0 {
			return pick(r, []string{"absent", "zz", "x-y", "k1"})
		}
		return pick(r, ks)
	}
	// isEmpty: every kind of value, under identifier and non-identifier keys, and the missing key
	for i := 0; i < c.N(260); i++ {
		c.Tick()
		data := g.Doc(r)
		m, _ := wireCont(data)
		if r.Intn(2) == 0 {
			m[pick(r, g.Keys)] = pick(r, c13tfSpecials())
		}
		c.Do("tf-isempty", c13tfCase{Data: data, Key: keyOf(data)})
	}
	if !c.searchMode {
		for i, v := range c13tfSpecials() {
			k := []string{"a", "x-y"}[i%2]
			c.Do("tf-isempty", c13tfCase{Data: map[string]any{"m": map[string]any{k: v}}, Key: k})
		}
		c.Do("tf-isempty", c13tfCase{Data: map[string]any{"m": map[string]any{}}, Key: "a"})
	}
	// unflatten: flat maps with dotted keys, prefix conflicts included; values of every kind
	for i := 0; i < c.N(260); i++ {
		c.Tick()
		flat := map[string]any{}
		segs := []string{"a", "b", "c", "k1", "x-y"}
		for j, n := 0, r.Intn(6); j < n; j++ {
			k := pick(r, segs)
			for d := r.Intn(3); d > 0; d-- {
				k += "." + pick(r, segs)
			}
			flat[k] = g.Node(r, g.MaxDepth-1)
		}
		if r.Intn(12) == 0 {
			flat[pick(r, []string{"", ".", "a.", ".a", "a..b"})] = g.Scalar(r)
		}
		var v W = map[string]any{"m": flat}
		switch r.Intn(14) { // not a map at all: text/template rejects the argument
		case 0:
			v = scalarWire("s")
		case 1:
			v = []any{}
		case 2:
			v = scalarWire(nil)
		}
		data := map[string]any{"m": map[string]any{"flat": v}}
		if r.Intn(14) == 0 {
			data = map[string]any{"m": map[string]any{}}
		}
		c.Do("tf-unflatten", c13tfCase{Data: data, Key: "flat"})
	}
	// toYaml
	for i := 0; i < c.N(120); i++ {
		c.Tick()
		data := g.Doc(r)
		c.Do("tf-toyaml", c13tfCase{Data: data, Key: keyOf(data)})
	}
	// fileExists / isDir / glob / fileGlob
	for i := 0; i < c.N(60); i++ {
		c.Tick()
		var fs []c13tfFile
		for j, n := 0, 1+r.Intn(4); j < n; j++ {
			fs = append(fs, c13tfFile{Name: fmt.Sprintf("f%d%s", j, pick(r, []string{".yaml", ".json", ".txt", ""})),
				Kind: pick(r, []string{"", "", "dir", "missing"}), Doc: map[string]any{"m": map[string]any{}}})
		}
		c.Do("tf-stat", c13tfCase{Files: fs, Q: pick(r, []string{"*", "*.yaml", "f?.*", "[", "f[0-1]*", "nothing*", "*/*"})})
	}
	// mergeFiles (+ dom2yaml / dom2json / dom2properties on its result)
	for i := 0; i < c.N(420); i++ {
		c.Tick()
		c.Do("tf-mergefiles", c13tfGenMerge(r, g))
	}
	// domdiff
	for i := 0; i < c.N(260); i++ {
		c.Tick()
		l := W(g.Doc(r))
		rr := l
		switch r.Intn(4) {
		case 0:
			rr = g.Doc(r)
		case 1:
		default:
			for j, n := 0, 1+r.Intn(3); j < n; j++ {
				rr = g.Mutate(r, rr)
			}
		}
		switch r.Intn(12) { // one side is not a container / is nil
		case 0:
			l = nil
		case 1:
			rr = nil
		case 2:
			l = g.List(r, 1)
		case 3:
			rr = g.Scalar(r)
		case 4:
			l, rr = g.List(r, 1), g.List(r, 1)
		}
		c.Do("tf-domdiff", c13tfCase{L: l, R: rr})
	}
	// tpl
	tpls := []string{"plain", "", "{{ .a }}", "{{ isEmpty .a }}", "x{{ .b }}y{{ .a }}", "{{", "{{ nosuch }}", "{{ .a.b.c }}", "{{ toYaml . }}",
		"{{ tpl \"{{ .a }}\" . }}", "{{ fail \"boom\" }}", "{{ if isEmpty .zz }}E{{ else }}N{{ end }}", "}}", "{{ template \"tmpl\" . }}x"}
	for i := 0; i < c.N(100); i++ {
		c.Tick()
		c.Do("tf-tpl", c13tfCase{Data: g.Doc(r), T: pick(r, tpls)})
	}
	// urlParseQuery
	for _, q := range []string{"", "a=1", "a=1&b[]=W&b[]=X", "a=1&a=2", "a", "=v", "a=%zz", ":invalid;./,/<>", "a=b=c", "x%20y=z+w", "&&", "a=1;b=2"} {
		c.Do("tf-urlquery", c13tfCase{Q: q})
	}
	// through TemplateOp
	for i := 0; i < c.N(260); i++ {
		c.Tick()
		p := c13tfGenMerge(r, g)
		p.Data = g.Doc(r)
		p.Key = keyOf(p.Data)
		p.Call = pick(r, []string{"isEmpty", "isEmpty", "fileExists", "isDir", "mergeDom2", "mergeDom2"})
		if p.Fmt == "properties" {
			p.Fmt = "json"
		}
		p.Path = "out_tf"
		if m, _ := wireCont(p.Data); len(m) > 0 && r.Intn(3) == 0 {
			p.Path = pick(r, sortedKeys(m))
		}
		c.Do("tf-op", p)
	}
}

// c13tfGenMerge: 0-4 files over a shared key pool (forced overlaps, lists, nulls, kind conflicts), YAML / JSON / .yml
// (rarely properties), one in eight with a missing / broken / unrecognised-suffix / directory entry; the argument list
// names them in order, one in six with a file named twice.
func c13tfGenMerge(r *rand.Rand, g *DocGen) c13tfCase {
	var fs []c13tfFile
	var list []string
	prev := g.Doc(r)
	for j, n := 0, r.Intn(5); j < n; j++ {
		ext := pick(r, []string{".yaml", ".yaml", ".json", ".json", ".yml"})
		doc := prev
		if r.Intn(3) > 0 {
			for k, e := 0, 1+r.Intn(3); k < e; k++ {
				doc = g.Mutate(r, doc)
			}
		} else {
			doc = g.Doc(r)
		}
		prev = doc
		f := c13tfFile{Name: fmt.Sprintf("f%d%s", j, ext), Doc: doc}
		switch r.Intn(40) {
		case 0:
			f.Kind = "missing"
		case 1:
			f.Kind = "broken"
		case 2:
			f.Kind = "dir"
		case 3:
			f.Name = fmt.Sprintf("f%d%s", j, pick(r, []string{".txt", "", ".YAML", ".yaml.bak"}))
		case 4:
			f.Name = fmt.Sprintf("f%d.properties", j)
		}
		fs = append(fs, f)
		list = append(list, f.Name)
	}
	if len(list) > 0 && r.Intn(6) == 0 {
		list = append(list, pick(r, list))
	}
	if len(list) > 1 && r.Intn(8) == 0 {
		r.Shuffle(len(list), func(i, j int) { list[i], list[j] = list[j], list[i] })
	}
	return c13tfCase{Files: fs, List: list, Fmt: pick(r, []string{"yaml", "json", "json", "properties"})}
}

// ------------------------------------------------------------------ the engine

// c13tfEngine hands f the executor's template engine and the snapshot of a document equal to `data`.
func c13tfEngine(data W, f func(te pipeline.TemplateEngine, snap map[string]any)) {
	if data == nil {
		data = map[string]any{"m": map[string]any{}}
	}
	gd := wireContainer(data)
	_ = pipeline.New(pipeline.WithData(gd)).Execute(&c13Probe{f: func(ctx pipeline.ActionContext) error {
		f(ctx.TemplateEngine(), ctx.Snapshot())
		return nil
	}})
}

// c13tfRender renders tmpl over `vars`; `{{ call .sink x }}` stores x in *got.
func c13tfRender(te pipeline.TemplateEngine, tmpl string, vars map[string]any, got *any) (out string, tag string, txt string) {
	data := map[string]any{}
	for k, v := range vars {
		data[k] = v
	}
	data["sink"] = func(v any) string {
		if got != nil {
			*got = v
		}
		return ""
	}
	var err error
	o, t := guard(func() { out, err = te.Render(tmpl, data) })
	if o != "ok" {
		return "", "panic", t
	}
	if err != nil {
		return "", "err", err.Error()
	}
	return out, "ok", ""
}

// ------------------------------------------------------------------ files of a case

type c13tfFS struct {
	dir   string
	rows  []any             // the file system as the model sees it (names = base names)
	stat  []any             // os.Stat per name
	docs  map[string]W      // control decoding of every good file (independent decoders), wire form
	fails map[string]string // files that cannot be merged: why
}

// c13tfControl encodes a document for a suffix with the standard library codecs and decodes it again.
func c13tfControl(name string, doc W) (data []byte, decoded W, ok bool) {
	plain := wirePlain(doc)
	var ctl map[string]any
	var err error
	switch filepath.Ext(name) {
	case ".json":
		if data, err = json.Marshal(plain); err == nil {
			err = json.Unmarshal(data, &ctl)
		}
	case ".properties":
		// flat `k=v` lines of the document's top-level scalars
		var sb strings.Builder
		ctl = map[string]any{}
		m, _ := plain.(map[string]any)
		for _, k := range sortedKeys(m) {
			switch m[k].(type) {
			case map[string]any, []any, nil:
				continue
			}
			s := fmt.Sprint(m[k])
			if strings.TrimSpace(s) != s || s == "" || strings.ContainsAny(s, "\\#!=:\n${}") || strings.ContainsAny(k, ".-") {
				continue
			}
			fmt.Fprintf(&sb, "%s=%s\n", k, s)
			ctl[k] = s
		}
		data = []byte(sb.String())
	default:
		if data, err = yaml.Marshal(plain); err == nil {
			err = yaml.Unmarshal(data, &ctl)
		}
	}
	if err != nil {
		return nil, nil, false
	}
	if ctl == nil {
		ctl = map[string]any{}
	}
	if plainHasNonStringKeys(ctl) {
		return nil, nil, false
	}
	return data, plainWire(ctl), true
}

// c13tfMakeFS writes the files of the case into a fresh directory.  ok=false: a document of the case cannot be
// written by the control encoder (outside the domain).
func c13tfMakeFS(c *Ctx, files []c13tfFile) (fs *c13tfFS, ok bool) {
	fs = &c13tfFS{dir: c13TempDir(c), docs: map[string]W{}, fails: map[string]string{}}
	seen := map[string]bool{}
	for _, f := range files {
		if seen[f.Name] || f.Name == "" || strings.ContainsAny(f.Name, "/\\") || (f.Kind != "missing" && f.Kind != "dir" && !c13IsDoc(f.Doc)) {
			os.RemoveAll(fs.dir)
			return nil, false
		}
		seen[f.Name] = true
		full := filepath.Join(fs.dir, f.Name)
		switch f.Kind {
		case "missing":
		case "dir":
			_ = os.Mkdir(full, 0o755)
		case "broken":
			_ = os.WriteFile(full, []byte("{ \"a\": [1, 2\n\t- ]: }{\n"), 0o644)
		default:
			data, decoded, good := c13tfControl(f.Name, f.Doc)
			if !good {
				os.RemoveAll(fs.dir)
				return nil, false
			}
			_ = os.WriteFile(full, data, 0o644)
			fs.docs[f.Name] = decoded
		}
		// what the library's own opener / suffix switch / decoder make of the file: the model's parameters
		row := map[string]any{"name": f.Name, "ext": filepath.Ext(f.Name), "open": false, "dec": nil}
		if fh, err := utils.FileOpener(full); err == nil {
			row["open"] = true
			if dec := common.DefaultFileDecoderProvider(full); dec != nil {
				root := map[string]any{}
				var derr error
				if o, _ := guard(func() { derr = dec(fh, &root) }); o == "ok" && derr == nil {
					row["dec"] = plainWireK(root)
				}
			}
			_ = fh.Close()
		}
		fs.rows = append(fs.rows, row)
		st := map[string]any{"name": f.Name, "dir": nil}
		if fi, err := os.Stat(full); err == nil {
			st["dir"] = fi.IsDir()
		}
		fs.stat = append(fs.stat, st)
		switch {
		case f.Kind == "missing", f.Kind == "dir", f.Kind == "broken":
			fs.fails[f.Name] = f.Kind
			delete(fs.docs, f.Name)
		case !map[string]bool{".yaml": true, ".yml": true, ".json": true, ".properties": true}[filepath.Ext(f.Name)]:
			fs.fails[f.Name] = "unrecognised suffix"
			delete(fs.docs, f.Name)
		}
	}
	return fs, true
}

func (fs *c13tfFS) paths(names []string) []string {
	out := make([]string, len(names))
	for i, n := range names {
		out[i] = filepath.Join(fs.dir, n)
	}
	return out
}

func (fs *c13tfFS) known(names []string) bool {
	for _, n := range names {
		if _, ok := fs.docs[n]; !ok {
			if _, bad := fs.fails[n]; !bad {
				return false
			}
		}
	}
	return true
}

// ------------------------------------------------------------------ evaluation

func c13tfEval(c *Ctx, kind string, raw []byte) {
	if !strings.HasPrefix(kind, "tf-") {
		return
	}
	var p c13tfCase
	if err := json.Unmarshal(raw, &p); err != nil {
		panic(err)
	}
	if p.Data != nil && !c13IsDoc(p.Data) {
		return
	}
	p.List = append([]string{}, p.List...) // never JSON null
	switch kind {
	case "tf-isempty":
		c13tfEvalIsEmpty(c, p)
	case "tf-unflatten":
		c13tfEvalUnflatten(c, p)
	case "tf-toyaml":
		c13tfEvalToYaml(c, p)
	case "tf-stat":
		c13tfEvalStat(c, p)
	case "tf-mergefiles":
		c13tfEvalMerge(c, p)
	case "tf-domdiff":
		c13tfEvalDiff(c, p)
	case "tf-tpl":
		c13tfEvalTpl(c, p)
	case "tf-urlquery":
		c13tfEvalQuery(c, p)
	case "tf-op":
		c13tfEvalOp(c, p)
	}
}

func c13tfValueAt(data W, key string) (W, bool) {
	m, _ := wireCont(data)
	v, ok := m[key]
	return v, ok
}

// c13tfDocEmpty: the doc comment of isEmptyFunc — "returns true if given argument is nil, or empty string".
func c13tfDocEmpty(v W, present bool) bool {
	if !present {
		return true
	}
	if !isWireLeaf(v) {
		return false
	}
	m := v.(map[string]any)
	return m["t"] == "nil" || (m["t"] == "string" && m["v"] == "")
}

func c13tfKindOf(v W, present bool) string {
	if !present {
		return "absent"
	}
	if isWireLeaf(v) {
		m := v.(map[string]any)
		if m["t"] == "string" && m["v"] == "" {
			return "empty-string"
		}
		return fmt.Sprint(m["t"])
	}
	if _, ok := v.([]any); ok {
		return "list"
	}
	return "map"
}

func c13tfEvalIsEmpty(c *Ctx, p c13tfCase) {
	if p.Data == nil {
		return
	}
	v, present := c13tfValueAt(p.Data, p.Key)
	c.Dist("tf-isempty:" + c13tfKindOf(v, present))
	c.Nontrivial()
	var out, tag, txt, out2 string
	c13tfEngine(p.Data, func(te pipeline.TemplateEngine, snap map[string]any) {
		out, tag, txt = c13tfRender(te, "{{ isEmpty "+c13tfRef(p.Key)+" }}", snap, nil)
		out2, _, _ = c13tfRender(te, "{{ if isEmpty "+c13tfRef(p.Key)+" }}E{{ else }}N{{ end }}", snap, nil)
	})
	if !c.Direct("tf:isEmpty-renders", tag == "ok", map[string]any{"outcome": tag, "text": txt}) {
		return
	}
	exp := c13tfDocEmpty(v, present)
	c.Direct("tf:isEmpty-true-exactly-for-nil-and-empty-string", out == fmt.Sprint(exp) && out2 == map[bool]string{true: "E", false: "N"}[exp],
		map[string]any{"value": v, "present": present, "rendered": out, "branch": out2})
	args := map[string]any{"fn": "isEmpty"}
	if present {
		args["v"] = v
	}
	c.Corr("tf.isEmpty", out == "true", c.Model("tplFuncs", args))
}

// c13tfPrefixFree: no key is a dotted prefix of another and every segment is non-empty.
func c13tfPrefixFree(flat map[string]any) bool {
	ks := sortedKeys(flat)
	for _, k := range ks {
		for _, s := range strings.Split(k, ".") {
			if s == "" {
				return false
			}
		}
		for _, o := range ks {
			if o != k && strings.HasPrefix(o, k+".") {
				return false
			}
		}
	}
	return true
}

func c13tfEvalUnflatten(c *Ctx, p c13tfCase) {
	if p.Data == nil {
		return
	}
	v, present := c13tfValueAt(p.Data, p.Key)
	flat, isMap := wireCont(v)
	var got any
	var tag, txt string
	var snapBefore, snapAfter W
	c13tfEngine(p.Data, func(te pipeline.TemplateEngine, snap map[string]any) {
		snapBefore = plainWire(snap)
		_, tag, txt = c13tfRender(te, "{{ call .sink (unflatten "+c13tfRef(p.Key)+") }}", snap, &got)
		snapAfter = plainWire(snap)
	})
	c.Direct("tf:unflatten-no-panic", tag != "panic", txt)
	if !present {
		// a missing key is the nil map: unflattens to the empty map
		c.Dist("tf-unflatten:absent")
		m, ok := got.(map[string]any)
		c.Direct("tf:unflatten-of-nothing-is-empty", tag == "ok" && ok && len(m) == 0, map[string]any{"outcome": tag, "text": txt})
		return
	}
	if !isMap {
		c.Dist("tf-unflatten:not-a-map")
		c.Direct("tf:unflatten-rejects-non-map", tag == "err", map[string]any{"outcome": tag, "value": v})
		return
	}
	if !c.Direct("tf:unflatten-renders", tag == "ok", map[string]any{"outcome": tag, "text": txt}) {
		return
	}
	res, ok := got.(map[string]any)
	if !c.Direct("tf:unflatten-returns-map", ok, fmt.Sprintf("%T", got)) {
		return
	}
	rw := plainWire(res)
	if c13tfPrefixFree(flat) {
		// (with a key that is a dotted prefix of another and a MAP as its value, utils.Unflatten descends into that very map
		// object and writes the longer key's value into it: {"a": {}, "a.b": 1} leaves the argument's "a" as {"b": 1}.
		// The argument here is the executor's snapshot, a copy of the data document; flat maps hold scalars in C16's domain.)
		c.Direct("tf:unflatten-input-untouched", canon(snapBefore) == canon(snapAfter), map[string]any{"before": snapBefore, "after": snapAfter})
	} else if canon(snapBefore) != canon(snapAfter) {
		c.Dist("tf-unflatten:argument-edited-in-place(conflicting keys, map value)")
	}
	if len(flat) > 1 {
		c.Nontrivial()
	}
	if c13tfPrefixFree(flat) {
		c.Dist("tf-unflatten:prefix-free")
		// "unflatten of flat keys gives the nested map": walking the result along the key's segments gives the value,
		// and nothing else is in it
		okAll := true
		for k, fv := range flat {
			cur := any(res)
			for _, s := range strings.Split(k, ".") {
				m, isM := cur.(map[string]any)
				if !isM {
					cur = nil
					okAll = false
					break
				}
				cur = m[s]
			}
			if okAll && canon(plainWire(cur)) != canon(fv) {
				okAll = false
			}
		}
		c.Direct("tf:unflatten-gives-nested-map", okAll, map[string]any{"flat": v, "result": rw})
		c.Direct("tf:unflatten-top-keys-are-first-segments", canon(sortedKeys(res)) == canon(c13tfFirstSegs(flat)), map[string]any{"flat": v, "result": rw})
	} else {
		c.Dist("tf-unflatten:conflicting-or-empty-segments")
	}
	c.Corr("tf.unflatten", rw, c.Model("tplFuncs", map[string]any{"fn": "unflatten", "m": v}))
}

func c13tfFirstSegs(flat map[string]any) []string {
	set := map[string]bool{}
	for k := range flat {
		set[strings.SplitN(k, ".", 2)[0]] = true
	}
	return sortedKeys(set)
}

func c13tfEvalToYaml(c *Ctx, p c13tfCase) {
	if p.Data == nil {
		return
	}
	v, present := c13tfValueAt(p.Data, p.Key)
	c.Dist("tf-toyaml:" + c13tfKindOf(v, present))
	var out, tag, txt string
	c13tfEngine(p.Data, func(te pipeline.TemplateEngine, snap map[string]any) {
		out, tag, txt = c13tfRender(te, "{{ toYaml "+c13tfRef(p.Key)+" }}", snap, nil)
	})
	// the encoder is a parameter: its text for the same value
	var plain any
	if present {
		plain = wirePlain(v)
	}
	var buf strings.Builder
	encErr := utils.NewYamlEncoder(&buf).Encode(plain)
	if !c.Direct("tf:toYaml-fails-iff-encoder-fails", (tag == "ok") == (encErr == nil) && tag != "panic", map[string]any{"outcome": tag, "text": txt, "encoder": fmt.Sprint(encErr)}) || tag != "ok" {
		return
	}
	c.Nontrivial()
	// documented effect: the YAML text of the value without its final newline; parsing it gives the value back
	c.Direct("tf:toYaml-is-encoder-text-without-final-newline", out+"\n" == buf.String() || (!strings.HasSuffix(buf.String(), "\n") && out == buf.String()),
		map[string]any{"rendered": out, "encoder": buf.String()})
	var back, ctl any
	e1 := yaml.Unmarshal([]byte(out), &back)
	e2 := yaml.Unmarshal([]byte(buf.String()), &ctl)
	c.Direct("tf:toYaml-parses-back", e1 == nil && e2 == nil && canon(plainWireK(back)) == canon(plainWireK(ctl)), map[string]any{"rendered": out, "back": plainWireK(back), "control": plainWireK(ctl)})
	m := c.Model("tplFuncs", map[string]any{"fn": "toYaml", "text": buf.String(), "err": encErr != nil})
	c.Corr("tf.toYaml", map[string]any{"text": out, "err": false}, m)
}

func c13tfEvalStat(c *Ctx, p c13tfCase) {
	fs, ok := c13tfMakeFS(c, p.Files)
	if !ok {
		return
	}
	defer os.RemoveAll(fs.dir)
	names := []string{"", "nosuch", strings.Repeat("n", 300)}
	for _, f := range p.Files {
		names = append(names, f.Name, f.Name+"/below")
	}
	c13tfEngine(nil, func(te pipeline.TemplateEngine, _ map[string]any) {
		for _, n := range names {
			full := filepath.Join(fs.dir, n)
			if n == "" {
				full = ""
			}
			ex, t1, x1 := c13tfRender(te, "{{ fileExists .f }}", map[string]any{"f": full}, nil)
			dr, t2, x2 := c13tfRender(te, "{{ isDir .f }}", map[string]any{"f": full}, nil)
			if !c.Direct("tf:fileExists/isDir-render", t1 == "ok" && t2 == "ok", map[string]any{"name": n, "text": x1 + x2}) {
				continue
			}
			fi, err := os.Stat(full)
			c.Dist(fmt.Sprintf("tf-stat:exists=%v", err == nil))
			c.Nontrivial()
			// documented: exists iff Stat succeeds, every error means false; isDir iff it is a directory, every error false
			c.Direct("tf:fileExists-iff-stat-succeeds", ex == fmt.Sprint(err == nil), map[string]any{"name": n, "rendered": ex, "stat-error": fmt.Sprint(err)})
			c.Direct("tf:isDir-iff-directory", dr == fmt.Sprint(err == nil && fi.IsDir()), map[string]any{"name": n, "rendered": dr})
			args := map[string]any{"fn": "stat"}
			if err == nil {
				args["dir"] = fi.IsDir()
			}
			c.Corr("tf.stat", map[string]any{"exists": ex == "true", "isDir": dr == "true"}, c.Model("tplFuncs", args))
		}
		// glob / fileGlob expose filepath.Glob
		pat := filepath.Join(fs.dir, p.Q)
		want, werr := filepath.Glob(pat)
		for _, fn := range []string{"glob", "fileGlob"} {
			var got any
			_, tag, txt := c13tfRender(te, "{{ call .sink ("+fn+" .p) }}", map[string]any{"p": pat}, &got)
			if werr != nil {
				c.Direct("tf:"+fn+"-error-iff-filepath.Glob-error", tag == "err", map[string]any{"pattern": p.Q, "outcome": tag})
				continue
			}
			gs, _ := got.([]string)
			c.Direct("tf:"+fn+"-is-filepath.Glob", tag == "ok" && reflect.DeepEqual(append([]string{}, gs...), append([]string{}, want...)),
				map[string]any{"pattern": p.Q, "outcome": tag, "text": txt, "got": gs, "want": want})
		}
	})
}

func c13tfEncode(format string, plain any) (string, error) {
	var buf bytes.Buffer
	var err error
	switch format {
	case "yaml":
		err = dom.DefaultYamlEncoder(&buf, plain)
	case "json":
		err = dom.DefaultJsonEncoder(&buf, plain)
	default:
		err = props.EncoderFn(&buf, plain)
	}
	return buf.String(), err
}

// c13tfModelText turns the text of the model's stand-in encoders ("<format>:<wire JSON of the value>") into the
// text the real encoder of that format writes for that value.
func c13tfModelText(s string) (string, bool) {
	i := strings.Index(s, ":")
	if i < 0 {
		return s, false
	}
	var w any
	if err := json.Unmarshal([]byte(s[i+1:]), &w); err != nil {
		return s, false
	}
	t, err := c13tfEncode(s[:i], wirePlain(w))
	return t, err == nil
}

func c13tfRefFold(fs *c13tfFS, names []string) W {
	var ref W = map[string]any{"m": map[string]any{}}
	for _, n := range names {
		ref = c04RefDoc(ref, fs.docs[n], true)
	}
	return ref
}

func c13tfEvalMerge(c *Ctx, p c13tfCase) {
	fs, ok := c13tfMakeFS(c, p.Files)
	if !ok || !fs.known(p.List) {
		return
	}
	defer os.RemoveAll(fs.dir)
	dup, bad := false, ""
	seen := map[string]bool{}
	for _, n := range p.List {
		dup = dup || seen[n]
		seen[n] = true
		if why, isBad := fs.fails[n]; isBad && bad == "" {
			bad = why
		}
	}
	c.Dist(fmt.Sprintf("tf-mergefiles:files=%d", len(p.List)))
	if dup {
		c.Dist("tf-mergefiles:a-file-named-twice")
	}
	if bad != "" {
		c.Dist("tf-mergefiles:with-a-" + bad + "-file")
	}
	if len(p.List) > 1 {
		c.Nontrivial()
	}
	var got any
	var tag, txt, text, ttag, ttxt string
	var singles []W
	var mw, mw2 W
	c13tfEngine(nil, func(te pipeline.TemplateEngine, _ map[string]any) {
		vars := map[string]any{"files": fs.paths(p.List)}
		_, tag, txt = c13tfRender(te, "{{ call .sink (mergeFiles .files) }}", vars, &got)
		if tag == "ok" {
			if cn, isC := got.(dom.Container); isC && cn != nil {
				mw = nodeWire(cn)
			}
		}
		text, ttag, ttxt = c13tfRender(te, "{{ mergeFiles .files | dom2"+p.Fmt+" }}", vars, nil)
		// repeated: the same list again gives the same document
		var again any
		if _, t2, _ := c13tfRender(te, "{{ call .sink (mergeFiles .files) }}", vars, &again); t2 == "ok" {
			if cn, isC := again.(dom.Container); isC && cn != nil {
				mw2 = nodeWire(cn)
			}
		}
		if bad == "" {
			for _, n := range p.List {
				var one any
				_, t1, _ := c13tfRender(te, "{{ call .sink (mergeFiles .files) }}", map[string]any{"files": fs.paths([]string{n})}, &one)
				if cn, isC := one.(dom.Container); t1 == "ok" && isC && cn != nil {
					singles = append(singles, nodeWire(cn))
				} else {
					singles = append(singles, nil)
				}
			}
		}
	})
	c.Direct("tf:mergeFiles-no-panic", tag != "panic" && ttag != "panic", txt+ttxt)
	model := c.Model("tplFuncs", map[string]any{"fn": "mergeFiles", "fs": fs.rows, "files": p.List})
	implObs := map[string]any{"out": tag}
	if tag == "ok" {
		implObs["doc"] = mw
	}
	if tag == "ok" || tag == "err" {
		mm, _ := model.(map[string]any)
		if mm != nil && mm["out"] == "panic" {
			mm["out"] = "err" // a panic inside a template function is an execution error of the template
		}
		c.Corr("tf.mergeFiles", implObs, model)
	}
	if bad != "" {
		c.Direct("tf:mergeFiles-fails-when-a-file-cannot-be-read", tag == "err" && ttag == "err", map[string]any{"why": bad, "outcome": tag})
		return
	}
	if !c.Direct("tf:mergeFiles-renders", tag == "ok" && mw != nil, map[string]any{"outcome": tag, "text": txt}) {
		return
	}
	c.Direct("tf:mergeFiles-repeatable", canon(mw) == canon(mw2), map[string]any{"first": mw, "second": mw2})
	// mergeFiles [f] equals the parsed file
	for i, n := range p.List {
		c.Direct("tf:mergeFiles-of-one-file-is-the-parsed-file", canon(singles[i]) == canon(fs.docs[n]), map[string]any{"file": n, "impl": singles[i], "parsed": fs.docs[n]})
	}
	if !dup {
		// "merges 0 or more files": the left fold of Merge (lists appended) over the parsed files, in the order given
		ref := c13tfRefFold(fs, p.List)
		c.Direct("tf:mergeFiles-is-left-fold-of-merge", canon(mw) == canon(ref), map[string]any{"impl": mw, "expected": ref})
	}
	// dom2<format>: the encoder's text for the merged document; parsing it gives the document back
	if !c.Direct("tf:dom2"+p.Fmt+"-renders", ttag == "ok", map[string]any{"outcome": ttag, "text": ttxt}) {
		return
	}
	plain := wirePlain(mw)
	switch p.Fmt {
	case "yaml", "json":
		var back map[string]any
		var perr error
		if p.Fmt == "yaml" {
			perr = yaml.Unmarshal([]byte(text), &back)
		} else {
			perr = json.Unmarshal([]byte(text), &back)
		}
		if back == nil {
			back = map[string]any{}
		}
		norm, nerr := c13Normalise(p.Fmt, plain)
		if nerr == nil && !plainHasNonStringKeys(back) {
			c.Direct("tf:dom2"+p.Fmt+"-then-parse-is-identity", perr == nil && canon(plainWire(back)) == canon(plainWire(norm)),
				map[string]any{"text": text, "parsed": plainWire(back), "document": plainWire(norm)})
		}
	}
	enc := c.Model("tplFuncs", map[string]any{"fn": "encInput", "doc": mw})
	if s, isS := enc.(string); isS {
		if want, good := c13tfModelText(p.Fmt + ":" + strings.TrimPrefix(s, "json:")); good {
			if p.Fmt == "properties" {
				c.Corr("tf.dom2"+p.Fmt, c13SortLines(text), c13SortLines(want))
			} else {
				c.Corr("tf.dom2"+p.Fmt, text, want)
			}
		}
	}
}

func c13tfNode(w W) dom.Node {
	if w == nil {
		return nil
	}
	return wireNode(w)
}

func c13tfEvalDiff(c *Ctx, p c13tfCase) {
	kindOf := func(w W) string {
		if w == nil {
			return "nil"
		}
		return wireKind(w)
	}
	c.Dist("tf-domdiff:" + kindOf(p.L) + "/" + kindOf(p.R))
	var got, gotLL any
	var tag, txt, tagLL string
	var direct []diff.Modification
	var l0, r0, l1, r1 W
	c13tfEngine(nil, func(te pipeline.TemplateEngine, _ map[string]any) {
		vars := map[string]any{}
		l, r := c13tfNode(p.L), c13tfNode(p.R)
		if l != nil {
			vars["L"] = l
			l0 = nodeWire(l)
		}
		if r != nil {
			vars["R"] = r
			r0 = nodeWire(r)
		}
		_, tag, txt = c13tfRender(te, "{{ call .sink (domdiff .L .R) }}", vars, &got)
		_, tagLL, _ = c13tfRender(te, "{{ call .sink (domdiff .L .L) }}", vars, &gotLL)
		if l != nil && r != nil && l.IsContainer() && r.IsContainer() {
			direct = *diff.Diff(l.(dom.Container), r.(dom.Container))
		}
		if l != nil {
			l1 = nodeWire(l)
		}
		if r != nil {
			r1 = nodeWire(r)
		}
	})
	// "computes difference between 2 container nodes … otherwise result is empty slice": never an error
	if !c.Direct("tf:domdiff-renders", tag == "ok" && tagLL == "ok", map[string]any{"outcome": tag, "text": txt}) {
		return
	}
	ms, isMods := got.([]diff.Modification)
	if !c.Direct("tf:domdiff-returns-modifications", isMods, fmt.Sprintf("%T", got)) {
		return
	}
	mods := c07ModsWire(ms)
	if kindOf(p.L) == "cont" && kindOf(p.R) == "cont" {
		if canon(p.L) != canon(p.R) {
			c.Nontrivial()
		}
		c.Direct("tf:domdiff-is-Diff-of-the-two-containers", canon(mods) == canon(c07ModsWire(direct)), map[string]any{"impl": mods, "diff.Diff": c07ModsWire(direct)})
	} else {
		c.Direct("tf:domdiff-of-non-containers-is-empty", len(ms) == 0, mods)
	}
	ll, _ := gotLL.([]diff.Modification)
	c.Direct("tf:domdiff-x-x-is-empty", len(ll) == 0, c07ModsWire(ll))
	c.Direct("tf:domdiff-inputs-untouched", canon(l0) == canon(l1) && canon(r0) == canon(r1), map[string]any{"l": l1, "r": r1})
	c.Corr("tf.domDiff", mods, c.Model("tplFuncs", map[string]any{"fn": "domDiff", "l": p.L, "r": p.R}))
}

func c13tfEvalTpl(c *Ctx, p c13tfCase) {
	if p.Data == nil {
		return
	}
	var viaTpl, direct, t1, t2, x1, x2, twice, t3 string
	c13tfEngine(p.Data, func(te pipeline.TemplateEngine, snap map[string]any) {
		vars := map[string]any{}
		for k, v := range snap {
			vars[k] = v
		}
		vars["T"] = p.T
		viaTpl, t1, x1 = c13tfRender(te, "{{ tpl .T . }}", vars, nil)
		direct, t2, x2 = c13tfRender(te, p.T, vars, nil)
		twice, t3, _ = c13tfRender(te, "{{ tpl .T . }}|{{ tpl .T . }}", vars, nil)
	})
	c.Dist("tf-tpl:" + t2)
	c.Nontrivial()
	if strings.Contains(p.T, "template \"tmpl\"") {
		return // refers to the engine's own root template by name: outside the domain
	}
	// tpl renders its first argument as a template over its second
	c.Direct("tf:tpl-no-panic", t1 != "panic", x1)
	c.Direct("tf:tpl-fails-iff-the-inner-template-fails", (t1 == "ok") == (t2 == "ok"), map[string]any{"tpl": t1 + " " + x1, "direct": t2 + " " + x2})
	if t1 == "ok" && t2 == "ok" {
		c.Direct("tf:tpl-renders-its-argument", viaTpl == direct, map[string]any{"tpl": viaTpl, "direct": direct})
		c.Direct("tf:tpl-twice", t3 == "ok" && twice == direct+"|"+direct, map[string]any{"twice": twice})
	}
}

func c13tfEvalQuery(c *Ctx, p c13tfCase) {
	want, werr := url.ParseQuery(p.Q)
	var got any
	var tag, txt string
	c13tfEngine(nil, func(te pipeline.TemplateEngine, _ map[string]any) {
		_, tag, txt = c13tfRender(te, "{{ call .sink (urlParseQuery .q) }}", map[string]any{"q": p.Q}, &got)
	})
	c.Nontrivial()
	c.Dist(fmt.Sprintf("tf-urlquery:error=%v", werr != nil))
	if werr != nil {
		c.Direct("tf:urlParseQuery-error-iff-url.ParseQuery-error", tag == "err", map[string]any{"q": p.Q, "outcome": tag})
		return
	}
	uv, _ := got.(url.Values)
	c.Direct("tf:urlParseQuery-is-url.ParseQuery", tag == "ok" && reflect.DeepEqual(map[string][]string(uv), map[string][]string(want)),
		map[string]any{"q": p.Q, "outcome": tag, "text": txt, "got": uv, "want": want})
}

// c13tfEvalOp: a TemplateOp whose template calls one of the functions; what it stores, and that it stores nothing else.
func c13tfEvalOp(c *Ctx, p c13tfCase) {
	if p.Data == nil || p.Path == "" || strings.ContainsAny(p.Path, ".[]{}") {
		return
	}
	fs, ok := c13tfMakeFS(c, p.Files)
	if !ok || !fs.known(p.List) {
		return
	}
	defer os.RemoveAll(fs.dir)
	var tmpl string
	call := map[string]any{"k": p.Call}
	first := "nosuch"
	if len(p.Files) > 0 {
		first = p.Files[0].Name
	}
	switch p.Call {
	case "isEmpty":
		tmpl = "{{ isEmpty " + c13tfRef(p.Key) + " }}"
		call["key"] = p.Key
	case "fileExists", "isDir":
		tmpl = fmt.Sprintf("{{ %s %q }}", p.Call, filepath.Join(fs.dir, first))
		call["f"] = first
	case "mergeDom2":
		if p.Fmt != "yaml" && p.Fmt != "json" {
			return
		}
		if len(p.List) == 0 {
			return // splitList of the empty string is [""], not the empty list
		}
		// a []string inside a template: sprig's splitList (its `list` yields []interface{}, which text/template does not
		// accept for a []string parameter)
		tmpl = fmt.Sprintf("{{ mergeFiles (splitList \"|\" %q) | dom2%s }}", strings.Join(fs.paths(p.List), "|"), p.Fmt)
		call["fmt"], call["files"] = p.Fmt, p.List
	default:
		return
	}
	c.Dist("tf-op:" + p.Call)
	c.Nontrivial()
	var rendered, rtag string
	c13tfEngine(p.Data, func(te pipeline.TemplateEngine, snap map[string]any) {
		rendered, rtag, _ = c13tfRender(te, tmpl, snap, nil)
	})
	gd := wireContainer(p.Data)
	tag, txt := c13Exec(gd, &pipeline.TemplateOp{Template: tmpl, Path: p.Path})
	after, snapOK, stxt := c13After(gd)
	if !c.Direct("tf:op-no-panic", tag != "panic" && snapOK, txt+stxt) {
		return
	}
	c.Direct("tf:op-fails-iff-rendering-fails", (tag == "ok") == (rtag == "ok"), map[string]any{"op": tag + " " + txt, "render": rtag})
	am, _ := wireCont(after)
	bm, _ := wireCont(p.Data)
	if tag == "ok" {
		c.Direct("tf:op-stores-the-rendered-text", canon(am[p.Path]) == canon(scalarWire(rendered)), map[string]any{"stored": am[p.Path], "rendered": rendered})
	}
	frame := true
	for k, v := range bm {
		if k != p.Path && canon(am[k]) != canon(v) {
			frame = false
		}
	}
	for k := range am {
		if _, had := bm[k]; !had && k != p.Path {
			frame = false
		}
	}
	c.Direct("tf:op-changes-only-its-target", frame, map[string]any{"before": p.Data, "after": after})
	statRows := []any{}
	for _, s := range fs.stat {
		statRows = append(statRows, s)
	}
	m := c.Model("tplFuncs", map[string]any{"fn": "templateOp", "data": p.Data, "call": call, "path": p.Path, "fs": fs.rows, "stat": statRows})
	if p.Call == "mergeDom2" {
		if mm, isM := m.(map[string]any); isM {
			if d, has := wireCont(mm["data"]); has {
				if leaf, isL := d[p.Path].(map[string]any); isL {
					if s, isS := leaf["v"].(string); isS {
						if real, good := c13tfModelText(s); good {
							leaf["v"] = real
						}
					}
				}
			}
		}
	}
	c.Corr("tf.templateOp", map[string]any{"err": tag != "ok", "data": after}, m)
}

