package main

import (
	"encoding/json"
	"math/rand"
	"time"

	"github.com/rkosegi/yaml-toolkit/diff"
	"github.com/rkosegi/yaml-toolkit/dom"
)

// C07, values with more than one representation.
//
// "Diff of two documents is empty if they are equal", "one Change ... per scalar that differs": whether two scalars
// differ is a question about the VALUES.  A timestamp (what the YAML decoder yields for 2001-12-14T21:59:43+05:45 and
// for 2001-12-14T16:14:43Z) is one instant however it is spelled: the two time.Time values are equal (Leaf.Equals,
// Container.Equals say so) although their fields differ (wall clock, zone).  Documents that hold the same instants in
// other zones are equal documents; documents whose instants differ differ exactly there.
//
// A case holds the two documents in wire form with every time leaf in UTC (the instant), plus, per side, the zone
// offsets (minutes east of UTC) the time leaves are given when the document is built: the i-th time leaf in document
// order (member names sorted, items in order) gets offset Z[i mod len(Z)].

type c07Zoned struct {
	L  W     `json:"l"`
	R  W     `json:"r"`
	ZL []int `json:"zl"`
	ZR []int `json:"zr"`
}

// c07ZoneBuild builds a document whose time leaves are re-expressed in the zones offs names (cyclically, *n counts
// the time leaves met so far).
func c07ZoneBuild(w W, offs []int, n *int) dom.Node {
	switch x := w.(type) {
	case []any:
		items := make([]dom.Node, len(x))
		for i, e := range x {
			items[i] = c07ZoneBuild(e, offs, n)
		}
		return dom.ListNode(items...)
	case map[string]any:
		if c, ok := x["m"].(map[string]any); ok {
			cb := dom.Builder().Container()
			for _, k := range sortedKeys(c) {
				cb.AddValue(k, c07ZoneBuild(c[k], offs, n))
			}
			return cb
		}
		t, _ := x["t"].(string)
		s, _ := x["v"].(string)
		v := scalarFromWire(t, s)
		if tm, ok := v.(time.Time); ok {
			if len(offs) > 0 {
				if off := offs[*n%len(offs)]; off != 0 {
					v = tm.In(time.FixedZone("", off*60))
				}
			}
			*n++
		}
		return dom.LeafNode(v)
	}
	panic("c07ZoneBuild: not a document")
}

// c07Instant: a reported value as the instant it denotes (any other value as it is).
func c07Instant(v any) any {
	if tm, ok := v.(time.Time); ok {
		return tm.UTC()
	}
	return v
}

func c07ModsInstants(ms []diff.Modification) []c07Mod {
	out := make([]c07Mod, 0, len(ms))
	for _, m := range ms {
		out = append(out, c07Mod{string(m.Type), m.Path, scalarWire(c07Instant(m.Value)), scalarWire(c07Instant(m.OldValue))})
	}
	return out
}

// c07TimesUTC: every time leaf of the wire document is an instant spelled in UTC (what the case format asks for).
func c07TimesUTC(w W) (n int, ok bool) {
	ok = true
	var walk func(x W)
	walk = func(x W) {
		switch v := x.(type) {
		case []any:
			for _, e := range v {
				walk(e)
			}
		case map[string]any:
			if c, isCont := v["m"].(map[string]any); isCont {
				for _, e := range c {
					walk(e)
				}
				return
			}
			if t, _ := v["t"].(string); t == "time.Time" {
				s, _ := v["v"].(string)
				tm, isTime := scalarFromWire(t, s).(time.Time)
				if !isTime || canon(scalarWire(tm.UTC())) != canon(scalarWire(tm)) {
					ok = false
				}
				n++
			}
		}
	}
	walk(w)
	return
}

func c07RunZoned(c *Ctx) {
	r := c.Rng
	zones := []int{0, 345, -480, 60, 330, -210}
	genZ := func() []int {
		z := make([]int, 1+r.Intn(3))
		for i := range z {
			z[i] = pick(r, zones)
		}
		return z
	}
	for i := 0; i < c.N(500); i++ {
		c.Tick()
		g := c07Gen(r)
		g.Types = []string{"time", "time", "time", "int", "string"}
		g.PNull = 0.05
		l := g.Doc(r)
		var rr W
		switch k := r.Intn(6); {
		case k == 0:
			rr = g.Doc(r)
		case k <= 2:
			rr = deepCopyW(l)
		default:
			rr = deepCopyW(l)
			for j, n := 0, 1+r.Intn(3); j < n; j++ {
				rr = g.Mutate(r, rr)
			}
		}
		if r.Intn(2) == 0 {
			l, rr = rr, l
		}
		p := c07Zoned{L: l, R: rr, ZL: genZ(), ZR: genZ()}
		if r.Intn(5) == 0 {
			p.ZR = append([]int{}, p.ZL...)
		}
		c.Do("zoned", p)
	}
}

func c07EvalZoned(c *Ctx, raw []byte) {
	var p c07Zoned
	if err := json.Unmarshal(raw, &p); err != nil {
		panic(err)
	}
	if !c07IsDoc(p.L) || !c07IsDoc(p.R) {
		c.Dist("zoned:not-a-document(skipped)")
		return
	}
	nl, okl := c07TimesUTC(p.L)
	nr, okr := c07TimesUTC(p.R)
	if !okl || !okr {
		c.Dist("zoned:time-leaf-not-in-UTC(skipped)")
		return
	}
	for _, z := range append(append([]int{}, p.ZL...), p.ZR...) {
		if z <= -24*60 || z >= 24*60 {
			c.Dist("zoned:offset-out-of-range(skipped)")
			return
		}
	}
	out, txt := guard(func() {
		build := func(w W, z []int) dom.ContainerBuilder {
			n := 0
			return c07ZoneBuild(w, z, &n).(dom.ContainerBuilder)
		}
		l, r := build(p.L, p.ZL), build(p.R, p.ZR)
		lr, rl := diff.Diff(l, r), diff.Diff(r, l)
		ms, back := c07ModsInstants(*lr), c07ModsInstants(*rl)
		same := canon(p.L) == canon(p.R)
		if nl > 0 && nr > 0 && canon(p.ZL) != canon(p.ZR) {
			c.Nontrivial()
			if same {
				c.Dist("zoned:same-instants-other-zones")
			} else {
				c.Dist("zoned:instants-differ")
			}
		} else {
			c.Dist("zoned:no-zone-difference")
		}
		// the library's own notion of equal documents
		c.Direct("equal-documents(Container.Equals)-give-empty-diff", !(l.Equals(r) && r.Equals(l)) || (len(ms) == 0 && len(back) == 0),
			map[string]any{"Diff(L,R)": ms, "Diff(R,L)": back})
		c.Direct("equal-documents-give-empty-diff(the same instants, spelled in other zones)", !same || (len(ms) == 0 && len(back) == 0),
			map[string]any{"Diff(L,R)": ms, "Diff(R,L)": back})
		for _, m := range append(append([]diff.Modification{}, *lr...), *rl...) {
			if m.Type == diff.ModChange && dom.LeafNode(m.Value).Equals(dom.LeafNode(m.OldValue)) {
				c.Direct("a-Change-carries-two-values-that-differ(Leaf.Equals)", false,
					map[string]any{"path": m.Path, "value": scalarWire(m.Value), "old": scalarWire(m.OldValue)})
				break
			}
		}
		ref, refBack := c07RefDiff(p.L, p.R), c07RefDiff(p.R, p.L)
		c.Direct("exactly-the-stated-modifications(reference, on instants)", canon(ms) == canon(ref) && canon(back) == canon(refBack),
			map[string]any{"Diff(L,R)": ms, "reference": ref, "Diff(R,L)": back, "reference(R,L)": refBack})
		lflat, rflat := flattenWire(build(p.L, nil)), flattenWire(build(p.R, nil))
		c.Direct("empty-diff-implies-same-flatten(on instants)", len(ms) != 0 || canon(lflat) == canon(rflat),
			map[string]any{"Flatten(L)": lflat, "Flatten(R)": rflat})
		again := c07ModsInstants(*diff.Diff(build(p.L, p.ZL), build(p.R, p.ZR)))
		c.Direct("repeated-calls-equal", canon(again) == canon(ms), map[string]any{"first": ms, "again": again})
	})
	c.Direct("no-panic", out == "ok", txt)
}

var _ = rand.Int
