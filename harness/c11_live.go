package main

import (
	"encoding/json"
	"fmt"
	"math/rand"

	"github.com/rkosegi/yaml-toolkit/props"
)

// C11 — (live) ONE resolver over a lookup source that CHANGES between Resolve calls.
//
// The lookup of a resolver is a function (props.LookupFn); props.MapLookup reads the map it was given on every call, a
// lookup that walks a document or the environment reads whatever is there at the time of the call.  "Resolving a string
// replaces every placeholder whose key is known …, uses the text after the separator as the default when the key is
// unknown" speaks about the keys known WHEN Resolve is called: a long-lived resolver must answer every call as a resolver
// built at that moment over the same lookup would.

// c11LStep: op "use" resolves In; "put" sets key K to V in the live table; "del" removes key K.
type c11LStep struct {
	Op string `json:"op"`
	In string `json:"in,omitempty"`
	K  string `json:"k,omitempty"`
	V  string `json:"v,omitempty"`
}

// c11Live: one resolver is built over the table Tbl (a Go map handed to props.MapLookup) and then used over the steps,
// the map being edited in place between the uses.
//
// Lk names the lookup the resolver is built over: "" is props.MapLookup(table); "ptr" is a lookup that keeps one string
// per key and hands out a POINTER TO THE STRING IT KEEPS (props.LookupFn returns *string: a lookup over struct fields,
// over a cache, over a map[string]*string does exactly that).  The table of the case is what the lookup answers with:
// Resolve reads through those pointers, every use is still held against the table as the case's steps made it — and
// the strings the lookup keeps must be, after every use, the strings the steps put there.
type c11Live struct {
	D     [3]string   `json:"d"`
	Tbl   [][2]string `json:"tbl"`
	Steps []c11LStep  `json:"steps"`
	Lk    string      `json:"lk,omitempty"`
}

// c11NewResolverLk: a resolver over the given lookup (all three delimiters set), with the lookup budget of the others.
func c11NewResolverLk(d [3]string, ml props.LookupFn) *c11Resolver {
	n := new(int)
	r := props.Builder().Prefix(d[0]).Suffix(d[1]).ValueSeparator(d[2]).LookupFunc(func(k string) *string {
		*n++
		if *n > c11LookupBudget || (c11BudgetHits >= 10 && *n > 400) {
			panic(c11BudgetHit{})
		}
		return ml(k)
	}).MustBuild()
	return &c11Resolver{r: r, n: n}
}

// c11GenLive: a small pool of inputs is resolved again and again while keys of a small pool — ordinary names, names that
// contain the separator, names that look like templates — come, change and go.  The pool of inputs holds, besides grammar
// templates, a plain placeholder for some of the special names (so that the very text that is sometimes a key and
// sometimes "name + separator + default" is what gets resolved).
func c11GenLive(r *rand.Rand, d [3]string) c11Live {
	g := c11NewGen(r, d)
	if r.Intn(2) == 0 {
		g.tkeys = append(g.tkeys, pick(r, append([]string{"u"}, g.keys...))+d[2]+pick(r, []string{"x", "b", "1", ""}))
	}
	l := c11Live{D: d, Tbl: g.table()}
	if r.Intn(3) == 0 {
		// some of the special names are unknown at first
		keep := l.Tbl[:0:0]
		for _, kv := range l.Tbl {
			special := false
			for _, k := range g.tkeys {
				special = special || k == kv[0]
			}
			if !special || r.Intn(2) == 0 {
				keep = append(keep, kv)
			}
		}
		l.Tbl = keep
	}
	var ins []string
	for i, n := 0, 2+r.Intn(2); i < n; i++ {
		ins = append(ins, g.input())
	}
	for _, k := range g.tkeys {
		if r.Intn(2) == 0 {
			ins = append(ins, g.text()+d[0]+k+d[1])
		}
	}
	keyPool := append(append([]string{}, g.keys...), g.tkeys...)
	keyPool = append(keyPool, g.tkeys...) // the special names are edited more often
	n := 4 + r.Intn(7)
	for i := 0; i < n; i++ {
		switch x := r.Intn(20); {
		case x < 10 || i == n-1:
			l.Steps = append(l.Steps, c11LStep{Op: "use", In: pick(r, ins)})
		case x < 17:
			l.Steps = append(l.Steps, c11LStep{Op: "put", K: pick(r, keyPool), V: g.value()})
		default:
			l.Steps = append(l.Steps, c11LStep{Op: "del", K: pick(r, keyPool)})
		}
	}
	return l
}

func c11RunLive(c *Ctx) {
	for i := 0; i < c.N(1200); i++ {
		c.Tick()
		c.Do("live", c11GenLive(c.Rng, c11Triples[i%len(c11Triples)]))
	}
	// the same histories over a lookup that hands out pointers to the strings it keeps
	for i := 0; i < c.N(600); i++ {
		c.Tick()
		l := c11GenLive(c.Rng, c11Triples[i%len(c11Triples)])
		l.Lk = "ptr"
		c.Do("live", l)
	}
}

func c11SortedTbl(m map[string]string) [][2]string {
	out := make([][2]string, 0, len(m))
	for _, k := range sortedKeys(m) {
		out = append(out, [2]string{k, m[k]})
	}
	return out
}

// c11EvalLive: every use of the long-lived resolver is held against the table AS IT IS at that use: the independent
// reference, the model, and a resolver built at that moment over a copy of the table.
func c11EvalLive(c *Ctx, l c11Live) {
	if !c11TripleOK(l.D) {
		c.Dist("live:triple-outside-domain(skipped)")
		return
	}
	type use struct {
		in    string
		out   c11Out
		fresh c11Out
		snap  map[string]string
		edits int
		kept  map[string]string // Lk "ptr": the strings the lookup keeps after this use, where they differ from the table
	}
	var uses []use
	live := c11TblMap(l.Tbl)
	if l.Lk != "" && l.Lk != "ptr" {
		c.Dist("live:lookup-outside-domain(skipped)")
		return
	}
	c.Dist("live:lookup=" + map[string]string{"": "MapLookup", "ptr": "pointer-to-kept-string"}[l.Lk])
	if !c11Timed(func() {
		var cr *c11Resolver
		var store map[string]*string
		if l.Lk == "ptr" {
			store = map[string]*string{}
			for k, v := range live {
				v := v
				store[k] = &v
			}
			cr = c11NewResolverLk(l.D, func(k string) *string { return store[k] }) // nil for a key it does not keep
		} else {
			cr = c11NewResolver(l.D, live) // props.MapLookup(live): reads the live map on every lookup
		}
		edits := 0
		for _, st := range l.Steps {
			switch st.Op {
			case "put":
				live[st.K] = st.V
				if store != nil {
					v := st.V
					store[st.K] = &v
				}
				edits++
			case "del":
				delete(live, st.K)
				if store != nil {
					delete(store, st.K)
				}
				edits++
			case "use":
				snap := make(map[string]string, len(live))
				for k, v := range live {
					snap[k] = v
				}
				u := use{in: st.In, out: cr.resolve(st.In), fresh: c11NewResolver(l.D, snap).resolve(st.In), snap: snap, edits: edits}
				for k, pv := range store {
					if *pv != live[k] {
						if u.kept == nil {
							u.kept = map[string]string{}
						}
						u.kept[k] = *pv
					}
				}
				uses = append(uses, u)
			}
		}
	}) {
		c.Direct("terminates(wall-clock)", false, "live history did not finish within the backstop")
		return
	}
	nontrivial := false
	for i, u := range uses {
		lexed := c11Lex(l.D, u.in)
		if u.edits > 0 {
			c.Dist("live:use-after-edit:" + u.out.R)
			if c11HasPh(lexed) {
				nontrivial = true
			}
		} else {
			c.Dist("live:use-before-any-edit:" + u.out.R)
		}
		ref := c11RefResolve(l.D, u.snap, u.in, c11RefBudget)
		det := map[string]any{"use": i, "in": u.in, "table-at-this-use": c11SortedTbl(u.snap), "impl": u.out, "reference": ref, "fresh-resolver": u.fresh}
		if l.Lk == "ptr" {
			det["lookup"] = "hands out pointers to the strings it keeps"
			det["strings-the-lookup-keeps-that-differ-from-the-table-after-this-use"] = u.kept
			c.Direct("resolving-reads-the-lookup's-values-and-leaves-them-as-they-are", len(u.kept) == 0, det)
		}
		c.DirectF("terminates(step-budget)", u.out.R != "budget", det, c11DivergeFinding(l.D, u.snap))
		c.Direct("no-panic-other-than-circular-reference", u.out.R != "panic", det)
		if u.out.R == "budget" || u.out.R == "panic" {
			continue
		}
		if ref.R != "budget" {
			c.Direct("agrees-with-reference", c11Same(u.out, ref), det)
			c.Direct("circular-reference-only-on-true-cycle", u.out.R != "cycle" || ref.R == "cycle", det)
			c.Direct("true-cycle-is-reported", ref.R != "cycle" || u.out.R == "cycle", det)
		}
		if u.fresh.R != "budget" && u.fresh.R != "panic" {
			c.Direct("resolves-against-the-lookup-as-it-is-now(same answer as a resolver built at this moment)", c11Same(u.out, u.fresh), det)
		}
		m := c.Model("resolve", map[string]any{"d": l.D, "tbl": c11TblWire(c11SortedTbl(u.snap)), "in": []string{u.in}})
		c.Corr("resolve", []any{map[string]any{"bal": c11Balanced(lexed), "ntok": len(lexed), "res": c11Wire(u.out)}}, c11ModelObs(m))
	}
	c.Dist(fmt.Sprintf("live:uses=%d", len(uses)))
	if nontrivial {
		c.Nontrivial()
	}
}

func c11ShrinkLive(raw []byte, emit func(any), tblVariants func([][2]string, func([][2]string))) {
	var l c11Live
	if json.Unmarshal(raw, &l) != nil {
		return
	}
	for i := range l.Steps {
		n := l
		n.Steps = append(append([]c11LStep{}, l.Steps[:i]...), l.Steps[i+1:]...)
		emit(n)
	}
	tblVariants(l.Tbl, func(t [][2]string) { n := l; n.Tbl = t; emit(n) })
	for i, st := range l.Steps {
		set := func(f func(*c11LStep)) {
			n := l
			n.Steps = append([]c11LStep{}, l.Steps...)
			f(&n.Steps[i])
			emit(n)
		}
		for _, v := range c11DropChars(st.In) {
			v := v
			set(func(s *c11LStep) { s.In = v })
		}
		if st.Op == "put" {
			if st.V != "" {
				set(func(s *c11LStep) { s.V = "" })
			}
			for _, v := range c11DropChars(st.V) {
				v := v
				set(func(s *c11LStep) { s.V = v })
			}
		}
	}
}
