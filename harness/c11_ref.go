package main

import "strings"

// Independent reference for C11, written from the property statement (not from
// props/resolver.go): a template is first PARSED into segments — plain text, complete
// placeholders (prefix … matching suffix, with nesting) and an unterminated tail — and
// then EVALUATED by recursive descent:
//
//   - text                                   → itself
//   - unterminated tail                      → verbatim
//   - placeholder with body B:
//       K := eval(B)                          (placeholders nested in the key resolved first)
//       K known                               → eval(value(K))
//       K = k ++ sep ++ d (first sep), k known→ eval(value(k))
//       K = k ++ sep ++ d, k unknown          → eval(d)            (default)
//       otherwise                             → the placeholder's original text, verbatim
//   - a placeholder body that is already being expanded (on the expansion STACK, not merely
//     seen before) is a circular reference.
//
// The reference counts evaluation steps; exceeding the budget is reported as such.

type c11Tmpl struct {
	isPh bool
	text string // text segment / unterminated tail / original text of a placeholder
	body string // placeholder body
}

type c11RefCycle struct{ orig string }
type c11RefBudgetHit struct{}

type c11Ref struct {
	pre, suf, sep string
	tbl           map[string]string
	fn            string // "" = the table alone; otherwise the total lookup function c11FnValue(tbl, fn, ·)
	steps, budget int
	deep          int // the longest expansion path (placeholders open at the same time) met so far
}

// c11RefLastDepth: the longest expansion path of the latest run of the reference (evidence only).
var c11RefLastDepth int

// matchEnd returns the offset of the suffix closing a placeholder whose body starts at from.
func (r *c11Ref) matchEnd(s string, from int) int {
	depth := 0
	for i := from; i < len(s); {
		switch {
		case strings.HasPrefix(s[i:], r.suf):
			if depth == 0 {
				return i
			}
			depth--
			i += len(r.suf)
		case strings.HasPrefix(s[i:], r.pre):
			depth++
			i += len(r.pre)
		default:
			i++
		}
	}
	return -1
}

func (r *c11Ref) parse(s string) []c11Tmpl {
	var out []c11Tmpl
	for len(s) > 0 {
		j := strings.Index(s, r.pre)
		if j < 0 {
			out = append(out, c11Tmpl{text: s})
			break
		}
		if j > 0 {
			out = append(out, c11Tmpl{text: s[:j]})
		}
		k := r.matchEnd(s, j+len(r.pre))
		if k < 0 {
			out = append(out, c11Tmpl{text: s[j:]}) // unterminated tail
			break
		}
		out = append(out, c11Tmpl{isPh: true, text: s[j : k+len(r.suf)], body: s[j+len(r.pre) : k]})
		s = s[k+len(r.suf):]
	}
	return out
}

func (r *c11Ref) lookup(k string) (string, bool) {
	if r.fn != "" {
		return c11FnValue(r.tbl, r.fn, k)
	}
	v, ok := r.tbl[k]
	return v, ok
}

func (r *c11Ref) eval(s string, stack []string) string {
	r.steps++
	if r.steps > r.budget {
		panic(c11RefBudgetHit{})
	}
	var sb strings.Builder
	for _, seg := range r.parse(s) {
		if !seg.isPh {
			sb.WriteString(seg.text)
			continue
		}
		for _, o := range stack {
			if o == seg.body {
				panic(c11RefCycle{seg.body})
			}
		}
		st := append(append([]string{}, stack...), seg.body)
		if len(st) > r.deep {
			r.deep = len(st)
		}
		key := r.eval(seg.body, st)
		val, ok := r.lookup(key)
		if !ok {
			if i := strings.Index(key, r.sep); i >= 0 {
				if val, ok = r.lookup(key[:i]); !ok {
					val, ok = key[i+len(r.sep):], true
				}
			}
		}
		if ok {
			sb.WriteString(r.eval(val, st))
		} else {
			sb.WriteString(seg.text)
		}
	}
	return sb.String()
}

// c11RefResolve runs the reference: outcome "ok" (S), "cycle" (O) or "budget".
func c11RefResolve(d [3]string, tbl map[string]string, s string, budget int) (out c11Out) {
	return c11RefResolveFn(d, tbl, "", s, budget)
}

// c11RefResolveFn: the same against a lookup function (see c11FnValue).
func c11RefResolveFn(d [3]string, tbl map[string]string, fn string, s string, budget int) (out c11Out) {
	r := &c11Ref{pre: d[0], suf: d[1], sep: d[2], tbl: tbl, fn: fn, budget: budget}
	defer func() {
		c11RefLastDepth = r.deep
		if x := recover(); x != nil {
			switch e := x.(type) {
			case c11RefCycle:
				out = c11Out{R: "cycle", O: e.orig}
			case c11RefBudgetHit:
				out = c11Out{R: "budget"}
			default:
				panic(x)
			}
		}
	}()
	return c11Out{R: "ok", S: r.eval(s, nil)}
}
