package main

import (
	"fmt"
	"math/rand"

	"github.com/rkosegi/yaml-toolkit/dom"
	"github.com/rkosegi/yaml-toolkit/pipeline"
)

// C13 — routes.  The documented effect of a data operation belongs to the operation as configured,
// whichever way the pipeline gets to run it: directly (Executor.Execute(op)), through the copy
// CloneWith(ctx) makes of it (alone, as member of an OpSpec, of an ActionSpec, of a named step below
// an ActionSpec), or as the body of a forEach — which clones its operations once per item — one or
// two levels deep.  Every case of the kinds set / template / patch / import / roundtrip / export /
// env names its route in `via`; ALL predicates of the kind and the comparison with the model are
// evaluated on the outcome of that route, exactly as on the direct one.
//
// Inside a forEach body the data document holds the item variable(s) while the operation runs; they
// are removed afterwards.  The variables are named outside every key pool, so the only observations
// that can tell are those of the whole document (export / patch with the root as target): those use
// c13Seen — the document as the operation sees it.

const (
	c13ItemVar  = "zz_item"
	c13OuterVar = "zz_outer"
)

var c13Vias = []string{"", "clone", "opspec", "action", "action/steps", "forEach", "forEach/forEach",
	// the OpSpec / ActionSpec holding the operation executed as it is (not its clone), handed to the
	// executor by value and by pointer (both implement Action)
	"opspec/value", "opspec/pointer", "action/value", "action/pointer"}

func c13ViaOK(via string) bool {
	for _, v := range c13Vias {
		if v == via {
			return true
		}
	}
	return false
}

// c13PickVia: the direct route in half of the cases, otherwise one of the others.
func c13PickVia(r *rand.Rand) string {
	if r.Intn(2) == 0 {
		return ""
	}
	return c13Vias[1+r.Intn(len(c13Vias)-1)]
}

// c13ViaVars: the variables a route adds to the document while the operation runs.
func c13ViaVars(via string) [][2]string {
	switch via {
	case "forEach":
		return [][2]string{{c13ItemVar, "i1"}}
	case "forEach/forEach":
		return [][2]string{{c13OuterVar, "o1"}, {c13ItemVar, "i1"}}
	}
	return nil
}

// c13ViaDomain: the case's documents do not use the variable names of its route.
func c13ViaDomain(via string, docs ...W) bool {
	if !c13ViaOK(via) {
		return false
	}
	for _, v := range c13ViaVars(via) {
		for _, d := range docs {
			if dc, ok := wireCont(d); ok {
				if _, in := dc[v[0]]; in {
					return false
				}
			}
		}
	}
	return true
}

// c13Seen: the document as the operation sees it on this route.
func c13Seen(data W, via string) W {
	vars := c13ViaVars(via)
	if len(vars) == 0 {
		return data
	}
	d := deepCopyW(data)
	dc, ok := wireCont(d)
	if !ok {
		return data
	}
	for _, v := range vars {
		dc[v[0]] = scalarWire(v[1])
	}
	return d
}

// c13Unsee removes the route's variables from a reference document built from c13Seen.
func c13Unsee(gd dom.ContainerBuilder, via string) {
	for _, v := range c13ViaVars(via) {
		gd.Remove(v[0])
	}
}

// c13OpSpec wraps one data operation the way a pipeline file holds it.
func c13OpSpec(a pipeline.Action) (pipeline.OpSpec, bool) {
	switch op := a.(type) {
	case *pipeline.SetOp:
		return pipeline.OpSpec{Set: op}, true
	case *pipeline.TemplateOp:
		return pipeline.OpSpec{Template: op}, true
	case *pipeline.PatchOp:
		return pipeline.OpSpec{Patch: op}, true
	case *pipeline.ImportOp:
		return pipeline.OpSpec{Import: op}, true
	case *pipeline.ExportOp:
		return pipeline.OpSpec{Export: op}, true
	case *pipeline.EnvOp:
		return pipeline.OpSpec{Env: op}, true
	}
	return pipeline.OpSpec{}, false
}

func c13ForEach(variable, item string, body pipeline.OpSpec) *pipeline.ForEachOp {
	return &pipeline.ForEachOp{
		Item:     &pipeline.ValOrRefSlice{&pipeline.ValOrRef{Val: item}},
		Variable: &variable,
		Action:   pipeline.ActionSpec{Operations: body},
	}
}

// c13ExecVia runs the operation on the document along the named route.
func c13ExecVia(gd dom.ContainerBuilder, a pipeline.Action, via string) (tag string, txt string) {
	c13Decoy(a) // first an operation of the same kind that fails part-way, elsewhere (c13_more.go)
	if via == "" {
		return c13Exec(gd, a)
	}
	spec, ok := c13OpSpec(a)
	if !ok {
		panic(fmt.Sprintf("c13ExecVia: no OpSpec member for %T", a))
	}
	cloned := func(mk func(ctx pipeline.ActionContext) pipeline.Action) pipeline.Action {
		return &c13Probe{f: func(ctx pipeline.ActionContext) error {
			return ctx.Executor().Execute(mk(ctx))
		}}
	}
	var run pipeline.Action
	switch via {
	case "clone":
		run = cloned(func(ctx pipeline.ActionContext) pipeline.Action { return a.CloneWith(ctx) })
	case "opspec":
		run = cloned(func(ctx pipeline.ActionContext) pipeline.Action { return spec.CloneWith(ctx) })
	case "action":
		run = cloned(func(ctx pipeline.ActionContext) pipeline.Action {
			return pipeline.ActionSpec{Operations: spec}.CloneWith(ctx)
		})
	case "action/steps":
		run = cloned(func(ctx pipeline.ActionContext) pipeline.Action {
			return pipeline.ActionSpec{Children: pipeline.ChildActions{"step": pipeline.ActionSpec{Operations: spec}}}.CloneWith(ctx)
		})
	case "opspec/value":
		run = spec
	case "opspec/pointer":
		run = &spec
	case "action/value":
		run = pipeline.ActionSpec{Operations: spec}
	case "action/pointer":
		run = &pipeline.ActionSpec{Operations: spec}
	case "forEach":
		run = c13ForEach(c13ItemVar, "i1", spec)
	case "forEach/forEach":
		run = c13ForEach(c13OuterVar, "o1", pipeline.OpSpec{ForEach: c13ForEach(c13ItemVar, "i1", spec)})
	default:
		panic("c13ExecVia: unknown route " + via)
	}
	return c13Exec(gd, run)
}

// c13RunVia: every route x every configuration of each operation kind, on one fixed document —
// deterministically, next to the random streams (which draw the route per case).
func c13RunVia(c *Ctx) {
	leaf := func(v any) W { return scalarWire(v) }
	cont := func(m map[string]any) W { return map[string]any{"m": m} }
	data := cont(map[string]any{
		"a": leaf("text"), "n": leaf(7),
		"c": cont(map[string]any{"k": leaf("w"), "only-here": leaf(1), "sub": cont(map[string]any{"x": leaf(true), "y": leaf("keep?")})}),
		"l": []any{leaf(1), cont(map[string]any{"k": leaf("in-list")})},
		"e": cont(map[string]any{}),
	})
	payload := cont(map[string]any{"k": leaf("new"), "sub": cont(map[string]any{"x": leaf(false)}), "p": leaf("q")})
	rootPayload := cont(map[string]any{"c": cont(map[string]any{"k": leaf("new")}), "a": leaf("other"), "fresh": leaf(1)})
	for _, via := range c13Vias {
		for _, st := range []*string{nil, strp("merge"), strp("replace"), strp("bogus")} {
			for _, path := range []string{"c", "c.sub", "a", "l[1]", "e", "fresh.deep"} {
				c.Do("set", c13Set{Data: data, Payload: payload, Path: path, Strategy: st, Via: via})
			}
			c.Do("set", c13Set{Data: data, Payload: rootPayload, Path: "", Strategy: st, Via: via})
		}
		c.Do("set", c13Set{Data: data, Payload: nil, Path: "c", Strategy: strp("replace"), Via: via})
		for _, pa := range []*string{nil, strp("none"), strp("yaml"), strp("bogus")} {
			for _, tr := range []*bool{nil, boolp(false), boolp(true)} {
				c.Do("template", c13Template{Data: data, Path: "c.t", ParseAs: pa, Trim: tr, Via: via,
					Parts: []c13Part{{Lit: " "}, {Ref: "a"}, {Lit: " \n"}}})
				c.Do("template", c13Template{Data: data, Path: "c", ParseAs: pa, Trim: tr, Via: via,
					Parts: []c13Part{{Yaml: cont(map[string]any{"k": leaf("v"), "l": []any{leaf(1), leaf("two")}})}}})
			}
		}
		for _, mode := range []string{"", "text", "binary", "yaml", "json", "properties", "bogus"} {
			content := []byte(" k: [1, 2]\n")
			switch mode {
			case "json":
				content = []byte(`{"k": [1, 2], "m": {"x": null}}`)
			case "properties":
				content = []byte("k.x=1\nk.y=two\n")
			}
			for _, path := range []string{"c.imp", "c", ""} {
				c.Do("import", c13Import{Data: data, Mode: mode, Path: path, Content: content, Via: via})
			}
		}
		for _, f := range []string{"yaml", "json", "properties", "text", "xml"} {
			for _, path := range []string{"c", "c.sub", "a", "n", "l", "absent"} {
				c.Do("export", c13Export{Data: data, Format: f, Path: path, Via: via, Pre: true})
			}
			c.Do("export", c13Export{Data: data, Format: f, NilPath: true, Via: via})
			c.Do("export", c13Export{Data: data, Format: f, ViaRef: true, Path: "c.sub", Via: via})
		}
		for _, f := range []string{"yaml", "json"} {
			c.Do("roundtrip", c13Round{Data: data, Src: "c", Dst: "imp.q", Format: f, Via: via})
			c.Do("roundtrip", c13Round{Data: data, Whole: true, Dst: "imp", Format: f, Via: via, Pre: true})
		}
		for _, op := range []string{"add", "replace", "remove", "test", "move", "copy"} {
			cp := c13Patch{Data: data, Op: op, Path: "/c/k", Via: via}
			switch op {
			case "move", "copy":
				cp.From = "/c/sub"
			case "remove":
			default:
				cp.Value = cont(map[string]any{"v": leaf("s"), "l": []any{leaf(1)}})
			}
			c.Do("patch", cp)
			if op == "add" || op == "replace" || op == "test" {
				c.Do("patch", c13Patch{Data: data, Op: op, Path: "/c/k", ValueFrom: strp("c.sub"), Via: via})
			}
		}
		for _, inc := range []*string{nil, strp("^YTKV_")} {
			for _, exc := range []*string{nil, strp("B")} {
				for _, path := range []string{"", "c", "fresh"} {
					c.Do("env", c13Env{Data: data, Path: path, Include: inc, Exclude: exc, Via: via,
						Env: [][2]string{{"YTKV_A", "1"}, {"YTKV_B", "x y"}, {"OTHER", "o"}}})
				}
			}
		}
	}
}
