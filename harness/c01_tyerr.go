package main

import (
	"encoding/base64"
	"math/rand"
	"regexp"
	"strings"

	"gopkg.in/yaml.v3"
)

// C01, one more input class of "for all YAML texts t ... FromReader(t) returns an error iff the control decode of t
// into a string-keyed map does": texts that are WELL-FORMED YAML, which the decoder therefore reads to the end, but
// which do not convert into a string-keyed map entry by entry — the decoder then hands back whatever did convert
// TOGETHER WITH an error. Such texts are ordinary mappings (rendered from a generated value) into which, at the root
// or at a nested mapping, next to the ordinary entries, one or two entries of these kinds are put:
//
//	complex-key   `? [x, y]` / `? {k: v}` / `? - p` (a sequence or mapping as the member name), flow and block spelling
//	alias-key     an alias to an anchored sequence / mapping used as the member name (`*q : v`)
//	dup-key       a member name that is spelled twice in one mapping
//	scalar-key    non-string scalar names (null, bool, int, float, timestamp) — these do convert at the root
//	merge         `<<:` with a scalar / sequence of scalars (not mergeable)
//
// The clause that judges them is the one every text is judged by (kind "text": error iff the control decode errs,
// else AsMap == decode(t)).

var c01KeyLine = regexp.MustCompile(`^( *)([A-Za-z0-9_"'][^:#\n]*):( |$)`)

// c01OddEntry: the lines of one entry that a string-keyed map cannot hold, or holds only after conversion, for a
// mapping whose entries are indented by ind; key is the name of the entry it is put in front of.
func c01OddEntry(r *rand.Rand, ind, key string) string {
	val := pick(r, []string{"2", "v", "[1, 2]", "{z: 1}", "~", "\"\""})
	switch r.Intn(12) {
	case 0, 1:
		return ind + "? " + pick(r, []string{"[x, y]", "[]", "[[1]]", "[a]"}) + "\n" + ind + ": " + val + "\n"
	case 2:
		return ind + "? " + pick(r, []string{"{k: v}", "{}", "{a: {b: 1}}"}) + "\n" + ind + ": " + val + "\n"
	case 3:
		return ind + "? - p\n" + ind + "  - q\n" + ind + ": " + val + "\n"
	case 4:
		return ind + "? k1: p\n" + ind + "  k2: q\n" + ind + ": " + val + "\n"
	case 5:
		return ind + "anc0: &q0 " + pick(r, []string{"[1, 2]", "{k: v}", "[]"}) + "\n" + ind + "*q0 : " + val + "\n"
	case 6, 7:
		return ind + key + ": " + val + "\n"
	case 8:
		return ind + pick(r, []string{"~", "true", "12", "1.5", "2001-12-14", "null", "0x1F", ".inf"}) + ": " + val + "\n"
	case 9:
		return ind + "<<: " + pick(r, []string{"1", "[1, 2]", "x", "~"}) + "\n"
	case 10:
		return ind + "[x, y]: " + val + "\n"
	default:
		return ind + "{k: v}: " + val + "\n"
	}
}

// c01OddText: a rendered mapping with 1-2 such entries put in front of randomly chosen entries (half of the time of
// the root mapping).
func c01OddText(r *rand.Rand, g *DocGen) []byte {
	b, err := yaml.Marshal(wirePlain(g.Doc(r)))
	if err != nil {
		return []byte("a: 1\n")
	}
	lines := strings.SplitAfter(string(b), "\n")
	for n := 1 + r.Intn(2); n > 0; n-- {
		var root, all []int
		for i, l := range lines {
			if m := c01KeyLine.FindStringSubmatch(l); m != nil {
				all = append(all, i)
				if m[1] == "" {
					root = append(root, i)
				}
			}
		}
		if len(all) == 0 {
			// an empty root mapping (`{}`): the odd entry is the only one
			return []byte(c01OddEntry(r, "", "a"))
		}
		at := all[r.Intn(len(all))]
		if len(root) > 0 && r.Intn(2) == 0 {
			at = root[r.Intn(len(root))]
		}
		m := c01KeyLine.FindStringSubmatch(lines[at])
		odd := c01OddEntry(r, m[1], m[2])
		if r.Intn(4) == 0 && m[1] == "" {
			// after the last entry of the root mapping
			lines = append(lines, odd)
		} else {
			lines = append(append(append([]string{}, lines[:at]...), odd), lines[at:]...)
		}
	}
	return []byte(strings.Join(lines, ""))
}

func c01RunTyErr(c *Ctx) {
	r := c.Rng
	g := stdGen()
	g.MaxDepth = 3
	for i := 0; i < c.N(300); i++ {
		c.Tick()
		c.Do("text", c01Text{"yaml", base64.StdEncoding.EncodeToString(c01OddText(r, g)), "odd-entry"})
	}
}
