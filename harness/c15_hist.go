package main

// C15 — THE CLONING CONTEXT HAS A HISTORY (Hist).
//
// "Cloning any operation or action IN A CONTEXT yields an action that carries over every configured field, rendering
// only template-bearing text fields against the context's DATA": of all the state a context gives access to — the data
// document, the executor's registry of callables (define / call) and of ext action factories, the listener, the template
// engine — the clone may depend on the data, and through the template-bearing fields only.  The other clone cases make
// the clone in the context of a FRESH executor; here the executor has a past: before the clone is made it has executed
// define operations that registered a callable — with a body of their own, a log operation no generated value holds —
// under EVERY text the operation under test holds (original and expected clone: names it defines, names it calls,
// function names, paths, messages, whatever they are), and it has ext action factories registered under the same texts.
// None of this touches the data, so the clone must hold exactly what it holds in a fresh context: the ordinary
// predicates of a clone case apply unchanged.

import (
	"reflect"
	"sort"

	"github.com/rkosegi/yaml-toolkit/dom"
	"github.com/rkosegi/yaml-toolkit/pipeline"
)

const c15HistMarker = "registered-by-an-earlier-operation"

// c15HistNames: the texts of the given values, sorted, at most 40 of them (shorter first).
func c15HistNames(vs ...reflect.Value) []string {
	texts := map[string]bool{}
	for _, v := range vs {
		c15Texts(v, 0, texts)
	}
	names := make([]string, 0, len(texts))
	for t := range texts {
		names = append(names, t)
	}
	sort.Slice(names, func(i, j int) bool {
		if len(names[i]) != len(names[j]) {
			return len(names[i]) < len(names[j])
		}
		return names[i] < names[j]
	})
	if len(names) > 40 {
		names = names[:40]
	}
	return names
}

type c15HistFactory struct{}

func (c15HistFactory) NewForArgs(map[string]interface{}) pipeline.Action {
	return &pipeline.LogOp{Message: c15HistMarker + "(ext)"}
}

// c15WithCtxHist: like c15WithCtx, on an executor that has ext action factories registered under the names and has
// executed, before, one define operation per name (errors of those — an empty name, say — are its own business).
// Returns the number of names that are registered callables when the probe runs.
func c15WithCtxHist(data dom.ContainerBuilder, names []string, f func(ctx pipeline.ActionContext) error) (int, error) {
	reg := map[string]pipeline.ActionFactory{}
	for _, n := range names {
		reg[n] = c15HistFactory{}
	}
	ex := pipeline.New(pipeline.WithData(data), pipeline.WithExtActions(reg))
	for _, n := range names {
		n := n
		_, _ = guard(func() {
			_ = ex.Execute(&pipeline.DefineOp{Name: n, Action: pipeline.ActionSpec{
				Operations: pipeline.OpSpec{Log: &pipeline.LogOp{Message: c15HistMarker}}}})
		})
	}
	registered := 0
	err := ex.Execute(&c15Probe{func(ctx pipeline.ActionContext) error {
		for _, n := range names {
			if _, ok := ctx.Ext().Get(n); ok {
				registered++
			}
		}
		return f(ctx)
	}})
	return registered, err
}
