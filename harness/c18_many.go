package main

import (
	"encoding/json"
	"fmt"
	"math/rand"

	"github.com/rkosegi/yaml-toolkit/analytics"
	"github.com/rkosegi/yaml-toolkit/dom"
)

// C18, the SCALE of one document set: how many documents it holds and how many DISTINCT tags it has been given.
//
// "A tagged subset contains exactly the documents carrying at least one of the requested tags": whichever tag, and
// however many other tags the same set has seen before - a tag is whatever string was handed to WithTags, and a set
// that indexes a few dozen manifests by environment, region, team, release ... easily sees more distinct tags than
// the five of the small pools.  One case = one set that receives up to a few hundred documents (names from a pool
// somewhat smaller than the number of adds, so re-adds under every policy occur) with tags drawn from a universe of
// 5 ... 1100 distinct strings (sizes just under / at / just over 8, 16, ... 1024 among them), one to three per
// WithTags call, now and then a batch of dozens in one call, also on must-create calls that fail.  At the end and
// at two intermediate points: AsOne() holds all documents in insertion order; TaggedSubset is asked for EVERY
// distinct tag given so far, one at a time, and for some sets of several tags (a never-given tag among them); the
// names must be exactly the documents carrying one of the tags, in insertion order, each layer the registered
// document.  Direct predicates only (the reference is the property text; thousands of queries are slow through the
// model's JSON pipe).

type c18ManyOp struct {
	Name string     `json:"name"`
	Tags [][]string `json:"tags"`          // one WithTags option per entry
	Pol  string     `json:"pol,omitempty"` // "" | merge | must
}

type c18Many struct {
	Ops     []c18ManyOp `json:"ops"`
	Queries [][]string  `json:"queries"` // sets of several tags (every single tag given is asked anyway)
}

var c18ManyUniverse = []int{5, 7, 8, 9, 15, 16, 17, 31, 32, 33, 63, 64, 65, 66, 100, 127, 128, 129, 200, 255, 256, 257, 400, 600, 1023, 1024, 1025, 1100}

func c18ManyTag(i int) string {
	switch i % 7 {
	case 0:
		return fmt.Sprintf("env-%d", i)
	case 1:
		return fmt.Sprintf("team/%03d", i)
	case 2:
		return fmt.Sprintf("region=%d", i)
	default:
		return fmt.Sprintf("g%d", i)
	}
}

func c18GenMany(r *rand.Rand, universe, adds int) c18Many {
	pool := append([]string{}, c18Tags...)
	for i := 0; len(pool) < universe; i++ {
		pool = append(pool, c18ManyTag(i))
	}
	pool = pool[:universe]
	r.Shuffle(len(pool), func(i, j int) { pool[i], pool[j] = pool[j], pool[i] })
	nNames := 1 + adds*2/3
	cs := c18Many{Ops: []c18ManyOp{}, Queries: [][]string{}}
	// tags are handed out roughly in pool order (a set meets new tags as new manifests arrive) with returns to
	// earlier ones, so that the whole universe has been given by the end of the history
	next := 0
	draw := func() string {
		if next < len(pool) && r.Intn(3) > 0 {
			next++
			return pool[next-1]
		}
		if next == 0 {
			return pool[0]
		}
		return pool[r.Intn(next)]
	}
	for i := 0; i < adds; i++ {
		op := c18ManyOp{Name: fmt.Sprintf("doc-%03d", r.Intn(nNames)), Tags: [][]string{}}
		for n := []int{0, 1, 1, 1, 2}[r.Intn(5)]; n > 0; n-- {
			k := 1 + r.Intn(3)
			if r.Intn(12) == 0 {
				k = 10 + r.Intn(70) // a batch in one call
			}
			// what is left of the universe is spread over the adds that are left
			if left := (len(pool) - next) / (adds - i); k < left {
				k = left + r.Intn(3)
			}
			ts := make([]string, k)
			for j := range ts {
				ts[j] = draw()
			}
			op.Tags = append(op.Tags, ts)
		}
		switch r.Intn(6) {
		case 0, 1:
			op.Pol = "merge"
		case 2:
			op.Pol = "must"
		}
		cs.Ops = append(cs.Ops, op)
	}
	for n := 6; n > 0; n-- {
		q := make([]string, 2+r.Intn(4))
		for j := range q {
			q[j] = pick(r, pool)
			if r.Intn(6) == 0 {
				q[j] = "never-given"
			}
		}
		cs.Queries = append(cs.Queries, q)
	}
	return cs
}

func c18ManyCases(c *Ctx) {
	r := c.Rng
	for i := 0; i < c.N(14); i++ {
		c.Tick()
		u := pick(r, c18ManyUniverse)
		if r.Intn(4) == 0 {
			u = 5 + r.Intn(1100)
		}
		adds := 20 + r.Intn(120)
		if r.Intn(4) == 0 {
			adds = 150 + r.Intn(250)
		}
		c.Do("manytags", c18GenMany(r, u, adds))
	}
}

// c18ManyShrink: whole blocks of adds / queries first (a failure of this kind may need dozens of adds).
func c18ManyShrink(raw []byte) [][]byte {
	var cs c18Many
	if err := json.Unmarshal(raw, &cs); err != nil {
		return nil
	}
	var out [][]byte
	emit := func(x c18Many) {
		if x.Ops == nil {
			x.Ops = []c18ManyOp{}
		}
		if x.Queries == nil {
			x.Queries = [][]string{}
		}
		if b, err := json.Marshal(x); err == nil && len(b) < len(raw) {
			out = append(out, b)
		}
	}
	if len(cs.Queries) > 0 {
		emit(c18Many{Ops: cs.Ops})
	}
	for size := len(cs.Ops) / 2; size >= 2; size /= 2 {
		for at := 0; at < len(cs.Ops); at += size {
			end := at + size
			if end > len(cs.Ops) {
				end = len(cs.Ops)
			}
			emit(c18Many{Ops: append(append([]c18ManyOp{}, cs.Ops[:at]...), cs.Ops[end:]...), Queries: cs.Queries})
		}
	}
	// all tags of one add in one WithTags call
	for i, op := range cs.Ops {
		if len(op.Tags) > 1 {
			ops := append([]c18ManyOp{}, cs.Ops...)
			var all []string
			for _, ts := range op.Tags {
				all = append(all, ts...)
			}
			ops[i] = c18ManyOp{Name: op.Name, Tags: [][]string{all}, Pol: op.Pol}
			emit(c18Many{Ops: ops, Queries: cs.Queries})
		}
	}
	return out
}

func c18SizeBucket(n int) string {
	for _, t := range []int{8, 16, 32, 64, 128, 256, 512, 1024} {
		if n < t {
			return fmt.Sprintf("<%d", t)
		}
		if n == t {
			return fmt.Sprintf("=%d", t)
		}
	}
	return ">1024"
}

func c18EvalMany(c *Ctx, raw []byte) {
	var cs c18Many
	if err := json.Unmarshal(raw, &cs); err != nil {
		panic(err)
	}
	if len(cs.Ops) > 5000 {
		return
	}
	ds := analytics.NewDocumentSet()
	// reference state, from the property text
	order := []string{}
	docs := map[string]dom.ContainerBuilder{}
	ids := map[string]int{}
	tags := map[string]map[string]bool{}
	given := map[string]bool{"*": true} // every tag handed to WithTags so far (also on calls that failed)
	readds := 0
	expect := func(q []string) []string {
		out := []string{}
		for _, n := range order {
			for _, t := range q {
				if tags[n][t] {
					out = append(out, n)
					break
				}
			}
		}
		return out
	}
	queries := func(step int) bool {
		ok := true
		out, txt := guard(func() {
			asOne := ds.AsOne()
			ok = c.Direct("AsOne-all-in-insertion-order", canon(append([]string{}, asOne.LayerNames()...)) == canon(order),
				map[string]any{"step": step, "got": asOne.LayerNames(), "want": order}) && ok
			layers := asOne.Layers()
			for _, n := range order {
				want := map[string]any{"m": map[string]any{"id": scalarWire(ids[n])}}
				if got := nodeWire(layers[n]); canon(got) != canon(want) {
					ok = c.Direct("layer-content-is-registered-document", false, map[string]any{"step": step, "view": "AsOne", "layer": n, "got": got, "want": want}) && ok
				}
				if got := ds.NamedDocument(n); got != docs[n] {
					ok = c.Direct("NamedDocument-is-the-registered-instance", false, map[string]any{"step": step, "name": n, "served": nodeWire(got), "registered": nodeWire(docs[n])}) && ok
				}
			}
			var qs [][]string
			for _, t := range sortedKeys(given) {
				qs = append(qs, []string{t})
			}
			qs = append(qs, []string{"never-given"})
			qs = append(qs, cs.Queries...)
			for _, q := range qs {
				sub := ds.TaggedSubset(q...)
				got := append([]string{}, sub.LayerNames()...)
				want := expect(q)
				if !c.Direct("subset-names-are-exactly-the-tagged-in-insertion-order", canon(got) == canon(want),
					map[string]any{"step": step, "tags": q, "distinct-tags-given-to-the-set": len(given), "documents": len(order), "got": got, "want": want}) {
					ok = false
					return
				}
				if len(q) > 1 || len(want) == 0 {
					continue
				}
				sl := sub.Layers()
				for _, n := range got {
					want := map[string]any{"m": map[string]any{"id": scalarWire(ids[n])}}
					if w := nodeWire(sl[n]); canon(w) != canon(want) {
						ok = c.Direct("layer-content-is-registered-document", false, map[string]any{"step": step, "view": "TaggedSubset", "tags": q, "layer": n, "got": w, "want": want}) && ok
					}
				}
			}
		})
		return c.Direct("no-panic(queries)", out == "ok", txt) && ok
	}
	check := map[int]bool{len(cs.Ops) / 3: true, 2 * len(cs.Ops) / 3: true}
	for i, op := range cs.Ops {
		doc := wireContainer(map[string]any{"m": map[string]any{"id": scalarWire(i)}})
		callTags := map[string]bool{"*": true}
		var opts []analytics.AddLayerOpt
		for _, ts := range op.Tags {
			opts = append(opts, analytics.WithTags(ts...))
			for _, t := range ts {
				callTags[t], given[t] = true, true
			}
		}
		switch op.Pol {
		case "merge":
			opts = append(opts, analytics.MergeTags())
		case "must":
			opts = append(opts, analytics.MustCreate())
		}
		var err error
		out, txt := guard(func() { err = ds.AddDocument(op.Name, doc, opts...) })
		if !c.Direct("no-panic(add)", out == "ok", map[string]any{"step": i, "panic": txt}) {
			return
		}
		expectErr := false
		if _, exists := docs[op.Name]; exists {
			readds++
			c.Dist("manytags-readd:" + op.Pol)
			switch op.Pol {
			case "must":
				expectErr = true
			case "merge":
				for t := range callTags {
					tags[op.Name][t] = true
				}
			default:
				docs[op.Name], ids[op.Name], tags[op.Name] = doc, i, callTags
			}
		} else {
			order = append(order, op.Name)
			docs[op.Name], ids[op.Name], tags[op.Name] = doc, i, callTags
		}
		if !c.Direct("error-iff-mustcreate-on-existing-or-bad-input", (err != nil) == expectErr, map[string]any{"step": i, "err": errTag(err), "expected_err": expectErr}) {
			return
		}
		if check[i] && i+1 < len(cs.Ops) {
			if !queries(i) {
				return
			}
		}
	}
	queries(len(cs.Ops) - 1)
	if readds > 0 {
		c.Nontrivial()
	}
	c.Dist("manytags-distinct-tags:" + c18SizeBucket(len(given)))
	c.Dist("manytags-documents:" + c18SizeBucket(len(order)))
	most := 0
	for _, ts := range tags {
		if len(ts) > most {
			most = len(ts)
		}
	}
	c.Dist("manytags-most-tags-on-one-document:" + c18SizeBucket(most))
}
