package main

import (
	"encoding/json"
	"fmt"
	"math/big"
	"math/rand"
	"regexp"
	"strings"

	"github.com/rkosegi/yaml-toolkit/dom"
	"github.com/rkosegi/yaml-toolkit/patch"
	"github.com/rkosegi/yaml-toolkit/props"
	"github.com/rkosegi/yaml-toolkit/xform"
)

// C10 — JSON Pointer (RFC 6901): serialise/parse round trips, rejection, Parent/LastSegment,
// evaluation against documents with its trail.

type c10Toks struct {
	Toks []string `json:"toks"`
}

type c10Str struct {
	S string `json:"s"`
}

type c10Eval struct {
	Doc W        `json:"doc"`
	P   []string `json:"p"`
}

// c10EvalHist: evaluation against a document with a history (domhist.go).  "For all documents d" includes the
// documents a program has already evaluated pointers against and edited in place since: every pointer is
// evaluated before every edit and at the end, against the reference evaluation on the content the document
// must hold at that moment and against a freshly built document of that content.
type c10EvalHist struct {
	Doc   W          `json:"doc"`
	Edits []dhEdit   `json:"edits"`
	Ptrs  [][]string `json:"ptrs"`
}

type c10Prop struct {
	Raw string `json:"raw"`
}

var c10Alphabet = []rune{'/', '~', '0', '1', 'a', 'b', 'é', '𝄞'}

func init() {
	register(&Prop{ID: "C10", Run: c10Run,
		Rule: "toks: every token list over {'/','~','0','1','a','b','é','𝄞'} incl. empty tokens with (#tokens + #runes) <= 5 (quick) / 7 (thorough), plus random longer lists over a wider rune pool (white space incl. NBSP and line breaks, syntax look-alikes, supplementary-plane characters, the boundary code points of the UTF-8 length classes, U+FFFD, NUL, a combining mark); " +
			"str: every string over the same alphabet up to length 4/6 (valid or not), every RFC 6901 grammar string up to length 6/8, random longer ones; " +
			"eval: generated documents (member names include '0','1','10','a/b','~','é' and index-group look-alikes: a name followed by a bracket holding non-ASCII decimal digits, a sign, a non-digit or nothing, or not closed / not at the end) with pointers drawn from existing locations, their neighbours (other member, index one past / far past, canonical numerals of 10-65 digits around 2^31, 2^32, 2^63, 2^64, 2^65, 2^128, 10^19, 10^20 and 10^64), " +
			"non-existent ones and a malformed stream (non-numeric, negative, empty tokens against lists; tokens below leaves); evalhist: such a document is given a history of 1-6 in-place edits " +
			"(AddValue / Remove / AddContainer / AddList / Set / MustSet / Append / Clear through nested builders, Lookup or the root's path API, consecutive edits differing in operation or route), and before every edit and at the end a fixed set of pointers " +
			"(locations of every intermediate content and their neighbours) plus every location of the current content is evaluated; prop: dotted property paths with index groups through xform.PointerFromPropPathString. " +
			"Non-trivial: toks/str cases containing '~' or '/' inside a token or an empty token or a multi-byte rune; eval cases whose pointer has >= 2 tokens or meets a list. distinct = distinct canonical case JSON.",
		Assumptions: []string{"strings are valid UTF-8 (Go's []rune conversion maps invalid bytes to U+FFFD; malformed input is not generated, the well-formed character U+FFFD is)",
			"evaluation is compared on tokens that are member names, canonical array indices, or tokens strconv.Atoi rejects / reads as negative; non-canonical numerals (01, +1, -0) against lists are outside the property and not generated",
			"no member name ends in an index group [n] (dom.Child reads it as list access; API invariant, D26)"}})
	evals["C10"] = c10Eval_
	shrinkers["C10"] = c10Shrink
}

// ---------------------------------------------------------------- independent references

// c10InGrammar: RFC 6901 section 3 — json-pointer = *( "/" reference-token ),
// reference-token = *( unescaped / escaped ), escaped = "~" ( "0" / "1" ).
func c10InGrammar(s string) bool {
	if s == "" {
		return true
	}
	rs := []rune(s)
	if rs[0] != '/' {
		return false
	}
	for i := 1; i < len(rs); i++ {
		if rs[i] == '~' {
			if i+1 >= len(rs) || (rs[i+1] != '0' && rs[i+1] != '1') {
				return false
			}
			i++
		}
	}
	return true
}

var c10CanonRe = regexp.MustCompile(`^(0|[1-9][0-9]*)$`)
var c10NumeralRe = regexp.MustCompile(`^[+-]?[0-9]+$`)
var c10NegativeRe = regexp.MustCompile(`^-0*[1-9][0-9]*$`)
var c10IdxSuffixRe = regexp.MustCompile(`\[\d+]$`)

// c10CanonIdx reads an RFC 6901 array index (no leading zeros); indices beyond any list
// length we generate are reported as a very large number.
func c10CanonIdx(tok string) (int, bool) {
	if !c10CanonRe.MatchString(tok) {
		return 0, false
	}
	if len(tok) > 9 {
		return 1 << 40, true
	}
	n := 0
	for _, ch := range tok {
		n = n*10 + int(ch-'0')
	}
	return n, true
}

// c10TokInDomain: canonical index, or not a numeral at all, or a negative numeral;
// and not ending in an index group.
func c10TokInDomain(tok string) bool {
	if c10IdxSuffixRe.MatchString(tok) {
		return false
	}
	if c10CanonRe.MatchString(tok) || !c10NumeralRe.MatchString(tok) {
		return true
	}
	return c10NegativeRe.MatchString(tok)
}

// c10RefWalk evaluates a token list against a wire document per RFC 6901 section 4:
// object member by exact name, array element by canonical index.  It returns the nodes
// visited (the addressed one last) and whether every step existed.
func c10RefWalk(doc W, toks []string) (trail []W, node W, ok bool) {
	cur := doc
	for _, t := range toks {
		switch x := cur.(type) {
		case []any:
			i, isIdx := c10CanonIdx(t)
			if !isIdx || i >= len(x) {
				return trail, nil, false
			}
			cur = x[i]
		case map[string]any:
			c, isCont := x["m"].(map[string]any)
			if !isCont {
				return trail, nil, false // a leaf has no children
			}
			ch, has := c[t]
			if !has {
				return trail, nil, false
			}
			cur = ch
		default:
			return trail, nil, false
		}
		trail = append(trail, cur)
	}
	return trail, cur, true
}

// ---------------------------------------------------------------- generation

func c10TokensFromSymbols(sym []int) []string {
	// sym over 0..8: 8 = token separator; the list starts with an implicit separator
	var toks []string
	var cur strings.Builder
	for _, s := range sym {
		if s == 8 {
			toks = append(toks, cur.String())
			cur.Reset()
		} else {
			cur.WriteRune(c10Alphabet[s])
		}
	}
	return append(toks, cur.String())
}

func c10Enum(n, base int, f func(sym []int)) {
	sym := make([]int, n)
	for {
		f(sym)
		i := n - 1
		for i >= 0 {
			sym[i]++
			if sym[i] < base {
				break
			}
			sym[i] = 0
			i--
		}
		if i < 0 {
			return
		}
	}
}

var c10Runes = []rune{'/', '~', '0', '1', '2', '9', 'a', 'b', 'Z', 'é', '𝄞', '€', ' ', '"', '\\', '-', '+', '.', '[', ']', '\u00a0', '\t',
	// "whatever characters they contain": line breaks, characters that are syntax elsewhere, supplementary-plane
	// characters, the first / last code points of the UTF-8 length classes, U+FFFD (the replacement character is a
	// character like any other when it is well-formed input), control characters, a combining mark, BOM
	'\n', '\r', '{', '}', '(', ')', '=', ':', '#', '!', '%', '?', '&', '\'', '*', 'A', 'ß',
	'\U0001F680', '\U0001D6FC', '\ufffd', '\ufffe', '\uffff', '\U0010FFFF', '\u007f', '\u0080', '\u07ff', '\u0800', '\U00010000', '\x00', '\x01', '\u0301', '\u2028', '\ufeff'}

func c10RandTok(r *rand.Rand) string {
	n := r.Intn(6)
	if r.Intn(5) == 0 {
		n = 0
	}
	var sb strings.Builder
	for i := 0; i < n; i++ {
		if r.Intn(2) == 0 {
			sb.WriteRune(c10Alphabet[r.Intn(len(c10Alphabet))])
		} else {
			sb.WriteRune(c10Runes[r.Intn(len(c10Runes))])
		}
	}
	return sb.String()
}

// c10BracketKeys: member names that LOOK like a name followed by an index group without being one (the excluded
// class is exactly `[` ASCII digits `]` at the end, D26): the bracket holds decimal digits of other scripts
// (Arabic-Indic, Devanagari, fullwidth, mathematical), a mix of those with ASCII digits, a sign, a non-digit, nothing,
// or the group is not at the end / not closed.  "Walks object members by name": each of them is a plain name, also
// when a sibling named like the part before the bracket is a list (the pool holds "a", "k1" and "0").
var c10BracketKeys = []string{"a[\u0663]", "a[\uff11]", "k1[\u0967\u0968]", "a[1\u0660]", "a[\u06f0" + "0]", "0[\U0001d7ce]", "[\u0661]", "a[\u0660][0",
	"a[x]", "a[]", "a[-1]", "a[+1]", "a[ 1]", "a[0]x", "a[0", "a]0[", "a[0]]"}

func c10EvalGen() *DocGen {
	g := stdGen()
	g.Keys = []string{"a", "b", "k1", "x-y", "0", "1", "10", "a/b", "~", "é", "m~n", "\ufffd", "A", " a", "a ", "\U0001F680", "18446744073709551616"}
	g.MaxDepth = 4
	g.PList = 0.5
	return g
}

// c10Locations lists the token paths of all nodes below w.
func c10Locations(w W, prefix []string, out *[][]string) {
	switch x := w.(type) {
	case []any:
		for i, e := range x {
			p := append(append([]string{}, prefix...), fmt.Sprint(i))
			*out = append(*out, p)
			c10Locations(e, p, out)
		}
	case map[string]any:
		if c, ok := x["m"].(map[string]any); ok {
			for _, k := range sortedKeys(c) {
				p := append(append([]string{}, prefix...), k)
				*out = append(*out, p)
				c10Locations(c[k], p, out)
			}
		}
	}
}

var c10Malformed = []string{"x", "-1", "-2", "", "1x", "x1", "~", "/", "a/b", " 1", "1 ", "0x1", "1e0", "١", "é", "--1", "+", "-", "1.0", "99999999999999999999", "-99999999999999999999"}

func c10GenPointer(r *rand.Rand, g *DocGen, doc W) []string {
	var locs [][]string
	c10Locations(doc, nil, &locs)
	far := []string{"5", "8", "17", "100", "4294967296", "9223372036854775807"}
	if r.Intn(2) == 0 {
		// canonical numerals far beyond every list: the powers at which fixed-width integers wrap around (and 10^k,
		// written with the digits 1 and 0 only), and their neighbours
		far = c10WrapNumerals
	}
	mutLast := func(p []string) []string {
		p = append([]string{}, p...)
		if len(p) == 0 {
			return []string{pick(r, g.Keys)}
		}
		switch r.Intn(5) {
		case 0:
			p[len(p)-1] = pick(r, g.Keys)
		case 1:
			p[len(p)-1] = fmt.Sprint(r.Intn(6))
		case 2:
			p[len(p)-1] = pick(r, far)
		case 3:
			p[len(p)-1] = pick(r, c10Malformed)
		default:
			p = append(p, pick(r, append([]string{"0", "1", "2"}, g.Keys...)))
		}
		return p
	}
	if len(locs) == 0 || r.Intn(12) == 0 {
		n := r.Intn(4)
		p := []string{}
		for i := 0; i < n; i++ {
			if r.Intn(3) == 0 {
				p = append(p, fmt.Sprint(r.Intn(4)))
			} else {
				p = append(p, pick(r, g.Keys))
			}
		}
		return p
	}
	p := pick(r, locs)
	switch r.Intn(10) {
	case 0, 1, 2, 3:
		return p
	case 4, 5, 6:
		return mutLast(p)
	case 7:
		// mutate an inner token
		q := append([]string{}, p...)
		i := r.Intn(len(q))
		if r.Intn(2) == 0 {
			q[i] = pick(r, c10Malformed)
		} else {
			q[i] = pick(r, append([]string{"0", "1", "3"}, g.Keys...))
		}
		return q
	case 8:
		// extend below the location (often below a leaf)
		return append(append([]string{}, p...), pick(r, append([]string{"0", "x", ""}, g.Keys...)))
	default:
		return mutLast(mutLast(p))
	}
}

// c10WrapNumerals: B-1, B, B+1, B+2, B+3 for B = 2^31, 2^32, 2^63, 2^64, 2^65, 3*2^64, 2^128, 10^19, 10^20, 10^64.
var c10WrapNumerals = func() []string {
	var out []string
	pow := func(b, e int64) *big.Int { return new(big.Int).Exp(big.NewInt(b), big.NewInt(e), nil) }
	bases := []*big.Int{pow(2, 31), pow(2, 32), pow(2, 63), pow(2, 64), pow(2, 65), new(big.Int).Mul(big.NewInt(3), pow(2, 64)), pow(2, 128),
		pow(10, 19), pow(10, 20), pow(10, 64)}
	for _, b := range bases {
		for d := int64(-1); d <= 3; d++ {
			out = append(out, new(big.Int).Add(b, big.NewInt(d)).String())
		}
	}
	return out
}()

func c10Run(c *Ctx) {
	r := c.Rng
	// --- token lists, exhaustive small scope
	maxTotal := 5
	if c.Thorough() {
		maxTotal = 7
	}
	if !c.searchMode || c.Thorough() {
		c.Do("toks", c10Toks{Toks: []string{}})
		n := 0
		for total := 1; total <= maxTotal; total++ {
			c10Enum(total-1, 9, func(sym []int) {
				c.Tick()
				n++
				c.Do("toks", c10Toks{Toks: c10TokensFromSymbols(sym)})
			})
		}
		c.Note("exhaustive scope: %d token lists with #tokens+#runes <= %d over 8 runes", n, maxTotal)
	}
	for i := 0; i < c.N(2500); i++ {
		c.Tick()
		n := r.Intn(6)
		toks := make([]string, n)
		for j := range toks {
			toks[j] = c10RandTok(r)
		}
		c.Do("toks", c10Toks{Toks: toks})
	}
	// --- strings: all short ones, all grammar strings a bit longer, random long
	allLen, gramLen := 4, 6
	if c.Thorough() {
		allLen, gramLen = 6, 8
	}
	if !c.searchMode || c.Thorough() {
		nAll, nGram := 0, 0
		c.Do("str", c10Str{S: ""})
		for l := 1; l <= gramLen; l++ {
			c10Enum(l, 8, func(sym []int) {
				rs := make([]rune, len(sym))
				for i, s := range sym {
					rs[i] = c10Alphabet[s]
				}
				s := string(rs)
				if l <= allLen {
					c.Tick()
					nAll++
					c.Do("str", c10Str{S: s})
				} else if c10InGrammar(s) {
					c.Tick()
					nGram++
					c.Do("str", c10Str{S: s})
				}
			})
		}
		c.Note("exhaustive scope: all %d strings up to length %d, plus all %d RFC 6901 grammar strings of length %d..%d", nAll, allLen, nGram, allLen+1, gramLen)
	}
	for i := 0; i < c.N(2500); i++ {
		c.Tick()
		var sb strings.Builder
		n := r.Intn(5)
		valid := r.Intn(4) > 0
		if !valid && r.Intn(2) == 0 {
			sb.WriteString(c10RandTok(r)) // no leading slash (unless the token starts with one)
		}
		for j := 0; j < n; j++ {
			sb.WriteRune('/')
			t := c10RandTok(r)
			if valid {
				t = strings.ReplaceAll(strings.ReplaceAll(t, "~", "~0"), "/", "~1")
			}
			sb.WriteString(t)
		}
		c.Do("str", c10Str{S: sb.String()})
	}
	// --- evaluation
	g := c10EvalGen()
	g.Keys = append(g.Keys, c10BracketKeys...)
	for i := 0; i < c.N(1200); i++ {
		c.Tick()
		doc := g.Doc(r)
		for j := 0; j < 4; j++ {
			c.Do("eval", c10Eval{Doc: doc, P: c10GenPointer(r, g, doc)})
		}
	}
	// --- evaluation against documents with a history
	gh := c10EvalGen()
	gh.Keys = append(gh.Keys, c10BracketKeys[:3]...) // (not path-safe names: a few, so the dotted-path routes keep their share)
	gh.ListMax = 5
	for i := 0; i < c.N(400); i++ {
		c.Tick()
		doc := gh.Doc(r)
		h := c10EvalHist{Doc: doc, Edits: dhGenEdits(r, gh, doc, 1+r.Intn(6))}
		cur := W(doc)
		for k := 0; k <= len(h.Edits); k++ {
			for j := 0; j < 2; j++ {
				if p := c10GenPointer(r, gh, cur); c10PtrInDomain(p) {
					h.Ptrs = append(h.Ptrs, p)
				}
			}
			if k < len(h.Edits) {
				// aim at the edited position itself
				at := h.Edits[k].At
				p := make([]string, 0, len(at)+1)
				for _, s := range at {
					p = append(p, fmt.Sprint(s))
				}
				if dhIsListOp(h.Edits[k].Op) {
					p = append(p, fmt.Sprint(h.Edits[k].Idx))
				} else {
					p = append(p, h.Edits[k].Key)
				}
				if c10PtrInDomain(p) {
					h.Ptrs = append(h.Ptrs, p)
				}
				cur, _ = dhApplyRef(cur, h.Edits[k])
			}
		}
		c.Do("evalhist", h)
	}
	// --- xform: property path -> pointer
	keys := []string{"a", "b", "k1", "x-y", "z_9", "0", "12"}
	for i := 0; i < c.N(300); i++ {
		c.Tick()
		n := 1 + r.Intn(4)
		parts := make([]string, n)
		for j := range parts {
			parts[j] = pick(r, keys)
			for k := r.Intn(3); k > 0 && r.Intn(2) == 0; k-- {
				parts[j] += fmt.Sprintf("[%d]", r.Intn(12))
			}
		}
		c.Do("prop", c10Prop{Raw: strings.Join(parts, ".")})
	}
	// --- evaluation never panics, whatever the tokens: pointers whose tokens end in index groups `[n]` (outside the
	// domain of the node comparison, D26 - dom.Child reads them as list access - but inside "never panics"): the group
	// is put behind the token of an existing location (often a list member), n ranges over in-range indices, numerals
	// with leading zeros, and numerals far beyond every list up to and beyond the fixed-width integer limits
	gi := c10EvalGen()
	for i := 0; i < c.N(300); i++ {
		c.Tick()
		doc := gi.Doc(r)
		for j := 0; j < 4; j++ {
			c.Do("eval", c10Eval{Doc: doc, P: c10GenGroupPointer(r, gi, doc)})
		}
	}
}

// c10GenGroupPointer: a pointer to an existing location (or a near miss) with index groups appended to one token.
func c10GenGroupPointer(r *rand.Rand, g *DocGen, doc W) []string {
	var locs [][]string
	c10Locations(doc, nil, &locs)
	var lists [][]string
	for _, p := range locs {
		if _, n, ok := c10RefWalk(doc, p); ok {
			if _, isList := n.([]any); isList {
				lists = append(lists, p)
			}
		}
	}
	var p []string
	switch {
	case len(lists) > 0 && r.Intn(4) != 0:
		p = append([]string{}, pick(r, lists)...)
	case len(locs) > 0 && r.Intn(4) != 0:
		p = append([]string{}, pick(r, locs)...)
	default:
		p = []string{pick(r, g.Keys)}
	}
	group := func() string {
		switch r.Intn(6) {
		case 0, 1:
			return fmt.Sprintf("[%d]", r.Intn(5))
		case 2:
			return "[" + strings.Repeat("0", 1+r.Intn(3)) + fmt.Sprint(r.Intn(12)) + "]"
		case 3:
			return "[" + pick(r, []string{"5", "8", "17", "100", "4294967296", "9223372036854775807"}) + "]"
		default:
			return "[" + pick(r, c10WrapNumerals) + "]"
		}
	}
	i := len(p) - 1
	if r.Intn(5) == 0 {
		i = r.Intn(len(p))
	}
	for {
		p[i] += group()
		if r.Intn(3) != 0 {
			break
		}
	}
	if r.Intn(3) == 0 {
		p = append(p, pick(r, append([]string{"0", "1"}, g.Keys...)))
	}
	return p
}

// ---------------------------------------------------------------- evaluation of a case

func c10PathOf(toks []string) patch.Path {
	p := make(patch.Path, len(toks))
	for i, t := range toks {
		p[i] = patch.PathSegment(t)
	}
	return p
}

func c10ToksOf(p patch.Path) []string {
	out := make([]string, len(p))
	for i, t := range p {
		out[i] = string(t)
	}
	return out
}

func c10Interesting(toks []string) bool {
	for _, t := range toks {
		if t == "" || strings.ContainsAny(t, "~/") || len(t) != len([]rune(t)) {
			return true
		}
	}
	return false
}

func c10SameToks(a, b []string) bool {
	if len(a) != len(b) {
		return false
	}
	for i := range a {
		if a[i] != b[i] {
			return false
		}
	}
	return true
}

func c10OptToks(p patch.Path, err error) any {
	if err != nil {
		return nil
	}
	return c10ToksOf(p)
}

func c10Eval_(c *Ctx, kind string, raw []byte) {
	switch kind {
	case "toks":
		var k c10Toks
		if err := json.Unmarshal(raw, &k); err != nil {
			panic(err)
		}
		if k.Toks == nil {
			k.Toks = []string{}
		}
		if c10Interesting(k.Toks) {
			c.Nontrivial()
		}
		c.Dist(fmt.Sprintf("toks:len=%d", min(len(k.Toks), 6)))
		var s, last string
		var back patch.Path
		var perr error
		var parent []string
		out, txt := guard(func() {
			p := c10PathOf(k.Toks)
			s = p.String()
			back, perr = patch.ParsePath(s)
			parent = c10ToksOf(p.Parent())
			last = string(p.LastSegment())
		})
		if !c.Direct("no-panic", out == "ok", txt) {
			return
		}
		c.Direct("parse-of-string-is-identity", perr == nil && c10SameToks(c10ToksOf(back), k.Toks),
			map[string]any{"string": s, "parsed": c10OptToks(back, perr)})
		wantParent := []string{}
		wantLast := ""
		if len(k.Toks) > 0 {
			wantParent = k.Toks[:len(k.Toks)-1]
			wantLast = k.Toks[len(k.Toks)-1]
		}
		c.Direct("parent-is-all-but-last-token", c10SameToks(parent, wantParent), parent)
		c.Direct("last-segment-is-last-token", last == wantLast, last)
		m := c.Model("toks", map[string]any{"toks": k.Toks})
		c.Corr("toks", map[string]any{"str": s, "parsed": c10OptToks(back, perr), "parent": parent, "last": last}, m)
	case "str":
		var k c10Str
		if err := json.Unmarshal(raw, &k); err != nil {
			panic(err)
		}
		gram := c10InGrammar(k.S)
		if gram {
			c.Dist("str:grammar")
		} else if k.S != "" && !strings.HasPrefix(k.S, "/") {
			c.Dist("str:no-leading-slash")
		} else {
			c.Dist("str:bad-escape")
		}
		var p patch.Path
		var perr error
		var restr any
		out, txt := guard(func() {
			p, perr = patch.ParsePath(k.S)
			if perr == nil {
				restr = p.String()
			}
		})
		if !c.Direct("no-panic", out == "ok", txt) {
			return
		}
		if perr == nil && c10Interesting(c10ToksOf(p)) {
			c.Nontrivial()
		}
		must, _ := guard(func() { _ = patch.MustParsePath(k.S) })
		if perr == nil {
			// repeated use: what the first call returned is the caller's; appending to it (token slices may have spare
			// capacity) and parsing again neither changes the first result nor shows in the second
			o, t := guard(func() {
				want := c10ToksOf(p)
				p1x := append(p, "x1")
				p2, err2 := patch.ParsePath(k.S)
				p2y := append(p2, "y2", "y3")
				p3 := patch.MustParsePath(k.S)
				_ = append(p3, "z")
				c.Direct("parse-twice-independent-results", err2 == nil && c10SameToks(c10ToksOf(p2), want) && c10SameToks(c10ToksOf(p), want) && c10SameToks(c10ToksOf(p3), want) &&
					string(p1x[len(p1x)-1]) == "x1" && string(p2y[len(p2y)-2]) == "y2" && c10SameToks(c10ToksOf(p1x[:len(want)]), want) && p.String() == restr && p2.String() == restr,
					map[string]any{"first": c10ToksOf(p), "second": c10ToksOf(p2), "third": c10ToksOf(p3)})
			})
			c.Direct("no-panic(repeated parse)", o == "ok", t)
		}
		if gram {
			c.Direct("string-of-parse-is-identity", perr == nil && restr == k.S, map[string]any{"parsed": c10OptToks(p, perr), "string": restr})
		}
		if k.S != "" && !strings.HasPrefix(k.S, "/") {
			c.Direct("rejects-missing-leading-slash", perr != nil, c10OptToks(p, perr))
		}
		c.Direct("mustparse-panics-iff-parse-errors", (must == "panic") == (perr != nil), map[string]any{"must": must, "err": errTag(perr)})
		m := c.Model("str", map[string]any{"s": k.S})
		c.Corr("str", map[string]any{"parsed": c10OptToks(p, perr), "restr": restr, "grammar": gram, "must": must}, m)
	case "eval":
		var k c10Eval
		if err := json.Unmarshal(raw, &k); err != nil {
			panic(err)
		}
		if k.P == nil {
			k.P = []string{}
		}
		inDomain := true
		for _, t := range k.P {
			if !c10TokInDomain(t) {
				inDomain = false
			}
		}
		if !inDomain {
			// outside the domain of the node comparison (a token ending in an index group, or a shrink candidate): the
			// addressed node is not compared, but "never panics" has no domain restriction - through every entry point
			c.Dist("eval:out-of-domain")
			out, txt := guard(func() {
				d := wireContainer(k.Doc)
				_, n := c10PathOf(k.P).Eval(d)
				_, n2 := c10PathOf(k.P).Eval(d.Seal())
				if n != nil || n2 != nil {
					c.Dist("eval:out-of-domain:resolves")
				}
				if pp, perr := patch.ParsePath(c10PathOf(k.P).String()); perr == nil {
					pp.Eval(d)
				}
			})
			c.Direct("eval-no-panic(any tokens)", out == "ok", txt)
			if len(k.P) >= 2 {
				c.Nontrivial()
			}
			return
		}
		var trail []any
		var node W
		lastIsNode := true
		out, txt := guard(func() {
			d := wireContainer(k.Doc)
			tr, n := c10PathOf(k.P).Eval(d)
			node = nodeWire(n)
			trail = make([]any, len(tr))
			for i, e := range tr {
				trail[i] = nodeWire(e)
			}
			if n != nil {
				lastIsNode = len(tr) > 0 && tr[len(tr)-1] == n
			}
			// repeated use: the trail of the first call belongs to the caller; a second evaluation (through the sealed
			// view, an equivalent entry point) visits the same node objects, whatever was done with the first trail
			keep := append(dom.NodeList{}, tr...)
			for i := range tr {
				tr[i] = scribbleLeaf
			}
			_ = append(tr, scribbleLeaf)
			tr2, n2 := c10PathOf(k.P).Eval(d.Seal())
			sameObj := func(a, b dom.Node) bool { // a sealed view and its builder are one object
				return (a == nil && b == nil) || (a != nil && b != nil && nodeID(a) == nodeID(b))
			}
			same := sameObj(n2, n) && len(tr2) == len(keep)
			for i := 0; same && i < len(keep); i++ {
				same = sameObj(keep[i], tr2[i])
			}
			c.Direct("eval-twice-same-nodes", same, map[string]any{"first": trail, "second_len": len(tr2)})
			// equivalent entry point: the pointer written as a string and parsed again (round trip clause) addresses the same node
			ptxt := c10PathOf(k.P).String()
			pp, perr := patch.ParsePath(ptxt)
			sameP := perr == nil
			if sameP {
				tr4, n4 := pp.Eval(d)
				sameP = sameObj(n4, n) && len(tr4) == len(keep)
				for i := 0; sameP && i < len(keep); i++ {
					sameP = sameObj(keep[i], tr4[i])
				}
			}
			c.Direct("eval-of-parsed-string-same-nodes", sameP, map[string]any{"string": ptxt, "parsed": c10OptToks(pp, perr), "first": trail})
			// the same content built so that structurally equal subtrees are ONE node object (a block attached at several
			// positions): evaluation is about positions, the result is the same
			dd := heapBuildDag(k.Doc, map[string]dom.Node{}).(dom.Container)
			tr3, n3 := c10PathOf(k.P).Eval(dd)
			trail3 := make([]any, len(tr3))
			for i, e := range tr3 {
				trail3[i] = nodeWire(e)
			}
			c.Direct("eval-same-on-document-with-shared-node-objects", canon(nodeWire(n3)) == canon(node) && canon(trail3) == canon(trail),
				map[string]any{"distinct objects": node, "shared objects": nodeWire(n3)})
		})
		if !c.Direct("eval-no-panic", out == "ok", txt) {
			return
		}
		refTrail, refNode, ok := c10RefWalk(k.Doc, k.P)
		metList := false
		{
			cur := W(k.Doc)
			for _, t := range k.P {
				if _, isList := cur.([]any); isList {
					metList = true
				}
				_, nx, ok2 := c10RefWalk(cur, []string{t})
				if !ok2 {
					break
				}
				cur = nx
			}
		}
		if len(k.P) >= 2 || metList {
			c.Nontrivial()
		}
		if ok {
			c.Dist("eval:resolves")
		} else {
			c.Dist("eval:missing")
		}
		if metList {
			c.Dist("eval:meets-list")
		}
		var want W
		if ok {
			want = refNode
		}
		c.Direct("eval-node-equals-reference", canon(node) == canon(want), map[string]any{"impl": node, "reference": want})
		c.Direct("eval-last-trail-element-is-node", lastIsNode, map[string]any{"trail": trail, "node": node})
		if len(k.P) > 0 {
			rt := []any{}
			for _, e := range refTrail {
				rt = append(rt, e)
			}
			c.Direct("eval-trail-is-nodes-visited", canon(trail) == canon(rt), map[string]any{"impl": trail, "reference": rt})
		}
		m := c.Model("eval", map[string]any{"doc": k.Doc, "p": k.P})
		c.Corr("eval", map[string]any{"node": node, "trail": trail}, c10Pick(m, "node", "trail"))
	case "evalhist":
		c10EvalHistory(c, raw)
	case "prop":
		var k c10Prop
		if err := json.Unmarshal(raw, &k); err != nil {
			panic(err)
		}
		c.Nontrivial()
		var got []string
		var segs []any
		var want []string
		out, txt := guard(func() {
			pp := props.ParsePath(k.Raw)
			for _, s := range pp {
				segs = append(segs, map[string]any{"n": s.IsNum, "i": s.Index, "v": s.Value})
				want = append(want, s.String())
			}
			got = c10ToksOf(xform.PointerFromPropPathString(k.Raw))
		})
		if !c.Direct("no-panic", out == "ok", txt) {
			return
		}
		// (the property text does not speak about xform: compared with the model only)
		_ = want
		m := c.Model("prop", map[string]any{"segs": segs})
		c.Corr("prop", map[string]any{"out": "ok", "p": got}, m)
	}
}

// c10Pick projects a model answer (a JSON object) on some of its keys.
func c10Pick(m any, keys ...string) any {
	o, ok := m.(map[string]any)
	if !ok {
		return m
	}
	out := map[string]any{}
	for _, k := range keys {
		out[k] = o[k]
	}
	return out
}

// c10Shrink: generic JSON shrinking plus rune-wise shrinking of strings.
func c10Shrink(kind string, raw []byte) [][]byte {
	out := shrinkJSON(kind, raw)
	dropRune := func(s string) []string {
		rs := []rune(s)
		var v []string
		for i := range rs {
			v = append(v, string(rs[:i])+string(rs[i+1:]))
		}
		return v
	}
	switch kind {
	case "str", "prop":
		var k map[string]string
		if json.Unmarshal(raw, &k) == nil {
			for key, s := range k {
				for _, t := range dropRune(s) {
					b, _ := json.Marshal(map[string]string{key: t})
					out = append(out, b)
				}
			}
		}
	case "toks":
		var k c10Toks
		if json.Unmarshal(raw, &k) == nil {
			for i, t := range k.Toks {
				for _, t2 := range dropRune(t) {
					n := append([]string{}, k.Toks...)
					n[i] = t2
					b, _ := json.Marshal(c10Toks{Toks: n})
					out = append(out, b)
				}
			}
		}
	}
	return out
}

var _ dom.Node // keep the import when the file is trimmed

func c10PtrInDomain(p []string) bool {
	for _, t := range p {
		if !c10TokInDomain(t) {
			return false
		}
	}
	return true
}

// c10EvalHistory: see c10EvalHist.
func c10EvalHistory(c *Ctx, raw []byte) {
	var k c10EvalHist
	if err := json.Unmarshal(raw, &k); err != nil {
		panic(err)
	}
	if wireKind(k.Doc) != "cont" || !c05KeysOK(k.Doc) {
		return
	}
	for _, e := range k.Edits {
		if e.V != nil && !c05KeysOK(e.V) {
			return
		}
	}
	c.Nontrivial()
	executed := 0
	out, txt := guard(func() {
		d := dhNew(k.Doc, nil)
		evalAll := func(step int) bool {
			ptrs := [][]string{}
			for _, p := range k.Ptrs {
				if c10PtrInDomain(p) {
					ptrs = append(ptrs, p)
				}
			}
			var locs [][]string
			c10Locations(d.exp, nil, &locs)
			if len(locs) > 30 {
				locs = locs[:30]
			}
			nFull := len(ptrs)
			for _, p := range locs {
				if c10PtrInDomain(p) {
					ptrs = append(ptrs, p)
				}
			}
			fresh := wireContainer(d.exp)
			for pi, p := range ptrs {
				tr, n := c10PathOf(p).Eval(d.root)
				if pi >= nFull {
					// the locations of the current content: the addressed node only
					_, refNode, _ := c10RefWalk(d.exp, p)
					if !c.Direct("evalhist:eval-node-equals-reference", canon(nodeWire(n)) == canon(refNode) && len(tr) > 0 && tr[len(tr)-1] == n,
						map[string]any{"pointer": p, "after_edits": step, "impl": nodeWire(n), "reference": refNode, "document_must_hold": d.exp}) {
						return false
					}
					continue
				}
				ftr, fn := c10PathOf(p).Eval(fresh)
				refTrail, refNode, ok := c10RefWalk(d.exp, p)
				var want W
				if ok {
					want = refNode
				}
				trail, ftrail, rt := []any{}, []any{}, []any{}
				for _, e := range tr {
					trail = append(trail, nodeWire(e))
				}
				for _, e := range ftr {
					ftrail = append(ftrail, nodeWire(e))
				}
				for _, e := range refTrail {
					rt = append(rt, e)
				}
				det := map[string]any{"pointer": p, "after_edits": step, "impl": nodeWire(n), "reference": want, "document_must_hold": d.exp}
				good := c.Direct("evalhist:eval-node-equals-reference", canon(nodeWire(n)) == canon(want), det)
				good = c.Direct("evalhist:eval-equals-eval-on-freshly-built-document", canon(nodeWire(n)) == canon(nodeWire(fn)) && canon(trail) == canon(ftrail),
					map[string]any{"pointer": p, "after_edits": step, "document": nodeWire(n), "fresh": nodeWire(fn), "trail": trail, "fresh_trail": ftrail}) && good
				if n != nil {
					good = c.Direct("evalhist:eval-last-trail-element-is-node", len(tr) > 0 && tr[len(tr)-1] == n, det) && good
				}
				if len(p) > 0 {
					good = c.Direct("evalhist:eval-trail-is-nodes-visited", canon(trail) == canon(rt), map[string]any{"pointer": p, "after_edits": step, "impl": trail, "reference": rt}) && good
				}
				if !good {
					return false
				}
			}
			return true
		}
		for i := 0; ; i++ {
			if !evalAll(i) {
				return
			}
			if i >= len(k.Edits) {
				break
			}
			st := d.apply(k.Edits[i])
			c.Dist("evalhist:edit=" + k.Edits[i].Op + ":" + st)
			if st == "skip" {
				continue
			}
			executed++
			if !c.Direct("evalhist:edit-executes", st == "ok", map[string]any{"edit": k.Edits[i], "result": st}) {
				return
			}
		}
		// the document as a whole is what the reference says (the edits went where they were aimed)
		dhReport(c, "evalhist:", len(k.Edits), d.reads(dhReadOpts{Light: true}))
		// the model on the final content, evaluated against the document as it is now
		for i, p := range k.Ptrs {
			if i >= 3 || !c10PtrInDomain(p) {
				continue
			}
			tr, n := c10PathOf(p).Eval(d.root)
			trail := make([]any, len(tr))
			for j, e := range tr {
				trail[j] = nodeWire(e)
			}
			m := c.Model("eval", map[string]any{"doc": d.exp, "p": p})
			c.Corr("eval(after history)", map[string]any{"node": nodeWire(n), "trail": trail}, c10Pick(m, "node", "trail"))
		}
	})
	c.Direct("evalhist:no-panic", out == "ok", txt)
	c.Dist(fmt.Sprintf("evalhist:edits-executed=%d", executed))
}
