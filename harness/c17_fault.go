package main

import (
	"encoding/json"
	"errors"
	"fmt"
	"math"
	"math/rand"
	"os"
	"path/filepath"

	"github.com/rkosegi/yaml-toolkit/dom"
	"github.com/rkosegi/yaml-toolkit/k8s"
	"gopkg.in/yaml.v3"
)

// C17, fault paths of Document.Save: "data and surrounding fields survive load/edit/save ... all other items
// untouched" also when a Save FAILS.  A Save whose embedded-document encoder reports an error has saved nothing, so
// the manifest on disk is still the previous one: it loads, it shows the item maps and the fields outside the data
// sections it showed before the Save, and the embedded document reopens as it was last saved.  After the cause is
// repaired the same handle saves again and the usual clauses hold.
//
// Encoder failures are produced in the two ways the API offers: a document the standard JSON encoder cannot
// represent (a +Inf / -Inf / NaN float leaf under JsonDoc), and a user-supplied EncodeInternalFn handed to
// NewBuilder().Encoder(...) that returns an error either before or after doing the standard encoder's work on the
// in-memory manifest.  (A failing write cannot be produced portably: the checks run as root.)

type c17FaultRound struct {
	Edits  []domEdit `json:"edits"`
	Fault  string    `json:"fault,omitempty"`  // "" | +Inf | -Inf | NaN | enc-before | enc-after
	Path   string    `json:"path,omitempty"`   // where the unrepresentable leaf is put
	Repair string    `json:"repair,omitempty"` // remove | overwrite: what happens to that leaf before the Save is repeated
	Again  int       `json:"again,omitempty"`  // the failing Save is attempted this many more times
}

type c17FaultCase struct {
	Kind   string          `json:"kind"`
	Extra  W               `json:"extra"`
	Text   []c17Item       `json:"text"`
	Bin    []c17Bin        `json:"bin"`
	Mode   string          `json:"mode"` // yaml | json | props
	Item   string          `json:"item"`
	Doc    W               `json:"doc"`
	Via    string          `json:"via"` // open (k8s.YamlDoc/JsonDoc/Properties) | builder | create (NewBuilder with the wrapping encoder)
	Rounds []c17FaultRound `json:"rounds"`
}

func c17GenFault(r *rand.Rand) c17FaultCase {
	e := c17GenEmb(r)
	cs := c17FaultCase{Kind: e.Kind, Extra: e.Extra, Text: e.Text, Bin: e.Bin, Mode: e.Mode, Item: e.Item, Doc: e.Doc, Via: e.Via}
	if cs.Via == "open" && (cs.Mode != "json" || r.Intn(2) == 0) {
		cs.Via = "builder"
	}
	rounds := append([][]domEdit{e.Edits}, e.More...)
	if r.Intn(3) == 0 {
		rounds = append(rounds, []domEdit{})
	}
	var paths, lists []string
	if cs.Doc != nil {
		wirePaths(cs.Doc, "", &paths, &lists)
	}
	keys := []string{"a", "b", "c", "k1", "x-y", "z_9", "ratio"}
	forced := r.Intn(len(rounds))
	for i, es := range rounds {
		if es == nil {
			es = []domEdit{}
		}
		fr := c17FaultRound{Edits: es}
		if i == forced || r.Intn(2) == 0 {
			kinds := []string{}
			if cs.Via != "open" {
				kinds = append(kinds, "enc-before", "enc-after")
			}
			if cs.Mode == "json" {
				kinds = append(kinds, "+Inf", "-Inf", "NaN")
				if cs.Via != "open" {
					kinds = append(kinds, "+Inf", "NaN")
				}
			}
			fr.Fault = pick(r, kinds)
			if fr.Fault[0] != 'e' {
				fr.Path = pick(r, keys)
				switch {
				case len(paths) > 0 && r.Intn(2) == 0:
					fr.Path = pick(r, paths)
					if r.Intn(3) == 0 {
						fr.Path += "." + pick(r, keys)
					}
				case r.Intn(2) == 0:
					fr.Path += "." + pick(r, keys)
				}
				fr.Repair = pick(r, []string{"remove", "overwrite"})
			}
			fr.Again = pick(r, []int{0, 0, 0, 1, 2})
		}
		cs.Rounds = append(cs.Rounds, fr)
	}
	return cs
}

// c17NonFinite: the document holds a float leaf JSON cannot represent.
func c17NonFinite(n dom.Node) bool {
	switch {
	case n == nil:
		return false
	case n.IsContainer():
		for _, e := range n.(dom.Container).Children() {
			if c17NonFinite(e) {
				return true
			}
		}
	case n.IsList():
		for _, e := range n.(dom.List).Items() {
			if c17NonFinite(e) {
				return true
			}
		}
	default:
		if f, ok := n.(dom.Leaf).Value().(float64); ok {
			return math.IsInf(f, 0) || math.IsNaN(f)
		}
	}
	return false
}

// c17Disk: what the manifest file shows to somebody who opens it now.
type c17Disk struct {
	loadErr, openErr error
	items            c17Items
	file             W
	doc              W
	flat             map[string]string
	handle           k8s.Document
}

func c17ReadDisk(file, mode, item string) (d c17Disk) {
	m, err := k8s.ManifestFromFile(file)
	if err != nil || m == nil {
		if err == nil {
			err = errors.New("nil manifest")
		}
		d.loadErr = err
		return
	}
	d.items = c17Observe(m)
	if b, err := os.ReadFile(file); err == nil {
		d.file, _ = c17Decode(b)
	}
	h, err := c17Open(mode, file, item)
	if err != nil || h == nil {
		if err == nil {
			err = errors.New("nil document")
		}
		d.openErr = err
		return
	}
	d.handle = h
	d.doc = nodeWire(h.Document())
	d.flat = c17Stringified(h.Document())
	return
}

func c17EvalFault(c *Ctx, raw []byte) {
	var cs c17FaultCase
	if err := json.Unmarshal(raw, &cs); err != nil {
		panic(err)
	}
	if (cs.Kind != "Secret" && cs.Kind != "ConfigMap") || (cs.Mode != "yaml" && cs.Mode != "json" && cs.Mode != "props") {
		return
	}
	c.Dist("fault-mode:" + cs.Mode)
	c.Dist("fault-via:" + cs.Via)
	dir := c17WorkDir(c)
	defer os.RemoveAll(dir)
	file := filepath.Join(dir, "f.yaml")
	_ = os.Remove(file)

	text := append([]c17Item{}, cs.Text...)
	if cs.Mode != "props" && cs.Doc != nil && cs.Via != "create" {
		text = append(text, c17Item{K: cs.Item, V: scalarWire(c17Serialize(wireContainer(cs.Doc), cs.Mode))})
	}
	// the user-supplied encoder: the standard one, failing on demand
	failing := ""
	var std k8s.EncodeInternalFn
	var dec k8s.DecodeInternalFn
	switch cs.Mode {
	case "yaml":
		dec, std = k8s.DecodeEmbeddedDoc(cs.Item, dom.DefaultYamlDecoder), k8s.EncodeEmbeddedDoc(cs.Item, dom.DefaultYamlEncoder)
	case "json":
		dec, std = k8s.DecodeEmbeddedDoc(cs.Item, dom.DefaultJsonDecoder), k8s.EncodeEmbeddedDoc(cs.Item, dom.DefaultJsonEncoder)
	default:
		dec, std = k8s.DecodeEmbeddedProps(), k8s.EncodeEmbeddedProps()
	}
	injected := errors.New("injected encoder failure")
	enc := func(m k8s.Manifest, node dom.ContainerBuilder) error {
		switch failing {
		case "enc-before":
			return injected
		case "enc-after":
			if err := std(m, node); err != nil {
				return err
			}
			return injected
		}
		return std(m, node)
	}
	var d k8s.Document
	var err error
	out, txt := guard(func() {
		b := k8s.NewBuilder().Manifest(file).Decoder(dec).Encoder(enc)
		if cs.Via == "create" {
			d, err = b.Create(cs.Kind, "nm", k8s.WithNamespace("ns1"))
			return
		}
		body, merr := yaml.Marshal(c17Root(cs.Kind, cs.Extra, text, cs.Bin, false))
		if merr != nil {
			panic(merr)
		}
		if werr := os.WriteFile(file, body, 0o644); werr != nil {
			panic(werr)
		}
		if cs.Via == "open" {
			d, err = c17Open(cs.Mode, file, cs.Item)
		} else {
			d, err = b.Open()
		}
	})
	if !c.Direct("no-panic(open)", out == "ok", txt) {
		return
	}
	if !c.Direct("in-domain-manifest-opens", err == nil && d != nil, fmt.Sprint(err)) {
		return
	}
	var prev c17Disk
	out, txt = guard(func() { prev = c17ReadDisk(file, cs.Mode, cs.Item) })
	if !c.Direct("no-panic(edit-save-reopen)", out == "ok", txt) || prev.loadErr != nil || prev.openErr != nil {
		return
	}
	file0 := prev.file

	for ri, rd := range cs.Rounds {
		at := map[string]any{"round": ri + 1}
		// ---- edits, then (possibly) a Save that fails in the encoder
		fault := rd.Fault
		var saveErrs []error
		var after []c17Disk
		out, txt = guard(func() {
			for _, e := range rd.Edits {
				applyDomEdit(d.Document(), e)
			}
			switch fault {
			case "enc-before", "enc-after":
				if cs.Via == "open" {
					fault = "" // no user-supplied encoder on this handle
				}
			case "+Inf", "-Inf", "NaN":
				if cs.Mode != "json" {
					fault = ""
					break
				}
				f := math.NaN()
				if fault == "+Inf" {
					f = math.Inf(1)
				} else if fault == "-Inf" {
					f = math.Inf(-1)
				}
				d.Document().AddValueAt(rd.Path, dom.LeafNode(f))
				if !c17NonFinite(d.Document()) {
					fault = "" // the path did not take the leaf
				}
			default:
				fault = ""
			}
			if fault == "" {
				return
			}
			if fault[0] == 'e' {
				failing = fault
			}
			for k := 0; k <= rd.Again && k < 4; k++ {
				saveErrs = append(saveErrs, d.Save())
				after = append(after, c17ReadDisk(file, cs.Mode, cs.Item))
			}
			failing = ""
		})
		if !c.Direct("no-panic(failing-Save)", out == "ok", map[string]any{"at": at, "panic": txt}) {
			return
		}
		if fault != "" {
			c.Nontrivial()
			c.Dist("fault:" + fault)
			for k, serr := range saveErrs {
				at := map[string]any{"round": ri + 1, "failing-save": k + 1, "fault": fault}
				if !c.Direct("Save-with-failing-encoder-reports-error", serr != nil, at) {
					return
				}
				now := after[k]
				if !c.Direct("failed-Save-leaves-manifest-loadable", now.loadErr == nil, map[string]any{"at": at, "err": fmt.Sprint(now.loadErr)}) {
					return
				}
				c.Direct("failed-Save-leaves-items-on-disk", canon(now.items) == canon(prev.items), map[string]any{"at": at, "before": prev.items, "after": now.items})
				c.Direct("failed-Save-leaves-non-data-fields", canon(c17NonData(now.file, cs.Kind)) == canon(c17NonData(file0, cs.Kind)),
					map[string]any{"at": at, "got": c17NonData(now.file, cs.Kind), "want": c17NonData(file0, cs.Kind)})
				if c.Direct("failed-Save-leaves-embedded-document-openable", now.openErr == nil, map[string]any{"at": at, "err": fmt.Sprint(now.openErr)}) {
					c.Direct("failed-Save-leaves-embedded-document", canon(now.doc) == canon(prev.doc), map[string]any{"at": at, "before": prev.doc, "after": now.doc})
				}
			}
			// ---- repair
			stillBad := false
			out, txt = guard(func() {
				if fault[0] != 'e' {
					if rd.Repair == "remove" {
						d.Document().RemoveAt(rd.Path)
					}
					if rd.Repair != "remove" || c17NonFinite(d.Document()) {
						d.Document().AddValueAt(rd.Path, dom.LeafNode(0.5))
					}
					stillBad = c17NonFinite(d.Document())
				}
			})
			if !c.Direct("no-panic(edit-save-reopen)", out == "ok", map[string]any{"at": at, "panic": txt}) || stillBad {
				return
			}
		}
		// ---- the Save that works: the usual clauses, against what was on disk before
		var editedW W
		var editedFlat map[string]string
		var saveErr error
		var now c17Disk
		equalsBack := false
		out, txt = guard(func() {
			editedW = nodeWire(d.Document())
			editedFlat = c17Stringified(d.Document())
			if saveErr = d.Save(); saveErr != nil {
				return
			}
			now = c17ReadDisk(file, cs.Mode, cs.Item)
			if now.handle != nil {
				equalsBack = now.handle.Document().Equals(d.Document()) && d.Document().Equals(now.handle.Document())
			}
		})
		if !c.Direct("no-panic(edit-save-reopen)", out == "ok", map[string]any{"at": at, "panic": txt}) {
			return
		}
		if !c.Direct("Save-ok", saveErr == nil, map[string]any{"at": at, "err": fmt.Sprint(saveErr)}) ||
			!c.Direct("saved-manifest-reloads", now.loadErr == nil, map[string]any{"at": at, "err": fmt.Sprint(now.loadErr)}) ||
			!c.Direct("reopen-ok", now.openErr == nil, map[string]any{"at": at, "err": fmt.Sprint(now.openErr)}) {
			return
		}
		if cs.Mode == "props" {
			if c17FlattenLossless(editedW, true) {
				c.Direct("reopened-properties==edited-document(flattened,%v)", canon(now.flat) == canon(editedFlat),
					map[string]any{"at": at, "reopened": now.flat, "edited": editedFlat})
			}
			c.Direct("string-data==flattened-document-exactly", canon(now.items.Str) == canon(editedFlat), map[string]any{"at": at, "items": now.items.Str, "flattened": editedFlat})
		} else {
			c.Direct("reopened==edited-document", canon(now.doc) == canon(editedW), map[string]any{"at": at, "reopened": now.doc, "edited": editedW})
			c.Direct("reopened.Equals(edited)", equalsBack, at)
			for k, v := range prev.items.Str {
				if k == cs.Item {
					continue
				}
				got, ok := now.items.Str[k]
				c.Direct("other-items-unchanged", ok && got == v, map[string]any{"at": at, "key": k, "got": got, "want": v})
			}
			for k := range now.items.Str {
				_, ok := prev.items.Str[k]
				c.Direct("no-item-invented", ok || k == cs.Item, map[string]any{"at": at, "key": k})
			}
		}
		c.Direct("binary-items-unchanged", canon(now.items.Bin) == canon(prev.items.Bin), map[string]any{"at": at, "before": prev.items.Bin, "after": now.items.Bin})
		c.Direct("non-data-fields-preserved", canon(c17NonData(now.file, cs.Kind)) == canon(c17NonData(file0, cs.Kind)), map[string]any{"at": at, "got": c17NonData(now.file, cs.Kind)})
		prev = now
	}
}
