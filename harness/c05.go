package main

import (
	"encoding/json"
	"fmt"
	"math"
	"math/rand"
	"reflect"

	"github.com/rkosegi/yaml-toolkit/dom"
)

// C05 — equality is structural; clones are equal, same-kind and independent.

type c05Pair struct {
	X W `json:"x"`
	Y W `json:"y"`
}

type c05Triple struct {
	X W `json:"x"`
	Y W `json:"y"`
	Z W `json:"z"`
}

type domEdit struct {
	Op   string `json:"op"` // addat | removeat | listappend | listset | listclear
	Path string `json:"path"`
	Idx  int    `json:"idx"`
	V    W      `json:"v,omitempty"`
}

type c05Clone struct {
	X     W         `json:"x"`
	Pre   []domEdit `json:"pre"` // edits applied before Clone (the document's own history)
	Edits []domEdit `json:"edits"`
}

// c05Hist: a document with a history (domhist.go): read through every API, edited in place through
// varying routes (MustSet among them), read again; clones are taken before every edit through every entry
// point (the builder, its sealed view, every nested node incl. nodes attached as sealed views) and must
// still hold what the document held then after all later edits.
type c05Hist struct {
	X     W        `json:"x"`
	Seal  [][]any  `json:"seal,omitempty"`
	Edits []dhEdit `json:"edits"`
}

func init() {
	register(&Prop{ID: "C05", Run: c05Run,
		Rule: "pairs/triples of nodes (containers, lists, leaves) generated as near-misses of one another (one key more/less, one leaf changed, list reordered, kind swapped) and independently; 400 further pairs differ in the member NAMES of one container only, the two name sets having the same size and being two segmentations of one token sequence under a separator (NUL, unit separator, newline, tab, '.', '/', ',', '|', ':', '=', blank, none: {\"a<sep>b\":v,\"c\":v} next to {\"a\":v,\"b<sep>c\":v}), with equal values at equal positions of the sorted name lists — different keys that a comparison of folded key sets identifies (c05_keys.go); one pair in seven differs in ONE leaf by a value-range twin (vr_util.go / c05ValueTwins: float64 +0.0 next to -0.0 — equal scalars: Go's ==, reflect.DeepEqual and cmp.Equal identify them —, -0.0 next to int 0 / \"-0\" / false / null, MaxInt64 and MaxUint64 next to the float64 they round to, denormals next to 0, +Inf next to MaxFloat64 and -Inf, strings that differ by case, a trailing newline, CRLF vs LF, NBSP vs space, Unicode normalisation, case pairs outside ASCII, 20-digit strings one apart, boolean spellings next to booleans) and a third of all nodes carry value-range scalars at some leaves; the expected answer is literally the property's: kind(x)==kind(y) && reflect.DeepEqual(plain(x), plain(y)); thorough tier adds all ordered pairs of all nodes up to 4 nodes over keys {a,b} and scalars {1,2,null}; clone cases edit one side after Clone; heap-clone cases build the document in one of seven ways (FromMap, AddValue/ListNode with own or shared nil leaves, AddContainer/AddList/Set/Append, shared subtrees, containers with an add-and-remove history), encode the real object graph as an explicit heap by pointer identity, Clone, and compare the sharing map (which result node is which input object / a new object) with the heap model, then write in place to every container/list object of the original and of the clone; hist cases give a document a history of 1-6 in-place edits (AddValue / Remove / AddContainer / AddList / Set / MustSet / Append / Clear, through the nested builder, through Lookup, or through the root's path API; consecutive edits differ in operation or route and mostly stay on one node), some nested nodes attached as sealed views whose builders the harness keeps, and before every edit and at the end read the document through every read API (Equals both ways against a freshly built document of the expected content and against its clone, reflexivity, Children/Items walk, Size, AsMap/AsSlice, Flatten, Search, Lookup) and clone it through every entry point (builder, sealed view, every nested node): every clone must still hold the content of its moment after all later edits; deep cases (c05_deep.go, direct predicates only, 17 per quick run) are pairs of chains of 64 .. 100000 nested composites built through the builder API top-down and bottom-up (containers, every n-th level a list, depths on a ladder over 255/256, 1000/1024, 4096, the decoders' nesting limit 10000 and its neighbours, 16384 .. 100000, and two random ones) with the same content or a difference at one level, judged by construction and by a work-list comparison of the two object graphs: reflexive, symmetric, transitive, exactly-when-same-content, sealed views, clone equal / same kind / same content / nothing shared / unchanged by later edits of the original. A case is non-trivial when at least one side is a composite with a child; distinct = distinct canonical case JSON (hash).",
		Assumptions: []string{"scalars are NaN-free; the model's scalars are (Go type, fmt.Sprint text) pairs, on which equality coincides with cmp.Equal except for float64 -0.0 (text \"-0\", yet equal to +0.0): cases in which a negative zero occurs are judged by the direct predicates alone (reference: reflect.DeepEqual on the plain values) and are not sent to the model",
			"keys come from a path-safe pool (no key ends in an index group: the API invariant discussed under D26)",
			"heap tie: a node object is identified by the address its pointer holds (a sealed view and its builder are one object), a children map by the address of its header (Children() returns the map itself); item slices are not observable by identity and are covered by the in-place write probes; leaf values are immutable scalars"}})
	evals["C05"] = c05Eval
	shrinkers["C05"] = c05Shrink
}

func c05Run(c *Ctx) {
	g := stdGen()
	g.MaxDepth = 3
	r := c.Rng
	// pairs and triples are compared, never addressed by path: their keys may be any string that a container
	// can hold (every string that does not end in an index group `[digits]`, which the API itself turns into a
	// list position — D26), so the pool also has keys with dots, brackets around non-numbers, spaces, the
	// empty key and non-ASCII text
	gk := *g
	gk.Keys = append(append([]string{}, g.Keys...), "m[x]", "o[]", "s[+1]", "q]", "[0", "a.b", "", "a b", "ü", "a[1]x")
	anyNode := func() W {
		gg := g
		if r.Intn(3) == 0 {
			gg = &gk
		}
		switch r.Intn(6) {
		case 0:
			return gg.Scalar(r)
		case 1:
			return gg.List(r, 1)
		default:
			return gg.Doc(r)
		}
	}
	for i := 0; i < c.N(3000); i++ {
		c.Tick()
		x := anyNode()
		if r.Intn(3) == 0 {
			x = vrSprinkle(r, x, 0.4, vrOpts{Inf: true})
			c.Dist("pair:value-range-scalars")
		}
		var y W
		switch r.Intn(7) {
		case 0:
			y = anyNode()
		case 1:
			y = deepCopyW(x)
		case 5:
			if r.Intn(2) == 0 {
				// the two sides differ in ONE member name only, by names that a sloppy comparison identifies (case, blanks,
				// Unicode normalisation, a path spelled with another separator)
				x, y = c05KeyTwins(r, g, x)
				c.Dist("pair:twin-member-names")
			} else {
				y = g.Mutate(r, x)
			}
		case 6:
			// the two sides differ in one leaf only, by a value-range twin: scalars next to each other at a boundary of
			// the value range, some of them EQUAL although they print differently (+0.0 / -0.0)
			if a, b, ok := c05ValueTwins(r, x); ok {
				x, y = a, b
				c.Dist("pair:value-range-twins")
			} else {
				y = deepCopyW(x)
			}
		case 2:
			// the two sides differ in one leaf only, by scalars that a sloppy comparison identifies
			// (same text under another type, neighbours beyond 2^53, int vs float of one value)
			if a, b, ok := withTwins(r, x); ok {
				x, y = a, b
				c.Dist("pair:twin-scalars")
			} else {
				y = deepCopyW(x)
			}
		default:
			y = g.Mutate(r, x)
		}
		c.Do("pair", c05Pair{x, y})
	}
	for i := 0; i < c.N(600); i++ {
		c.Tick()
		x := anyNode()
		y := g.Mutate(r, x)
		if r.Intn(2) == 0 {
			y = deepCopyW(x)
		}
		z := g.Mutate(r, y)
		if r.Intn(2) == 0 {
			z = deepCopyW(y)
		}
		c.Do("triple", c05Triple{x, y, z})
	}
	for i := 0; i < c.N(600); i++ {
		c.Tick()
		x := g.Doc(r)
		cl := c05Clone{X: x, Edits: genDomEdits(r, g, x, 1+r.Intn(4))}
		if r.Intn(3) == 0 {
			// a list with a history: items appended to an EMPTY list and cleared again (its content is what it
			// was, its representation may not be), and a non-empty list emptied by Clear
			var ps, lists []string
			wirePaths(x, "", &ps, &lists)
			for _, lp := range lists {
				if r.Intn(2) == 0 {
					cl.Pre = append(cl.Pre, domEdit{Op: "listappend", Path: lp, V: g.Scalar(r)}, domEdit{Op: "listclear", Path: lp})
				}
			}
			if len(lists) == 0 {
				k := pick(r, g.Keys)
				cl.Pre = append(cl.Pre, domEdit{Op: "addat", Path: k, V: []any{}}, domEdit{Op: "listappend", Path: k, V: g.Scalar(r)}, domEdit{Op: "listclear", Path: k})
			}
			c.Dist("clone:list-history")
		}
		if r.Intn(2) == 0 {
			// give the document a history: members added to and removed again from containers
			// (so that they are empty but once-written), then aim the later edits at them
			var conts []string
			wireContPaths(x, "", &conts)
			conts = append(conts, pick(r, g.Keys))
			for k := 0; k < 1+r.Intn(3); k++ {
				cp := pick(r, conts)
				cl.Pre = append(cl.Pre, domEdit{Op: "addat", Path: cp + ".tmp_", V: g.Scalar(r)}, domEdit{Op: "removeat", Path: cp + ".tmp_"})
				if r.Intn(3) > 0 {
					cl.Pre = append(cl.Pre, domEdit{Op: "emptyout", Path: cp})
				}
				cl.Edits = append(cl.Edits, domEdit{Op: "addat", Path: cp + "." + pick(r, g.Keys), V: g.Scalar(r)})
			}
		}
		c.Do("clone", cl)
	}
	// documents with a history (domhist.go)
	gh := *g
	gh.ListMax = 5
	gh.PList = 0.55
	for i := 0; i < c.N(500); i++ {
		c.Tick()
		x := gh.Doc(r)
		h := c05Hist{X: x, Edits: dhGenEdits(r, &gh, x, 1+r.Intn(6))}
		if r.Intn(3) == 0 {
			h.Seal = dhGenSeals(r, x)
		}
		c.Do("hist", h)
	}
	// pointer level: the real object graph against the heap model's sharing map (heap_share.go)
	heapCloneGen(c, g, c.N(700))
	// "the same keys": key sets of equal size that are two segmentations of one token sequence (c05_keys.go)
	for i := 0; i < c.N(400); i++ {
		c.Tick()
		if x, y, ok := c05KeyResplit(r, g, anyNode()); ok {
			c.Dist("pair:resegmented-member-names")
			c.Do("pair", c05Pair{x, y})
			if i%4 == 0 {
				z := deepCopyW(y)
				if r.Intn(2) == 0 {
					z = g.Mutate(r, y)
				}
				c.Do("triple", c05Triple{x, y, z})
			}
		}
	}
	// "for all nodes": deep ones (c05_deep.go); last of the random streams
	c05DeepGen(c)
	if c.Thorough() && !c.searchMode {
		all := enumNodes(4)
		c.Note("exhaustive scope: %d nodes of size <= 4, %d ordered pairs", len(all), len(all)*len(all))
		for _, x := range all {
			for _, y := range all {
				c.Do("pair", c05Pair{x, y})
			}
		}
		// every small node, built in every way, cloned at pointer level
		for i, x := range all {
			for mode := 0; mode < heapBuildModes; mode++ {
				c.Do("heap-clone", heapCloneCase{X: x, Build: mode, Salt: i})
			}
		}
	}
	c05LongRun(c) // long lists, direct predicates only (c05_long.go)
}

// enumNodes enumerates all nodes with at most n nodes over keys {a,b}, scalars {1,2,null}.
func enumNodes(n int) []W {
	memo := map[int][]W{}
	var exact func(k int) []W
	// sequences of nodes with total size k and given length
	var seqs func(k, length int) [][]W
	seqs = func(k, length int) [][]W {
		if length == 0 {
			if k == 0 {
				return [][]W{{}}
			}
			return nil
		}
		var out [][]W
		for first := 1; first <= k-(length-1); first++ {
			for _, h := range exact(first) {
				for _, t := range seqs(k-first, length-1) {
					out = append(out, append([]W{h}, t...))
				}
			}
		}
		return out
	}
	exact = func(k int) []W {
		if v, ok := memo[k]; ok {
			return v
		}
		var out []W
		if k == 1 {
			out = append(out, scalarWire(1), scalarWire(2), scalarWire(nil), []any{}, map[string]any{"m": map[string]any{}})
			memo[k] = out
			return out
		}
		// lists of total size k-1
		for length := 1; length <= k-1; length++ {
			for _, s := range seqs(k-1, length) {
				out = append(out, append([]any{}, s...))
			}
		}
		// containers with keys subsets of {a,b}
		for _, ks := range [][]string{{"a"}, {"b"}, {"a", "b"}} {
			for _, s := range seqs(k-1, len(ks)) {
				m := map[string]any{}
				for i, key := range ks {
					m[key] = s[i]
				}
				out = append(out, map[string]any{"m": m})
			}
		}
		memo[k] = out
		return out
	}
	var all []W
	for k := 1; k <= n; k++ {
		all = append(all, exact(k)...)
	}
	return all
}

// wirePaths lists flatten-style paths of composite and leaf positions reachable through
// containers and lists (used to aim edits at existing places).
func wirePaths(w W, prefix string, out *[]string, lists *[]string) {
	switch x := w.(type) {
	case []any:
		if prefix != "" {
			*lists = append(*lists, prefix)
		}
		for i, e := range x {
			p := fmt.Sprintf("%s[%d]", prefix, i)
			*out = append(*out, p)
			wirePaths(e, p, out, lists)
		}
	case map[string]any:
		if c, ok := x["m"].(map[string]any); ok {
			for _, k := range sortedKeys(c) {
				p := k
				if prefix != "" {
					p = prefix + "." + k
				}
				*out = append(*out, p)
				wirePaths(c[k], p, out, lists)
			}
		}
	}
}

// wireContPaths lists the lookup paths of containers reachable through containers and lists.
func wireContPaths(w W, prefix string, out *[]string) {
	switch x := w.(type) {
	case []any:
		for i, e := range x {
			wireContPaths(e, fmt.Sprintf("%s[%d]", prefix, i), out)
		}
	case map[string]any:
		if c, ok := x["m"].(map[string]any); ok {
			if prefix != "" {
				*out = append(*out, prefix)
			}
			for _, k := range sortedKeys(c) {
				p := k
				if prefix != "" {
					p = prefix + "." + k
				}
				wireContPaths(c[k], p, out)
			}
		}
	}
}

func genDomEdits(r *rand.Rand, g *DocGen, x W, n int) []domEdit {
	var paths, lists []string
	wirePaths(x, "", &paths, &lists)
	var out []domEdit
	for i := 0; i < n; i++ {
		p := pick(r, g.Keys)
		if len(paths) > 0 && r.Intn(3) > 0 {
			p = pick(r, paths)
			if r.Intn(3) == 0 {
				p = p + "." + pick(r, g.Keys)
			}
		}
		switch k := r.Intn(6); {
		case k <= 1:
			out = append(out, domEdit{Op: "addat", Path: p, V: g.Node(r, g.MaxDepth-1)})
		case k == 2:
			out = append(out, domEdit{Op: "removeat", Path: p})
		default:
			if len(lists) == 0 {
				out = append(out, domEdit{Op: "addat", Path: p, V: g.Scalar(r)})
				continue
			}
			lp := pick(r, lists)
			switch r.Intn(3) {
			case 0:
				out = append(out, domEdit{Op: "listappend", Path: lp, V: g.Scalar(r)})
			case 1:
				out = append(out, domEdit{Op: "listset", Path: lp, Idx: r.Intn(4), V: g.Scalar(r)})
			default:
				out = append(out, domEdit{Op: "listclear", Path: lp})
			}
		}
	}
	return out
}

// applyDomEdit applies one edit to a builder through the public API.
func applyDomEdit(cb dom.ContainerBuilder, e domEdit) {
	switch e.Op {
	case "addat":
		cb.AddValueAt(e.Path, wireNode(e.V))
	case "removeat":
		cb.RemoveAt(e.Path)
	case "emptyout":
		// remove every member of the container at Path, one by one
		if n := cb.Lookup(e.Path); n != nil && n.IsContainer() {
			if b, ok := n.(dom.ContainerBuilder); ok {
				for _, k := range sortedKeys(b.Children()) {
					b.Remove(k)
				}
			}
		}
	case "listappend", "listset", "listclear":
		n := cb.Lookup(e.Path)
		if n == nil || !n.IsList() {
			return
		}
		lb, ok := n.(dom.ListBuilder)
		if !ok {
			return
		}
		switch e.Op {
		case "listappend":
			lb.Append(wireNode(e.V))
		case "listset":
			lb.Set(uint(e.Idx), wireNode(e.V))
		default:
			lb.Clear()
		}
	}
}

func c05Eval(c *Ctx, kind string, raw []byte) {
	switch kind {
	case "heap-clone":
		heapCloneEval(c, raw)
	case "deep":
		c05DeepEval(c, raw)
	case "pair":
		var p c05Pair
		if err := json.Unmarshal(raw, &p); err != nil {
			panic(err)
		}
		if wireSize(p.X) > 1 || wireSize(p.Y) > 1 {
			c.Nontrivial()
		}
		var xy, yx, xx, same, xn, xcx, cxx bool
		var cw W
		out, txt := guard(func() {
			x, y := wireNode(p.X), wireNode(p.Y)
			xy, yx, xx = x.Equals(y), y.Equals(x), x.Equals(x)
			same = x.SameAs(y)
			xn = x.Equals(nil)
			cl := x.Clone()
			xcx, cxx = x.Equals(cl), cl.Equals(x)
			cw = nodeWire(cl)
			c.Direct("clone-same-kind", cl.SameAs(x) && x.SameAs(cl), nil)
			// the same two values built so that structurally equal subtrees are ONE node object (inside x, inside y
			// and between them): equality is about content, never about which objects hold it
			memo := map[string]dom.Node{}
			xd, yd := heapBuildDag(p.X, memo), heapBuildDag(p.Y, memo)
			want := c05StructEq(p.X, p.Y)
			c.Direct("equals-iff-structural(shared node objects)",
				xd.Equals(yd) == want && yd.Equals(xd) == want && xd.Equals(y) == want && y.Equals(xd) == want && x.Equals(yd) == want && xd.Equals(xd),
				map[string]any{"structural": want, "xd.Equals(yd)": xd.Equals(yd), "yd.Equals(xd)": yd.Equals(xd), "xd.Equals(y)": xd.Equals(y), "y.Equals(xd)": y.Equals(xd)})
			cd := xd.Clone()
			c.Direct("clone-content(shared node objects)", canon(nodeWire(cd)) == canon(p.X) && cd.Equals(xd) && xd.Equals(cd), nodeWire(cd))
			// equivalent entry points: the sealed (read-only) views answer like their builders, on either side
			xs, ys := c05Sealed(x), c05Sealed(y)
			c.Direct("equals-iff-structural(sealed views)", xs.Equals(ys) == want && ys.Equals(xs) == want && xs.Equals(y) == want && y.Equals(xs) == want && x.Equals(ys) == want && xs.Equals(xs) && xs.Equals(x) && x.Equals(xs),
				map[string]any{"structural": want, "xs.Equals(ys)": xs.Equals(ys), "ys.Equals(xs)": ys.Equals(xs), "xs.Equals(y)": xs.Equals(y), "y.Equals(xs)": y.Equals(xs), "xs.Equals(x)": xs.Equals(x), "x.Equals(xs)": x.Equals(xs)})
			cs := xs.Clone()
			c.Direct("clone-content(sealed view)", canon(nodeWire(cs)) == canon(p.X) && cs.Equals(xs) && xs.Equals(cs) && cs.SameAs(x) && xs.SameAs(y) == x.SameAs(y), nodeWire(cs))
		})
		if !c.Direct("no-panic", out == "ok", txt) {
			return
		}
		structEq := c05StructEq(p.X, p.Y)
		negZero := vrHasNegZero(p.X) || vrHasNegZero(p.Y)
		if negZero {
			c.Dist("pair:negative-zero(direct predicates only)")
		} else if structEq != (canon(p.X) == canon(p.Y)) {
			panic("harness: reflect.DeepEqual on the plain values and equality of the wire forms disagree on a case without a negative zero")
		}
		if structEq {
			c.Dist("pair:equal")
		} else {
			c.Dist("pair:different")
		}
		c.Direct("equals-iff-structural", xy == structEq, map[string]any{"Equals(x,y)": xy, "structural": structEq})
		c.Direct("equals-iff-structural(yx)", yx == structEq, map[string]any{"Equals(y,x)": yx, "structural": structEq})
		c.Direct("equals-symmetric", xy == yx, map[string]any{"xy": xy, "yx": yx})
		c.Direct("equals-reflexive", xx, nil)
		c.Direct("equals-nil-false", !xn, nil)
		c.Direct("sameas-iff-kind", same == (wireKind(p.X) == wireKind(p.Y)), same)
		c.Direct("clone-equals-original", xcx && cxx, map[string]any{"x.Equals(clone)": xcx, "clone.Equals(x)": cxx})
		c.Direct("clone-content", canon(cw) == canon(p.X), cw)
		if !negZero {
			m := c.Model("equals", map[string]any{"x": p.X, "y": p.Y})
			c.Corr("equals", map[string]any{"xy": xy, "yx": yx, "xx": xx, "same": same, "cx": cw, "xcx": xcx}, m)
		}
	case "hist":
		c05EvalHist(c, raw)
	case "long":
		c05LongEval(c, raw) // c05_long.go
	case "triple":
		var p c05Triple
		if err := json.Unmarshal(raw, &p); err != nil {
			panic(err)
		}
		c.Nontrivial()
		var xy, yz, xz bool
		out, txt := guard(func() {
			x, y, z := wireNode(p.X), wireNode(p.Y), wireNode(p.Z)
			xy, yz, xz = x.Equals(y), y.Equals(z), x.Equals(z)
		})
		if !c.Direct("no-panic", out == "ok", txt) {
			return
		}
		if xy && yz {
			c.Dist("triple:premises-hold")
		}
		c.Direct("equals-transitive", !(xy && yz) || xz, map[string]any{"xy": xy, "yz": yz, "xz": xz})
		c.Direct("equals-iff-structural(triple)", xy == c05StructEq(p.X, p.Y) && yz == c05StructEq(p.Y, p.Z) && xz == c05StructEq(p.X, p.Z),
			map[string]any{"xy": xy, "yz": yz, "xz": xz, "structural xy": c05StructEq(p.X, p.Y), "structural yz": c05StructEq(p.Y, p.Z), "structural xz": c05StructEq(p.X, p.Z)})
	case "clone":
		var p c05Clone
		if err := json.Unmarshal(raw, &p); err != nil {
			panic(err)
		}
		c.Nontrivial()
		out, txt := guard(func() {
			x := wireContainer(p.X)
			for _, e := range p.Pre {
				applyDomEdit(x, e)
			}
			cl := x.Clone().(dom.Container)
			c.Direct("clone-equals-original(after history)", cl.Equals(x) && x.Equals(cl) && canon(nodeWire(cl)) == canon(nodeWire(x)), nil)
			// a document with a history equals a freshly built document of the same content, both ways
			fresh := wireNode(nodeWire(x))
			c.Direct("equals-iff-structural(after history)", fresh.Equals(x) && x.Equals(fresh), nil)
			before := canon(nodeWire(x))
			for _, e := range p.Edits {
				applyDomEdit(x, e)
			}
			after := canon(nodeWire(cl))
			if canon(nodeWire(x)) != before {
				c.Dist("clone:original-changed")
			}
			c.Direct("clone-independent", after == before, map[string]any{"before": json.RawMessage(before), "after": json.RawMessage(after)})
		})
		c.Direct("no-panic", out == "ok", txt)
	}
}

func wireKind(w W) string {
	switch x := w.(type) {
	case []any:
		return "list"
	case map[string]any:
		if _, ok := x["m"]; ok {
			return "cont"
		}
	}
	return "leaf"
}

// c05EvalHist: see c05Hist.
func c05EvalHist(c *Ctx, raw []byte) {
	var p c05Hist
	if err := json.Unmarshal(raw, &p); err != nil {
		panic(err)
	}
	if wireKind(p.X) != "cont" || !c05KeysOK(p.X) {
		return // shrinking may propose non-documents: outside the domain
	}
	c.Nontrivial()
	opts := dhReadOpts{Paths: dhAllKeysSafe(p.X)}
	for _, e := range p.Edits {
		if !dhPathSafe(e.Key) && e.Key != "" || (e.V != nil && !dhAllKeysSafe(e.V)) {
			opts.Paths = false
		}
		if e.V != nil && !c05KeysOK(e.V) {
			return
		}
	}
	type snap struct {
		cl   dom.Node
		want string
		how  string
		step int
	}
	var snaps []snap
	executed := 0
	out, txt := guard(func() {
		d := dhNew(p.X, p.Seal)
		if len(d.held) > 0 {
			c.Dist("hist:sealed-nodes")
		}
		for i := 0; ; i++ {
			if !dhReport(c, "hist:", i, d.reads(opts)) {
				return
			}
			// clones through every entry point
			want := canon(d.exp)
			snaps = append(snaps, snap{d.root.Clone(), want, "builder.Clone()", i}, snap{d.root.Seal().Clone(), want, "Seal().Clone()", i})
			var ps []dhPos
			dhPositions(d.exp, []any{}, &ps)
			for k, q := range ps {
				if len(q.at) == 0 || k > 8 {
					continue
				}
				n, _ := d.walk(q.at)
				sub, ok := dhGet(d.exp, q.at)
				if n == nil || !ok {
					continue
				}
				how := "nested.Clone()"
				if d.builderOf(n) != n {
					how = "nested sealed view.Clone()"
				}
				cl := n.Clone()
				c.Direct("hist:clone-same-kind", cl.SameAs(n) && n.SameAs(cl), how)
				c.Direct("hist:clone-equals-original", cl.Equals(n) && n.Equals(cl) && canon(nodeWire(cl)) == canon(sub),
					map[string]any{"how": how, "clone": nodeWire(cl), "expected": sub, "after_edits": i})
				snaps = append(snaps, snap{cl, canon(sub), how, i})
			}
			if i >= len(p.Edits) {
				break
			}
			st := d.apply(p.Edits[i])
			c.Dist("hist:edit=" + p.Edits[i].Op + ":" + st)
			if st == "skip" {
				continue
			}
			executed++
			if !c.Direct("hist:edit-executes", st == "ok", map[string]any{"edit": p.Edits[i], "result": st}) {
				return
			}
		}
		for _, s := range snaps {
			got := nodeWire(s.cl)
			if !c.Direct("hist:clone-independent", canon(got) == s.want,
				map[string]any{"how": s.how, "cloned_after_edits": s.step, "clone now": got, "clone then": json.RawMessage(s.want)}) {
				return
			}
		}
		// the model's equality on the final content, against the document as it is now
		defer func() {
			s := dhItemsAreCopies(d.root)
			c.Direct("hist:Items()-hands-out-a-copy", s == "", s)
		}()
		fresh := wireNode(d.exp)
		cl := d.root.Clone()
		m := c.Model("equals", map[string]any{"x": d.exp, "y": d.exp})
		c.Corr("equals(after history)", map[string]any{"xy": d.root.Equals(fresh), "yx": fresh.Equals(d.root), "xx": d.root.Equals(d.root),
			"same": d.root.SameAs(fresh), "cx": nodeWire(cl), "xcx": d.root.Equals(cl)}, m)
	})
	c.Direct("no-panic", out == "ok", txt)
	c.Dist(fmt.Sprintf("hist:edits-executed=%d", executed))
}

// c05KeysOK: no member name ends in an index group (D26: the builder API would store it as a list position).
func c05KeysOK(w W) bool {
	has, _ := wireIdxKeys(w)
	return !has
}

// c05Sealed: the read-only view of a builder (a leaf has none and stands for itself).
func c05Sealed(n dom.Node) dom.Node {
	switch b := n.(type) {
	case dom.ContainerBuilder:
		return b.Seal()
	case dom.ListBuilder:
		return b.Seal()
	}
	return n
}

// c05StructEq is the right-hand side of the property's equivalence, literally: kind(x)==kind(y) and
// reflect.DeepEqual(plain(x), plain(y)) on the plain Go values (maps, slices, typed scalars) the nodes hold.
func c05StructEq(x, y W) bool {
	return wireKind(x) == wireKind(y) && reflect.DeepEqual(wirePlain(x), wirePlain(y))
}

// c05KeyTwins returns two copies of w (a container is put around w when it has none) that differ in one member name
// of one container: the same value sits under k1 on one side and under k2 on the other, for names k1 != k2 that look
// alike; now and then one side has the value under both names.
func c05KeyTwins(r *rand.Rand, g *DocGen, w W) (W, W) {
	if wireKind(w) != "cont" {
		w = map[string]any{"m": map[string]any{"a": w}}
	}
	var ps, conts []dhPos
	dhPositions(w, []any{}, &ps)
	for _, p := range ps {
		if p.kind == "cont" {
			conts = append(conts, p)
		}
	}
	p := pick(r, conts)
	tw := pick(r, [][2]string{{"maxConn", "maxconn"}, {"a", "A"}, {"a", "a "}, {"a", " a"}, {"a", "\u00a0a"}, {"a b", "a  b"}, {"a", "a\n"}, {"\u00e9", "e\u0301"}, {"ß", "ss"}, {"İ", "i"}, {"ı", "i"},
		{"a.b", "a/b"}, {"a.b", "a b"}, {"", " "}, {"0", "00"}, {"1", "+1"}, {"k1", "K1"}, {"x-y", "x_y"}, {"z_9", "z-9"}, {"🚀", "🚀 "}, {"𝛼", "α"}, {"true", "True"}, {"a[x]", "a[X]"}, {"~", "~0"}})
	if r.Intn(2) == 0 {
		tw[0], tw[1] = tw[1], tw[0]
	}
	v := g.Node(r, g.MaxDepth-1)
	both := r.Intn(4) == 0
	put := func(names ...string) W {
		out, _ := dhUpdate(w, p.at, func(x W) (W, bool) {
			cm, _ := wireCont(x)
			m := map[string]any{}
			for k, e := range cm {
				if k != tw[0] && k != tw[1] {
					m[k] = e
				}
			}
			for _, n := range names {
				m[n] = deepCopyW(v)
			}
			return map[string]any{"m": m}, true
		})
		return out
	}
	if both {
		return put(tw[0], tw[1]), put(tw[0])
	}
	return put(tw[0]), put(tw[1])
}

// c05ValueTwins returns two copies of w that differ in exactly one leaf position, by two scalars next to each other
// at a boundary of the value range (ok=false when w has no leaf).  Some twins are EQUAL scalars that print
// differently (the two float64 zeros), most are different scalars that a sloppy comparison identifies.
func c05ValueTwins(r *rand.Rand, w W) (W, W, bool) {
	var slots [][]any
	wireLeafSlots(w, nil, &slots)
	if len(slots) == 0 {
		return nil, nil, false
	}
	negZero := math.Copysign(0, -1)
	pairs := [][2]any{
		{0.0, negZero}, {0.0, negZero}, {0.0, negZero}, {negZero, negZero}, {negZero, 0}, {negZero, "-0"}, {negZero, "0"}, {0.0, "0"}, {negZero, false}, {negZero, nil}, {negZero, int64(0)},
		{negZero, -5e-324}, {0.0, 5e-324}, {1e-320, 0.0},
		{math.MaxInt64, float64(math.MaxInt64)}, {int64(math.MaxInt64), float64(math.MaxInt64)}, {uint64(math.MaxUint64), float64(math.MaxUint64)},
		{uint64(1 << 63), float64(1 << 63)}, {uint64(1 << 63), "9223372036854775808"}, {math.MinInt64, -float64(1 << 63)}, {math.MaxInt64, math.MaxInt64 - 1},
		{float64(1 << 53), int(1<<53 + 1)}, {float64(1 << 53), float64(1<<53) + 2}, {math.MaxInt32 + 1, math.MinInt32},
		{math.Inf(1), math.MaxFloat64}, {math.Inf(1), math.Inf(-1)}, {math.Inf(1), "+Inf"}, {math.Inf(1), math.Inf(1)},
		{0.1 + 0.2, 0.3}, {1e21, "1e+21"}, {100.0, 1e2}, {100.0, "1e2"},
		{"maxConn", "maxconn"}, {"\u00e9", "e\u0301"}, {"s", "s\n"}, {"s\r\n", "s\n"}, {"s", "\u00a0s"}, {" s", "\u00a0s"}, {"ß", "ss"}, {"İ", "i"}, {"ı", "i"}, {"I", "ı"}, {"Ω", "ω"},
		{"🚀", "🚀 "}, {"𝛼", "α"}, {"\ufffd", "?"}, {"", " "}, {"a\tb", "a b"},
		{"18446744073709551616", "18446744073709551615"}, {"123456789012345678901234567890", "123456789012345678901234567891"}, {"007", "7"}, {"+1", "1"}, {"1.0", "1"},
		{"true", "True"}, {"t", true}, {"T", true}, {"1", true}, {"0", false}, {"", false}, {"f", false}, {"null", nil}, {"~", nil},
		{"a.b", "a/b"}, {"a[0]", "a.0"}, {"{}", "{ }"}, {"#", ""},
	}
	p := pick(r, pairs)
	s := pick(r, slots)
	a, b := scalarWire(p[0]), scalarWire(p[1])
	if r.Intn(2) == 0 {
		a, b = b, a
	}
	return wireSetSlot(deepCopyW(w), s, a), wireSetSlot(deepCopyW(w), s, b), true
}
