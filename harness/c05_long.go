package main

import (
	"encoding/json"
	"math/rand"

	"github.com/rkosegi/yaml-toolkit/dom"
)

// C05 — "the same items in the same order", for LONG lists (direct predicates only; the model is not consulted).
//
// The property quantifies over all nodes; the small generators never leave lists of a handful of items.  A few cases per
// run compare lists of 2^12 .. 10^5 items whose sizes are mostly NOT multiples of small powers of two (a power of two
// or a round number plus/minus a few), equal except at one or two positions: among the last few items, next to the
// boundaries of an even split of the list into 2..64 parts, at the head, or anywhere; now and then the "difference" is
// no difference, or the sizes differ by one.  The case is kept in compact form (size, a repeating pattern of items, the
// differing positions) so that a replay file stays small and shrinks.
type c05LongDiff struct {
	At int `json:"at"`
	V  W   `json:"v"`
}

type c05Long struct {
	N     int           `json:"n"`
	Items []W           `json:"items"` // item i of x is Items[i % len(Items)]
	Diffs []c05LongDiff `json:"diffs"` // y is x with these items replaced
	Grow  int           `json:"grow"`  // y has this many further items
	Wrap  string        `json:"wrap"`  // "", "cont" ({"k": list}), "list" ([list])
}

func c05LongRun(c *Ctx) {
	r := c.Rng
	g := stdGen()
	g.MaxDepth = 2
	c.Note("long lists: %d direct-only cases, sizes 2^12-3 .. 10^5+9 (mostly not multiples of 8), one or two differing positions near the end / at even-split boundaries / at the head / anywhere", c.N(28))
	for i := 0; i < c.N(28); i++ {
		c.Tick()
		c.Do("long", c05LongGen(r, g))
	}
}

func c05LongGen(r *rand.Rand, g *DocGen) c05Long {
	bases := []int{1 << 12, 1 << 13, 1 << 14, 1 << 14, 1 << 15, 1 << 16, 20000, 50000, 100000, 100000}
	n := pick(r, bases) + r.Intn(13) - 3
	if r.Intn(3) == 0 {
		n = 1<<14 + r.Intn(100003-1<<14)
	}
	k := c05Long{N: n, Wrap: pick(r, []string{"", "", "cont", "list"})}
	for j := 1 + r.Intn(3); j > 0; j-- {
		if r.Intn(5) == 0 {
			k.Items = append(k.Items, g.Node(r, 1))
		} else {
			k.Items = append(k.Items, g.Scalar(r))
		}
	}
	pos := func() int {
		switch r.Intn(8) {
		case 0, 1, 2:
			return n - 1 - r.Intn(9) // among the last items
		case 3, 4:
			w := pick(r, []int{2, 3, 4, 8, 8, 16, 32, 64})
			chunk := n / w
			if r.Intn(3) == 0 {
				chunk = (n + w - 1) / w
			}
			p := (1+r.Intn(w))*chunk + r.Intn(3) - 1
			if p >= n {
				p = n - 1
			}
			return p
		case 5:
			return r.Intn(3)
		default:
			return r.Intn(n)
		}
	}
	nd := 1
	if r.Intn(5) == 0 {
		nd = 2
	}
	for j := 0; j < nd; j++ {
		at := pos()
		var v W
		if r.Intn(8) == 0 {
			v = deepCopyW(k.Items[at%len(k.Items)]) // no difference at all
		} else {
			v = g.Scalar(r)
			for try := 0; try < 8 && c05StructEq(v, k.Items[at%len(k.Items)]); try++ {
				v = g.Scalar(r)
			}
		}
		k.Diffs = append(k.Diffs, c05LongDiff{At: at, V: v})
	}
	if r.Intn(10) == 0 {
		k.Grow = 1
		if r.Intn(2) == 0 {
			k.Diffs = nil
		}
	}
	return k
}

// c05LongExpand: the wire form of the list (diffs beyond the end are ignored: shrink candidates).
func c05LongExpand(k c05Long, diffs []c05LongDiff, grow int) []any {
	n := k.N
	if n < 0 {
		n = 0
	}
	if n > 200000 {
		n = 200000
	}
	out := make([]any, 0, n+grow)
	for i := 0; i < n+grow; i++ {
		if len(k.Items) == 0 {
			out = append(out, scalarWire(nil))
		} else {
			out = append(out, k.Items[i%len(k.Items)])
		}
	}
	for _, d := range diffs {
		if d.At >= 0 && d.At < n {
			out[d.At] = d.V
		}
	}
	return out
}

func c05LongWrapW(wrap string, l W) W {
	switch wrap {
	case "cont":
		return map[string]any{"m": map[string]any{"k": l}}
	case "list":
		return []any{l}
	}
	return l
}

func c05LongWrap(wrap string, l dom.Node) dom.Node {
	switch wrap {
	case "cont":
		return dom.Builder().Container().AddValue("k", l)
	case "list":
		return dom.ListNode(l)
	}
	return l
}

func c05LongEval(c *Ctx, raw []byte) {
	var k c05Long
	if err := json.Unmarshal(raw, &k); err != nil {
		panic(err)
	}
	if k.Grow < 0 || k.Grow > 4 {
		k.Grow = 0
	}
	for _, it := range k.Items {
		if it == nil {
			return
		}
	}
	for _, d := range k.Diffs {
		if d.V == nil {
			return
		}
	}
	c.Nontrivial()
	xl, yl := c05LongExpand(k, nil, 0), c05LongExpand(k, k.Diffs, k.Grow)
	xe := c05LongExpand(k, k.Diffs, 0) // x after the edits
	xw, yw, xew := c05LongWrapW(k.Wrap, xl), c05LongWrapW(k.Wrap, yl), c05LongWrapW(k.Wrap, xe)
	want, wantEdited, wantEditedY := c05StructEq(xw, yw), c05StructEq(xew, xw), c05StructEq(xew, yw)
	if want {
		c.Dist("long:equal")
	} else {
		c.Dist("long:different")
	}
	switch {
	case len(xl) >= 1<<16:
		c.Dist("long:size>=2^16")
	case len(xl) >= 1<<14:
		c.Dist("long:size>=2^14")
	default:
		c.Dist("long:size<2^14")
	}
	where := map[string]any{"size": len(xl), "size of y": len(yl), "differing positions": k.Diffs}
	out, txt := guard(func() {
		xin := wireNodeM(xl, 0, false).(dom.ListBuilder)
		x, y := c05LongWrap(k.Wrap, xin), c05LongWrap(k.Wrap, wireNodeM(yl, 0, false))
		xy, yx := x.Equals(y), y.Equals(x)
		c.Direct("equals-iff-structural(long lists)", xy == want && yx == want,
			map[string]any{"structural": want, "x.Equals(y)": xy, "y.Equals(x)": yx, "where": where})
		c.Direct("equals-symmetric(long lists)", xy == yx, map[string]any{"xy": xy, "yx": yx, "where": where})
		c.Direct("equals-reflexive(long lists)", x.Equals(x) && y.Equals(y), where)
		xs, ys := c05Sealed(x), c05Sealed(y)
		c.Direct("equals-iff-structural(long lists, sealed views)", xs.Equals(ys) == want && ys.Equals(x) == want && x.Equals(ys) == want,
			map[string]any{"structural": want, "xs.Equals(ys)": xs.Equals(ys), "where": where})
		cl := x.Clone()
		c.Direct("clone-equals-original(long lists)", cl.Equals(x) && x.Equals(cl) && cl.SameAs(x), where)
		c.Direct("clone-content(long lists)", c05StructEq(nodeWire(cl), xw), where)
		// transitivity through the clone: cl = x by content, so cl relates to y as x does
		c.Direct("equals-transitive(long lists)", cl.Equals(y) == want && y.Equals(cl) == want, map[string]any{"structural": want, "clone.Equals(y)": cl.Equals(y), "where": where})
		// edit the original in place after Clone: the clone holds what it held, and Equals sees the edit
		for _, d := range k.Diffs {
			if d.At >= 0 && d.At < len(xl) {
				xin.MustSet(uint(d.At), wireNodeM(d.V, 0, true))
			}
		}
		c.Direct("clone-independent(long lists)", c05StructEq(nodeWire(cl), xw), where)
		xc, cx := x.Equals(cl), cl.Equals(x)
		c.Direct("equals-iff-structural(long lists, original edited after clone)", xc == wantEdited && cx == wantEdited,
			map[string]any{"structural": wantEdited, "x.Equals(clone)": xc, "clone.Equals(x)": cx, "where": where})
		xy2, yx2 := x.Equals(y), y.Equals(x)
		c.Direct("equals-iff-structural(long lists, after the edit that makes them alike)", xy2 == wantEditedY && yx2 == wantEditedY,
			map[string]any{"structural": wantEditedY, "x.Equals(y)": xy2, "y.Equals(x)": yx2, "where": where})
	})
	c.Direct("no-panic", out == "ok", txt)
}
