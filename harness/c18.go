package main

import (
	"encoding/json"
	"errors"
	"fmt"
	"io"
	"math/rand"
	"os"
	"path/filepath"
	"sort"
	"strings"

	"github.com/rkosegi/yaml-toolkit/analytics"
	"github.com/rkosegi/yaml-toolkit/dom"
	"github.com/rkosegi/yaml-toolkit/pipeline"
	"gopkg.in/yaml.v3"
)

// C18 — document sets select by tag, keep insertion order and honour the re-add policy.

type c18Opt struct {
	K    string   `json:"k"` // tags | merge | must
	Tags []string `json:"tags,omitempty"`
}

type c18Op struct {
	K    string   `json:"k"` // add | unnamed | reader | file
	Name string   `json:"name,omitempty"`
	Doc  W        `json:"doc"`           // nil: malformed text (reader) / missing file (file)
	Enc  string   `json:"enc,omitempty"` // yaml | json (reader, file)
	Opts []c18Opt `json:"opts"`
	// Clone (add): the document added is a Clone() of the one served under Name at that moment (when there is
	// one; Doc otherwise): equal content, another instance
	Clone bool `json:"clone,omitempty"`
	// Same (add): the document added is the very INSTANCE served under the name Same at that moment (when there is
	// one; Doc otherwise) - one object registered under two names, or re-added under its own name
	Same string `json:"same,omitempty"`
	// FailAt (reader, Doc != nil): the reader hands out FailAt permille of the (well-formed) text and then reports an
	// I/O error: bad input, like a malformed text
	FailAt *int `json:"failAt,omitempty"`
	// NameOf (add, reader): the name passed is the one the set itself reports for its (NameOf mod n)-th layer at
	// that moment (AsOne().LayerNames(), n > 0; Name otherwise) - the way a caller addresses a document it did not
	// name itself, e.g. to tag an unnamed document afterwards, to replace it, or to insist on creating it
	NameOf *int `json:"nameOf,omitempty"`
}

type c18Case struct {
	Ops     []c18Op    `json:"ops"`
	Queries [][]string `json:"queries"`
	Names   []string   `json:"names"`
}

type c18Merge struct {
	Docs []W `json:"docs"`
}

func init() {
	register(&Prop{ID: "C18", Run: c18Run,
		Rule: "histories of AddDocument / AddUnnamedDocument / AddDocumentFromReader / AddDocumentFromFile (<= 30 adds quick, <= 200 thorough) over a name pool of 5 (so re-adds occur), tag pool {t1,t2,t3,*,\"\"}, options none / WithTags / MergeTags / MustCreate (WithTags combined with a policy as the API is used), malformed reader text and missing files; two in five re-adds of a registered name carry content EQUAL to the stored one (the same reader / file text loaded again, an equal document built separately, a Clone() of the served document), half of them with no option at all, the others with MergeTags, MustCreate or generated options; after every add: TaggedSubset for 4 tag sets, AsOne, NamedDocument for every pool name and an unknown one. Every document carries a unique id so a stale document is visible; for equal content the served INSTANCE is compared by identity with the one handed to the registering call (after every step, for every registered name). Kind `combo` (model comparison and no-panic only) also mixes MergeTags+MustCreate on one call and explicit names of the form default__N. Kind `mergefiles` runs the pipeline template function mergeFiles over generated files. One add in eight registers the very INSTANCE already served under some name (another name or its own); one add / reader add in six takes its name from the set itself (the name LayerNames() reports for some registered layer at that moment, generated names of unnamed documents included: tagging an unnamed document afterwards with MergeTags, replacing it, MustCreate on it - a re-add like any other, and later unnamed documents still get fresh names); one reader add in seven reads a well-formed text through a reader that reports an I/O error part-way (bad input: an error, nothing registered); every TaggedSubset query is asked twice and with its tags reversed. Kind `bigdocs` (direct predicates only): one document whose YAML / JSON text has an exact size just under / at / just over 512 B, 4 KiB, 64 KiB, 1 MiB (bulk: one long string, many keys, a long list; multi-byte characters across the threshold offset), registered through AddDocumentFromReader (whole / chunked / data+EOF reader, after readers failing part-way), AddDocumentFromFile and AddDocument(FromMap) between two small documents: every view serves the generated document under all three names and the three are Equal. Kind `manytags` (direct predicates only, c18_many.go): the SCALE of one set - 20 to 400 AddDocument calls over a name pool two thirds that size (re-adds under every policy) with tags from a universe of 5 to 1100 distinct strings (sizes just under / at / just over 8, 16, ... 1024 among them; one to three tags per WithTags call, now and then a batch of dozens, also on must-create calls that fail); at two intermediate points and at the end AsOne holds all documents in insertion order, NamedDocument serves the registered instance and TaggedSubset is asked for EVERY distinct tag given so far, one at a time, for a never-given tag and for six sets of several tags: exactly the documents carrying one of the tags, in insertion order, each layer the registered document. VALUE RANGE (c18_names.go): half of the histories draw their five names - and, independently, half draw their five tags ('*' always among them) - from families of confusable spellings: path-like names differing in doubled / trailing separators, './' prefixes, '.' and '..' segments; letter-case twins; leading / trailing / inner white space (space, tab, NBSP, line break); Unicode composition twins, supplementary-plane characters, U+FFFD; characters that look like syntax; digit strings around 2^63 / 2^64; boolean / null spellings; the empty string (a name like any other); prefixes of each other; near misses of default__N. Two names (tags) are the same exactly when they are the same string: every clause is evaluated with string identity, NamedDocument is also asked for up to three further members of the same families that were never registered (nil), TaggedSubset for never-given sibling tags. One document in seven is EMPTY (no keys at all, through every entry point: a document like any other - registered, served, kept by must-create / merge-tags), one in fourteen holds only an empty-but-present value (empty container / empty list / \"\" / null); string leaves include white-space, case and digit-string variants. A history is non-trivial when it re-adds at least one name; distinct = distinct canonical case JSON.",
		Assumptions: []string{
			"documents are non-nil containers with path-safe keys (no key ends in an index group)",
			"the YAML/JSON decoding of reader/file documents is C01's concern: the expected document is what dom.Builder().FromReader yields on the same text",
			"explicit names have the form default__N only when they were read back from the set (LayerNames()) - re-adds of a name the set generated itself; a not yet registered name of that form is outside the property's domain (generated names are compared among themselves and with the names present)"}})
	evals["C18"] = c18Eval
	shrinkers["C18"] = c18Shrink
}

// c18Shrink: the generic JSON shrinker, preceded by candidates that empty EVERY occurrence of one document at
// once (a failure that needs two adds of equal content survives no shrink of one of the two alone).
func c18Shrink(kind string, raw []byte) [][]byte {
	var out [][]byte
	if kind == "manytags" {
		return append(c18ManyShrink(raw), shrinkJSON(kind, raw)...)
	}
	var cs map[string]any
	if err := json.Unmarshal(raw, &cs); err == nil {
		ops, _ := cs["ops"].([]any)
		seen := map[string]bool{}
		for _, o := range ops {
			om, _ := o.(map[string]any)
			if om == nil || om["doc"] == nil {
				continue
			}
			key := canon(om["doc"])
			if seen[key] || key == `{"m":{}}` {
				continue
			}
			seen[key] = true
			var saved []any
			for _, o2 := range ops {
				if m2, _ := o2.(map[string]any); m2 != nil && m2["doc"] != nil && canon(m2["doc"]) == key {
					saved = append(saved, m2, m2["doc"])
					m2["doc"] = map[string]any{"m": map[string]any{}}
				}
			}
			if b, err := json.Marshal(cs); err == nil && len(b) < len(raw) {
				out = append(out, b)
			}
			for i := 0; i+1 < len(saved); i += 2 {
				saved[i].(map[string]any)["doc"] = saved[i+1]
			}
		}
	}
	return append(out, shrinkJSON(kind, raw)...)
}

var c18Names = []string{"a", "b", "c", "d/e.yaml", "n5"}
var c18Tags = []string{"t1", "t2", "t3", "*", ""}

func c18GenOpts(r *rand.Rand, combo bool, tags []string) []c18Opt {
	var opts []c18Opt
	nt := []int{0, 0, 1, 1, 1, 2}[r.Intn(6)]
	tagOpt := func() c18Opt {
		n := 1 + r.Intn(3)
		if r.Intn(10) == 0 {
			n = 0
		}
		ts := make([]string, n)
		for i := range ts {
			ts[i] = pick(r, tags)
		}
		return c18Opt{K: "tags", Tags: ts}
	}
	for i := 0; i < nt; i++ {
		opts = append(opts, tagOpt())
	}
	switch r.Intn(5) {
	case 0, 1:
	case 2, 3:
		opts = append(opts, c18Opt{K: "merge"})
	default:
		opts = append(opts, c18Opt{K: "must"})
	}
	if combo && r.Intn(3) == 0 {
		opts = append(opts, c18Opt{K: pick(r, []string{"merge", "must"})})
	}
	// option order is free
	r.Shuffle(len(opts), func(i, j int) { opts[i], opts[j] = opts[j], opts[i] })
	if opts == nil {
		opts = []c18Opt{}
	}
	return opts
}

func c18GenCase(r *rand.Rand, n int, combo bool) c18Case {
	g := stdGen()
	g.MaxDepth, g.MaxWidth, g.ListMax = 2, 2, 2
	g.Types = []string{"int", "string", "bool"}
	g.Strings = []string{"", "s", "x y", "héllo", "1", " s", "s ", "S", "\U0001F680", "\ufffd", "a\nb", "18446744073709551616", "1e3", "~", "{}"}
	// names and tags: the classic pools, or (half of the histories) pools of confusable spellings (c18_names.go)
	names, nameProbes := c18PickNames(r)
	tags, tagProbes := c18PickTags(r)
	if combo {
		names = append(names, "default__1", "default__2")
	}
	cs := c18Case{Names: append(append(append([]string{}, names...), nameProbes...), "unknown", "default__1", "@/f1.yaml", "@/f1.json", "@/f2.yaml", "@/f2.json"), Ops: []c18Op{}}
	// what the set holds under a name if it follows the property (the generator's own bookkeeping, used only to
	// aim re-adds at EQUAL content: the same text loaded twice, an equal document built separately, a clone)
	type held struct {
		doc    W
		k, enc string
	}
	stored := map[string]held{}
	for i := 0; i < n; i++ {
		doc := g.Doc(r)
		if m, ok := wireCont(doc); ok {
			m["id"] = scalarWire(i) // unique marker: a stale document is visible
		}
		switch r.Intn(14) {
		case 0, 1:
			// an EMPTY document is a document like any other: registered, served, kept by must-create / merge-tags
			// (no marker: what is served is told apart by instance identity)
			doc = map[string]any{"m": map[string]any{}}
		case 2:
			// explicitly empty-but-present values only
			doc = map[string]any{"m": map[string]any{pick(r, []string{"e", "id"}): pick(r, []W{map[string]any{"m": map[string]any{}}, []any{}, scalarWire(""), scalarWire(nil)})}}
		}
		op := c18Op{Name: pick(r, names), Doc: doc, Opts: c18GenOpts(r, combo, tags)}
		switch k := r.Intn(20); {
		case k < 10:
			op.K = "add"
		case k < 14:
			op.K = "unnamed"
			op.Name = ""
		case k < 18:
			op.K = "reader"
			op.Enc = pick(r, []string{"yaml", "json"})
			if r.Intn(6) == 0 {
				op.Doc = nil
			} else if r.Intn(7) == 0 {
				at := pick(r, []int{0, 0, 1, 500, 999, r.Intn(1000)})
				op.FailAt = &at
			}
		default:
			op.K = "file"
			op.Enc = pick(r, []string{"yaml", "json"})
			op.Name = pick(r, []string{"f1", "f2"}) + "." + op.Enc
			if r.Intn(6) == 0 {
				op.Doc = nil
			}
		}
		key := op.Name
		if op.K == "file" {
			key = "@/" + op.Name
		}
		if st, ok := stored[key]; ok && op.K != "unnamed" && r.Intn(5) < 2 {
			// re-add of content equal to the stored one, under every policy (most often with no option at all)
			op.Doc = deepCopyW(st.doc)
			if op.K != "file" && r.Intn(4) > 0 {
				op.K, op.Enc = st.k, st.enc // the way it came in the first time (the same reader text again)
			}
			if op.K == "add" && r.Intn(3) == 0 {
				op.Clone = true
			}
			switch r.Intn(8) {
			case 0, 1, 2, 3:
				op.Opts = []c18Opt{}
			case 4:
				op.Opts = []c18Opt{{K: "merge"}}
			case 5:
				op.Opts = []c18Opt{{K: "must"}}
			}
		}
		if op.K != "reader" || op.Doc == nil {
			op.FailAt = nil
		}
		if op.K == "add" && !op.Clone && len(stored) > 0 && r.Intn(8) == 0 {
			// the instance registered under some name (often another one) is added: one object, two registrations
			ks := sortedKeys(stored)
			op.Same = pick(r, ks)
			if r.Intn(3) == 0 {
				op.Same = key
			}
			if st, ok := stored[op.Same]; ok && st.doc != nil {
				op.Doc = deepCopyW(st.doc)
			} else {
				op.Same = ""
			}
		}
		if (op.K == "add" || op.K == "reader") && op.Same == "" && i > 0 && r.Intn(6) == 0 {
			// re-add under a name read back from the set (any registered layer, generated names included)
			k := r.Intn(i)
			op.NameOf = &k
		}
		if op.FailAt != nil || op.NameOf != nil {
			// nothing is registered by a failing reader; a name read back from the set is not known here
		} else if op.K != "unnamed" && (op.Doc != nil || op.K == "add") {
			pol := ""
			for _, o := range op.Opts {
				if o.K != "tags" {
					pol = o.K
				}
			}
			if _, ok := stored[key]; !ok || pol == "" {
				stored[key] = held{op.Doc, op.K, op.Enc}
			}
		}
		cs.Ops = append(cs.Ops, op)
	}
	qs := [][]string{{"*"}, {}}
	for len(qs) < 4 {
		n := 1 + r.Intn(2)
		q := make([]string, n)
		for i := range q {
			q[i] = pick(r, append(append(append([]string{}, tags...), tagProbes...), "zz"))
		}
		qs = append(qs, q)
	}
	cs.Queries = qs
	return cs
}

func c18Run(c *Ctx) {
	r := c.Rng
	maxLen := 30
	for i := 0; i < c.N(500); i++ {
		c.Tick()
		n := 1 + r.Intn(maxLen)
		if r.Intn(3) == 0 {
			n = 1 + r.Intn(6)
		}
		c.Do("history", c18GenCase(r, n, false))
	}
	for i := 0; i < c.N(100); i++ {
		c.Tick()
		c.Do("combo", c18GenCase(r, 1+r.Intn(12), true))
	}
	if c.Thorough() {
		for i := 0; i < int(60*c.Scale); i++ {
			c.Tick()
			c.Do("history", c18GenCase(r, 100+r.Intn(101), false))
		}
	}
	c18BigCases(c)
	g := stdGen()
	g.MaxDepth, g.MaxWidth, g.ListMax = 3, 3, 2
	g.Types = []string{"int", "string", "bool"}
	g.Strings = []string{"", "s", "x y", "héllo", "1"}
	for i := 0; i < c.N(40); i++ {
		c.Tick()
		n := r.Intn(4)
		docs := make([]W, n)
		for j := range docs {
			docs[j] = g.Doc(r)
		}
		c.Do("mergefiles", c18Merge{Docs: docs})
	}
	// last, so that the cases above are the ones they were before this kind existed
	c18ManyCases(c)
}

// c18FailingReader hands out `left` bytes of the text, then reports an I/O error (never io.EOF).
type c18FailingReader struct {
	text string
	pos  int
	left int
}

func (r *c18FailingReader) Read(p []byte) (int, error) {
	if r.left <= 0 || r.pos >= len(r.text) {
		return 0, errors.New("injected read failure")
	}
	n := len(p)
	if n > r.left {
		n = r.left
	}
	if n > len(r.text)-r.pos {
		n = len(r.text) - r.pos
	}
	copy(p, r.text[r.pos:r.pos+n])
	r.pos += n
	r.left -= n
	return n, nil
}

// c18Permille: p permille of n, at most n-1 (a failing reader never hands out the whole text).
func c18Permille(p, n int) int {
	if p < 0 {
		p = 0
	}
	at := int(int64(n) * int64(p) / 1000)
	if at >= n {
		at = n - 1
	}
	if at < 0 {
		at = 0
	}
	return at
}

// c18Text serialises a wire document with the named encoder (nil: a malformed text).
func c18Text(doc W, enc string) string {
	if doc == nil {
		if enc == "json" {
			return `{"a": [1, 2`
		}
		return "a: [1, 2"
	}
	plain := wirePlain(doc)
	if enc == "json" {
		b, err := json.Marshal(plain)
		if err != nil {
			panic(err)
		}
		return string(b)
	}
	b, err := yaml.Marshal(plain)
	if err != nil {
		panic(err)
	}
	return string(b)
}

func c18Dec(enc string) dom.DecoderFunc {
	if enc == "json" {
		return dom.DefaultJsonDecoder
	}
	return dom.DefaultYamlDecoder
}

func c18ApiOpts(opts []c18Opt) []analytics.AddLayerOpt {
	var out []analytics.AddLayerOpt
	for _, o := range opts {
		switch o.K {
		case "tags":
			out = append(out, analytics.WithTags(o.Tags...))
		case "merge":
			out = append(out, analytics.MergeTags())
		case "must":
			out = append(out, analytics.MustCreate())
		}
	}
	return out
}

// c18Ref is the reference state read off the property text.
type c18Ref struct {
	order []string
	docs  map[string]string // canonical wire JSON of the document registered under a name
	tags  map[string]map[string]bool
}

func (ref *c18Ref) expectNames(ts []string) []string {
	out := []string{}
	for _, n := range ref.order {
		hit := false
		for _, t := range ts {
			if ref.tags[n][t] {
				hit = true
			}
		}
		if hit {
			out = append(out, n)
		}
	}
	return out
}

type c18Overlay struct {
	O      string
	Names  []string
	Layers []any
}

// MarshalJSON: names/layers only for outcome ok (the model's shape).
func (o c18Overlay) MarshalJSON() ([]byte, error) {
	if o.O != "ok" {
		return json.Marshal(map[string]any{"o": o.O})
	}
	return json.Marshal(map[string]any{"o": o.O, "names": o.Names, "layers": o.Layers})
}

func c18ObserveOverlay(f func() dom.OverlayDocument, strip func(string) string) (ov c18Overlay, layerDocs map[string]string) {
	layerDocs = map[string]string{}
	out, _ := guard(func() {
		o := f()
		names := o.LayerNames()
		layers := o.Layers()
		ov.Names = []string{}
		ov.Layers = []any{}
		for _, n := range names {
			w := nodeWire(layers[n])
			ov.Names = append(ov.Names, strip(n))
			ov.Layers = append(ov.Layers, []any{strip(n), w})
			layerDocs[strip(n)] = canon(w)
		}
		if len(layers) != len(names) {
			ov.Layers = append(ov.Layers, fmt.Sprintf("Layers() has %d entries", len(layers)))
		}
	})
	ov.O = out
	if out != "ok" {
		ov.Names, ov.Layers = nil, nil
	}
	return
}

func c18Eval(c *Ctx, kind string, raw []byte) {
	if kind == "mergefiles" {
		c18EvalMerge(c, raw)
		return
	}
	if kind == "bigdocs" {
		c18EvalBig(c, raw)
		return
	}
	if kind == "manytags" {
		c18EvalMany(c, raw)
		return
	}
	var cs c18Case
	if err := json.Unmarshal(raw, &cs); err != nil {
		panic(err)
	}
	direct := kind == "history"
	dir := filepath.Join(c.VerifDir, ".work", fmt.Sprintf("c18-%d", os.Getpid()))
	usesFiles := false
	for _, op := range cs.Ops {
		if op.K == "file" {
			usesFiles = true
		}
	}
	if usesFiles {
		_ = os.MkdirAll(dir, 0o755)
		defer os.RemoveAll(dir)
	}
	strip := func(n string) string {
		if strings.HasPrefix(n, dir+"/") {
			return "@/" + strings.TrimPrefix(n, dir+"/")
		}
		return n
	}
	c.Dist(fmt.Sprintf("history-len:%02d+", len(cs.Ops)/10*10))
	{
		var opNames, opTags []string
		for _, op := range cs.Ops {
			if op.K == "add" || op.K == "reader" {
				opNames = append(opNames, op.Name)
			}
			for _, o := range op.Opts {
				opTags = append(opTags, o.Tags...)
			}
		}
		for _, sh := range c18PoolShape(opNames) {
			c.Dist("names:" + sh)
		}
		for _, sh := range c18PoolShape(opTags) {
			c.Dist("tags:" + sh)
		}
	}

	ds := analytics.NewDocumentSet()
	ref := &c18Ref{order: []string{}, docs: map[string]string{}, tags: map[string]map[string]bool{}}
	var implSteps []any
	var modelOps []any
	var generated []string
	readds := 0
	// the instance that must be served under a name: the one handed to AddDocument / AddUnnamedDocument by the
	// call that registered it (for documents that came through a reader: the one served right after that call)
	inst := map[string]dom.ContainerBuilder{}
	unstrip := func(n string) string {
		if strings.HasPrefix(n, "@/") {
			return filepath.Join(dir, strings.TrimPrefix(n, "@/"))
		}
		return n
	}
	for i, op := range cs.Ops {
		// ---- the document as the set will hold it
		var docW W = op.Doc
		var text string
		if op.K == "reader" || op.K == "file" {
			text = c18Text(op.Doc, op.Enc)
			if op.Doc != nil {
				cb, err := dom.Builder().FromReader(strings.NewReader(text), c18Dec(op.Enc))
				if err != nil {
					panic(fmt.Sprintf("generated text does not decode: %v", err))
				}
				docW = nodeWire(cb)
			}
		}
		failing := op.K == "reader" && op.Doc != nil && op.FailAt != nil
		if failing {
			docW = nil // bad input: nothing is registered
		}
		name := op.Name
		if op.K == "file" {
			name = filepath.Join(dir, op.Name)
			_ = os.Remove(name)
			if op.Doc != nil {
				if err := os.WriteFile(name, []byte(text), 0o644); err != nil {
					panic(err)
				}
			}
		}
		if op.NameOf != nil && (op.K == "add" || op.K == "reader") {
			guard(func() {
				if ns := ds.AsOne().LayerNames(); len(ns) > 0 && *op.NameOf >= 0 {
					name = ns[*op.NameOf%len(ns)]
					c.Dist("name-read-back-from-LayerNames")
					for _, g := range generated {
						if g == strip(name) {
							c.Dist("name-read-back-from-LayerNames:a-generated-name")
						}
					}
				}
			})
		}
		// ---- execute
		var err error
		var added, servedBefore dom.ContainerBuilder
		out, txt := guard(func() {
			if op.K != "unnamed" {
				servedBefore = ds.NamedDocument(name)
			}
			if op.K == "add" || op.K == "unnamed" {
				added = wireContainer(op.Doc)
				if op.K == "add" && op.Same != "" {
					if same := ds.NamedDocument(unstrip(op.Same)); same != nil {
						added = same
						docW = nodeWire(same)
						c.Dist("add:same-instance-as-registered")
					}
				}
				if op.K == "add" && op.Clone && servedBefore != nil {
					if cl, ok := servedBefore.Clone().(dom.ContainerBuilder); ok {
						added = cl
						docW = nodeWire(cl)
						c.Dist("add:clone-of-served")
					}
				}
			}
			switch op.K {
			case "add":
				err = ds.AddDocument(name, added, c18ApiOpts(op.Opts)...)
			case "unnamed":
				err = ds.AddUnnamedDocument(added, c18ApiOpts(op.Opts)...)
			case "reader":
				var rd io.Reader = strings.NewReader(text)
				if failing {
					rd = &c18FailingReader{text: text, left: c18Permille(*op.FailAt, len(text))}
				}
				err = ds.AddDocumentFromReader(name, rd, c18Dec(op.Enc), c18ApiOpts(op.Opts)...)
			case "file":
				err = ds.AddDocumentFromFile(name, c18Dec(op.Enc), c18ApiOpts(op.Opts)...)
			}
		})
		if !c.Direct("no-panic(add)", out == "ok", map[string]any{"step": i, "panic": txt}) {
			return
		}
		c.Dist("op:" + op.K)
		// ---- observe
		asOne, asOneDocs := c18ObserveOverlay(func() dom.OverlayDocument { return ds.AsOne() }, strip)
		c.Direct("no-panic(AsOne)", asOne.O == "ok", map[string]any{"step": i})
		// ---- reference update, from the property text
		policy, nPol := "none", 0
		callTags := map[string]bool{"*": true}
		for _, o := range op.Opts {
			switch o.K {
			case "tags":
				for _, t := range o.Tags {
					callTags[t] = true
				}
			default:
				policy = o.K
				nPol++
			}
		}
		c.Dist("policy:" + policy)
		refName := strip(name)
		haveName := true // "" is a name like any other
		expectErr := false
		if op.K == "unnamed" {
			// the generated name is whatever new layer name appeared
			refName, haveName = "", false
			var fresh []string
			for _, n := range asOne.Names {
				if _, ok := ref.docs[n]; !ok {
					fresh = append(fresh, n)
				}
			}
			if direct {
				c.Direct("unnamed-gets-one-fresh-name", err == nil && len(fresh) == 1, map[string]any{"step": i, "fresh": fresh, "err": errTag(err)})
			}
			if len(fresh) == 1 {
				refName, haveName = fresh[0], true
				for _, g := range generated {
					c.Direct("unnamed-names-distinct", g != refName, map[string]any{"step": i, "name": refName})
				}
				generated = append(generated, refName)
			}
		}
		if ((op.K == "reader" || op.K == "file") && op.Doc == nil) || failing {
			expectErr = true
			c.Dist("input-error")
			if failing {
				c.Dist("input-error:reader-fails-part-way")
			}
		} else if haveName {
			if old, exists := ref.docs[refName]; exists {
				readds++
				c.Dist("readd:" + policy)
				if old == `{"m":{}}` {
					c.Dist("readd-over-empty-stored-document:" + policy)
				}
				if old == canon(docW) {
					c.Dist("readd-equal-content:" + policy)
					if len(op.Opts) == 0 {
						c.Dist("readd-equal-content:no-options-at-all")
					}
				}
				switch policy {
				case "must":
					expectErr = true
				case "merge":
					for t := range callTags {
						ref.tags[refName][t] = true
					}
				default:
					ref.docs[refName] = canon(docW)
					ref.tags[refName] = callTags
				}
			} else {
				ref.order = append(ref.order, refName)
				ref.docs[refName] = canon(docW)
				ref.tags[refName] = callTags
			}
		}
		step := map[string]any{"err": err != nil, "asOne": asOne}
		if direct && haveName {
			out, txt = guard(func() {
				servedNow := ds.NamedDocument(unstrip(refName))
				_, known := inst[refName]
				replaces := !expectErr && (!known || policy == "none")
				switch {
				case !replaces:
				case added != nil:
					// "the default makes the newly added document ... the one served under that name"
					inst[refName] = added
				default:
					// came through a reader: a document decoded by this call, so not the instance served before
					c.Direct("re-add-from-reader-serves-the-newly-read-document", servedNow == nil || servedNow != servedBefore,
						map[string]any{"step": i, "name": refName, "policy": policy})
					inst[refName] = servedNow
				}
				for _, n := range ref.order {
					want, ok := inst[n]
					if !ok {
						continue
					}
					got := ds.NamedDocument(unstrip(n))
					clause := "NamedDocument-is-the-registered-instance"
					if n == refName && !replaces {
						clause = "must-create/merge-tags/failed-add-keep-the-stored-instance"
					} else if n == refName {
						clause = "NamedDocument-is-the-newly-added-instance"
					}
					c.Direct(clause, got == want, map[string]any{"step": i, "name": n, "policy": policy, "served": nodeWire(got), "registered": nodeWire(want)})
				}
			})
			c.Direct("no-panic(NamedDocument)", out == "ok", txt)
		}
		if direct {
			c.Direct("error-iff-mustcreate-on-existing-or-bad-input", (err != nil) == expectErr, map[string]any{"step": i, "err": errTag(err), "expected_err": expectErr})
			c.Direct("AsOne-all-in-insertion-order", asOne.O != "ok" || canon(asOne.Names) == canon(ref.order), map[string]any{"step": i, "got": asOne.Names, "want": ref.order})
		}
		// ---- queries
		qs := []any{}
		if direct {
			star, _ := c18ObserveOverlay(func() dom.OverlayDocument { return ds.TaggedSubset("*") }, strip)
			c.Direct("AsOne==TaggedSubset(*)", canon(star) == canon(asOne), map[string]any{"step": i, "asOne": asOne, "star": star})
		}
		for _, ts := range cs.Queries {
			ov, docs := c18ObserveOverlay(func() dom.OverlayDocument { return ds.TaggedSubset(ts...) }, strip)
			qs = append(qs, ov)
			if !c.Direct("no-panic(TaggedSubset)", ov.O == "ok", map[string]any{"step": i, "tags": ts}) {
				continue
			}
			if !direct {
				continue
			}
			// the same query again (and with the tags in reverse order) selects the same
			rev := append([]string{}, ts...)
			for a, b := 0, len(rev)-1; a < b; a, b = a+1, b-1 {
				rev[a], rev[b] = rev[b], rev[a]
			}
			again, _ := c18ObserveOverlay(func() dom.OverlayDocument { return ds.TaggedSubset(ts...) }, strip)
			back, _ := c18ObserveOverlay(func() dom.OverlayDocument { return ds.TaggedSubset(rev...) }, strip)
			c.Direct("TaggedSubset-asked-twice-selects-the-same", canon(again) == canon(ov) && canon(back) == canon(ov), map[string]any{"step": i, "tags": ts, "first": ov, "again": again, "tags-reversed": back})
			want := ref.expectNames(ts)
			c.Direct("subset-names-are-exactly-the-tagged-in-insertion-order", canon(ov.Names) == canon(want), map[string]any{"step": i, "tags": ts, "got": ov.Names, "want": want})
			for _, n := range ov.Names {
				c.Direct("layer-content-is-registered-document", docs[n] == ref.docs[n], map[string]any{"step": i, "layer": n, "got": json.RawMessage(docs[n]), "want": json.RawMessage(ref.docs[n])})
			}
		}
		step["q"] = qs
		if direct && asOne.O == "ok" {
			for _, n := range asOne.Names {
				c.Direct("layer-content-is-registered-document", asOneDocs[n] == ref.docs[n], map[string]any{"step": i, "layer": n, "view": "AsOne"})
			}
		}
		named := []any{}
		out, txt = guard(func() {
			for _, n := range cs.Names {
				q := n
				if strings.HasPrefix(n, "@/") {
					q = filepath.Join(dir, strings.TrimPrefix(n, "@/"))
				}
				d := ds.NamedDocument(q)
				if d == nil {
					named = append(named, nil)
					if direct {
						_, has := ref.docs[n]
						c.Direct("NamedDocument-nil-iff-unknown", !has, map[string]any{"step": i, "name": n})
					}
					continue
				}
				w := nodeWire(d)
				named = append(named, w)
				if direct {
					c.Direct("NamedDocument-is-registered-document", canon(w) == ref.docs[n], map[string]any{"step": i, "name": n, "got": w})
				}
			}
		})
		c.Direct("no-panic(NamedDocument)", out == "ok", txt)
		step["named"] = named
		implSteps = append(implSteps, step)
		// ---- the same step for the model
		mop := map[string]any{"k": op.K, "name": strip(name), "doc": docW, "opts": op.Opts}
		if op.K == "file" {
			mop["k"] = "reader"
		}
		modelOps = append(modelOps, mop)
	}
	if readds > 0 {
		c.Nontrivial()
	}
	// names asked of NamedDocument: file names are held in their stripped form
	names := append([]string{}, cs.Names...)
	if modelOps == nil {
		modelOps = []any{}
	}
	if implSteps == nil {
		implSteps = []any{}
	}
	m := c.Model("run", map[string]any{"ops": modelOps, "queries": cs.Queries, "names": names})
	mm, _ := m.(map[string]any)
	var msteps, mgen any
	if mm != nil {
		if e, bad := mm["model_error"]; bad {
			c.Corr("model-error", "none", e)
		}
		msteps, mgen = mm["steps"], mm["genNames"]
		c.Corr("genNames-consistent", mm["gen"], mm["genNames"])
	}
	c.Corr("run", implSteps, msteps)
	if direct {
		if generated == nil {
			generated = []string{}
		}
		c.Corr("generated-names", generated, mgen)
	}
}

// c18EvalMerge: the pipeline template function mergeFiles == AsOne().Merged(append) of a set
// the files were added to in glob (sorted) order.
func c18EvalMerge(c *Ctx, raw []byte) {
	var cs c18Merge
	if err := json.Unmarshal(raw, &cs); err != nil {
		panic(err)
	}
	dir := filepath.Join(c.VerifDir, ".work", fmt.Sprintf("c18m-%d", os.Getpid()))
	_ = os.MkdirAll(dir, 0o755)
	defer os.RemoveAll(dir)
	var files []string
	for i, d := range cs.Docs {
		f := filepath.Join(dir, fmt.Sprintf("f%02d.yaml", i))
		if err := os.WriteFile(f, []byte(c18Text(d, "yaml")), 0o644); err != nil {
			panic(err)
		}
		files = append(files, f)
	}
	sort.Strings(files)
	c.Nontrivial()
	var got, want string
	var execErr error
	out, txt := guard(func() {
		data := dom.Builder().Container()
		ex := pipeline.New(pipeline.WithData(data))
		execErr = ex.Execute(&pipeline.TemplateOp{
			Template: `{{ mergeFiles ( glob "` + dir + `/*.yaml" ) | dom2json }}`, Path: "out"})
		if n := data.Lookup("out"); n != nil && n.IsLeaf() {
			got = fmt.Sprint(n.(dom.Leaf).Value())
		}
		ds := analytics.NewDocumentSet()
		for _, f := range files {
			if err := ds.AddDocumentFromFile(f, dom.DefaultYamlDecoder); err != nil {
				panic(err)
			}
		}
		var sb strings.Builder
		if err := ds.AsOne().Merged(dom.ListsMergeAppend()).Serialize(&sb, dom.DefaultNodeEncoderFn, dom.DefaultJsonEncoder); err != nil {
			panic(err)
		}
		want = sb.String()
	})
	c.Direct("no-panic(mergeFiles)", out == "ok", txt)
	c.Direct("mergeFiles-no-error", execErr == nil, fmt.Sprint(execErr))
	var g, w any
	_ = json.Unmarshal([]byte(got), &g)
	_ = json.Unmarshal([]byte(want), &w)
	c.Direct("mergeFiles==AsOne.Merged", canon(g) == canon(w), map[string]any{"got": got, "want": want})
}
