package main

import (
	"bufio"
	"bytes"
	"encoding/json"
	"fmt"
	"io"
	"math/rand"
	"os"
	"path/filepath"
	"strings"

	"github.com/rkosegi/yaml-toolkit/common"
	"github.com/rkosegi/yaml-toolkit/dom"
	"github.com/rkosegi/yaml-toolkit/props"
)

// Kind form (direct predicates only): the same set of pairs, handed to the decoder in the ways a caller
// of props.DecoderFn / FromReader can hand over "properties text":
//
//   - Layout — the way the text is written.  The property speaks of "properties text", not of the one
//     rendering `k=v\n` per pair: the last line with or without a line end, lines ended by CR LF, `k = v`,
//     `k:v`, `k v`, keys indented, comment and blank lines in front of / between / behind the pairs.  None of
//     this is part of a key or a value (values of the domain never START with a blank and contain no
//     '=' ':' '#' '!' backslash), so the decoded pairs are the generated ones.
//   - Reader / Preamble — what kind of io.Reader carries the text and where it stands.  An io.Reader is
//     read from its current position: a caller that has consumed a preamble (an envelope line, a length
//     prefix, a byte-order mark, an earlier document stored in front) hands over the rest, and the text
//     decoded is the rest.  Readers: strings.Reader, bytes.Reader, *os.File (all seekable), bufio.Reader
//     and a plain io.Reader (not seekable).
//   - Edit — what the caller does with the result of a decode before the same text is decoded again.  The
//     decoded map belongs to the caller; "decoding the same text always yields the same document" holds
//     whatever was done to earlier results (values overwritten, entries deleted / added in nested maps and
//     at the top).
type c16Form struct {
	Pairs    [][2]string `json:"pairs"`
	Layout   string      `json:"layout,omitempty"`
	Reader   string      `json:"reader,omitempty"`
	Preamble string      `json:"preamble,omitempty"`
	Edit     string      `json:"edit,omitempty"`
}

var c16Layouts = []string{"", "no-final-newline", "crlf", "crlf-no-final-newline", "spaced", "colon", "blank", "indented", "comments", "comments-no-final-newline", "blank-lines"}
var c16Readers = []string{"strings", "bytes", "file", "bufio", "plain"}
var c16Edits = []string{"", "set", "delete", "add", "clear", "replace-nested"}

// c16FormText writes the pairs in the given layout.
func c16FormText(pairs [][2]string, layout string) string {
	var sb strings.Builder
	eol, sep, indent := "\n", "=", ""
	switch layout {
	case "crlf", "crlf-no-final-newline":
		eol = "\r\n"
	case "spaced":
		sep = " = "
	case "colon":
		sep = ":"
	case "blank":
		sep = " "
	case "indented":
		indent = " \t"
	}
	comments := strings.HasPrefix(layout, "comments")
	if comments {
		sb.WriteString("# written by hand" + eol + "! a.b=9" + eol)
	}
	if layout == "blank-lines" {
		sb.WriteString(eol + " " + eol)
	}
	for i, e := range pairs {
		if i > 0 && comments && i%2 == 1 {
			sb.WriteString("#" + e[0] + "=commented-out" + eol + eol)
		}
		if i > 0 && layout == "blank-lines" {
			sb.WriteString(eol)
		}
		sb.WriteString(indent + e[0] + sep + e[1])
		if i+1 < len(pairs) || !strings.HasSuffix(layout, "no-final-newline") {
			sb.WriteString(eol)
		}
	}
	if layout == "comments" {
		sb.WriteString("# end" + eol)
	}
	if layout == "blank-lines" {
		sb.WriteString(eol + eol)
	}
	return sb.String()
}

// c16FormReader: a reader of kind `kind` over preamble+text from which the caller has already read the
// preamble.  The returned func releases it.
func c16FormReader(c *Ctx, kind, preamble, text string) (io.Reader, func()) {
	all := preamble + text
	var r io.Reader
	done := func() {}
	switch kind {
	case "bytes":
		r = bytes.NewReader([]byte(all))
	case "file":
		dir := filepath.Join(c.VerifDir, ".work", fmt.Sprintf("c16-form-%d", os.Getpid()))
		if err := os.MkdirAll(dir, 0o755); err != nil {
			panic(err)
		}
		name := filepath.Join(dir, "in.properties")
		if err := os.WriteFile(name, []byte(all), 0o644); err != nil {
			panic(err)
		}
		f, err := os.Open(name)
		if err != nil {
			panic(err)
		}
		r, done = f, func() { _ = f.Close(); _ = os.RemoveAll(dir) }
	case "bufio":
		r = bufio.NewReaderSize(strings.NewReader(all), 16)
	case "plain":
		r = &c16ChunkReader{s: all, step: 7}
	default:
		r = strings.NewReader(all)
	}
	if len(preamble) > 0 {
		if _, err := io.ReadFull(r, make([]byte, len(preamble))); err != nil {
			panic(err)
		}
	}
	return r, done
}

// c16FormEdit: the caller edits a decoded result it owns — at the top and in every nested map.
func c16FormEdit(m map[string]any, mode string) {
	keys := sortedKeys(m)
	for _, k := range keys {
		if sub, ok := m[k].(map[string]any); ok {
			c16FormEdit(sub, mode)
			if mode == "replace-nested" {
				m[k] = "EDITED"
			}
		}
	}
	switch mode {
	case "set":
		for _, k := range keys {
			if _, ok := m[k].(map[string]any); !ok {
				m[k] = "EDITED"
			}
		}
	case "delete":
		if len(keys) > 0 {
			delete(m, keys[0])
		}
	case "add":
		m["zz_added"] = "ADDED"
		m["zz_more"] = map[string]any{"x": "ADDED"}
	case "clear":
		for _, k := range keys {
			delete(m, k)
		}
	}
}

func c16GenForm(r *rand.Rand) c16Form {
	var kv c16KV
	switch r.Intn(4) {
	case 0:
		kv = c16Gen(r, 1)
	case 1:
		kv = c16GenDeep(r, 0)
	default:
		kv = c16Gen(r, 0)
	}
	if len(kv.Pairs) == 0 || r.Intn(3) == 0 { // at least one key below a container, most of the time
		kv.Pairs = append(kv.Pairs, [2]string{pick(r, []string{"db.host", "db.pool.min", "app.name", "srv.a.b.c"}), pick(r, c16Vals)})
	}
	p := c16Form{Pairs: kv.Pairs}
	// each aspect is varied in about half of the cases, so that all pairs of aspects meet often
	if r.Intn(2) == 0 {
		p.Layout = pick(r, c16Layouts[1:])
	}
	p.Reader = pick(r, c16Readers)
	if p.Reader == "file" && r.Intn(2) == 0 { // files are slow; keep them to about one case in ten
		p.Reader = pick(r, c16Readers[:2])
	}
	if r.Intn(2) == 0 {
		switch r.Intn(6) {
		case 0: // an envelope line
			p.Preamble = pick(r, []string{"bundle1\n", "---\n", "PROPS v2\r\n", "[section]\n"})
		case 1: // a length prefix / a byte-order mark
			p.Preamble = pick(r, []string{"\ufeff", "00000042", "17\n", "\x00\x00\x00\x2a"})
		case 2: // not ending at a line end
			p.Preamble = pick(r, []string{"x", "hdr.len=", "a.b"})
		default: // an earlier document stored in front: other pairs, some with keys of this set
			var sb strings.Builder
			for _, e := range c16Gen(r, 2).Pairs {
				sb.WriteString(e[0] + "=" + e[1] + "\n")
			}
			for _, e := range kv.Pairs {
				if r.Intn(3) == 0 {
					sb.WriteString(e[0] + "=earlier\n")
				}
			}
			sb.WriteString("zz_header.id=7\n")
			p.Preamble = sb.String()
		}
	}
	if r.Intn(3) != 0 {
		p.Edit = pick(r, c16Edits[1:])
	}
	return p
}

func c16RunForm(c *Ctx) {
	for i := 0; i < c.N(500); i++ {
		c.Tick()
		c.Do("form", c16GenForm(c.Rng))
	}
}

func c16EvalForm(c *Ctx, raw []byte) {
	var p c16Form
	if err := json.Unmarshal(raw, &p); err != nil {
		panic(err)
	}
	ok := func(s string, pool []string) bool {
		for _, x := range pool {
			if s == x {
				return true
			}
		}
		return false
	}
	if !ok(p.Layout, c16Layouts) || !ok(p.Edit, c16Edits) || (p.Reader != "" && !ok(p.Reader, c16Readers)) {
		return
	}
	kv := map[string]string{}
	for _, e := range p.Pairs {
		if !c16KeyRe.MatchString(e[0]) || !c16ValOK(e[1]) {
			return
		}
		if _, dup := kv[e[0]]; dup {
			return
		}
		kv[e[0]] = e[1]
	}
	if len(kv) == 0 {
		return
	}
	keys := sortedKeys(kv)
	prefixFree := c16PrefixFree(keys)
	nested := false
	for _, k := range keys {
		if strings.Contains(k, ".") {
			nested = true
		}
	}
	if nested && (p.Layout != "" || p.Preamble != "" || p.Edit != "") {
		c.Nontrivial()
	}
	c.Dist("form:layout=" + p.Layout)
	c.Dist("form:reader=" + p.Reader)
	c.Dist("form:edit-between-decodes=" + p.Edit)
	if p.Preamble != "" {
		c.Dist("form:reader-handed-over-behind-a-preamble")
		if p.Reader == "strings" || p.Reader == "bytes" || p.Reader == "file" {
			c.Dist("form:seekable-reader-behind-a-preamble")
		}
	}
	text := c16FormText(p.Pairs, p.Layout)
	wantFlat := map[string]any{}
	for k, v := range kv {
		wantFlat[k] = v
	}
	want := canon(c16FlatWire(wantFlat))
	how := map[string]any{"text": text, "reader": p.Reader, "preamble-read-by-the-caller": p.Preamble}

	out, txt := guard(func() {
		firstRaw, firstDom := "", ""
		var firstRawW, firstDomW W
		for i := 0; i < 6; i++ {
			// --- props.DecoderFn alone (odd runs: the provider's decoder)
			dec := dom.DecoderFunc(props.DecoderFn)
			if i%2 == 1 {
				dec = common.DefaultFileDecoderProvider("x.properties")
			}
			rd, done := c16FormReader(c, p.Reader, p.Preamble, text)
			res := map[string]any{}
			err := dec(rd, &res)
			done()
			if !c.Direct("decode-no-error", err == nil, fmt.Sprint(err)) {
				return
			}
			var sb strings.Builder
			c16PlainSig(&sb, res)
			if i == 0 {
				firstRaw, firstRawW = sb.String(), plainWire(res)
				if prefixFree {
					fl := map[string]any{}
					c16FlattenPlain(res, "", fl)
					got := c16FlatWire(fl)
					if !c.Direct("flattenPlain(DecoderFn(render(kv)))==kv", canon(got) == want, map[string]any{"decoded": got, "kv": json.RawMessage(want), "how": how}) {
						return
					}
				}
			} else if sb.String() != firstRaw {
				c.Direct("50-decodes-one-result", false, map[string]any{"run": i, "first": firstRawW, "this": plainWire(res),
					"between-the-decodes": "the caller edited the map it got from the earlier decode: " + p.Edit, "how": how})
				return
			}
			// the result belongs to the caller
			c16FormEdit(res, p.Edit)

			// --- the same through FromReader
			rd, done = c16FormReader(c, p.Reader, p.Preamble, text)
			cb, err := dom.Builder().FromReader(rd, dec)
			done()
			if !c.Direct("decode-no-error", err == nil, fmt.Sprint(err)) {
				return
			}
			s := c16NodeSig(cb)
			if i == 0 {
				firstDom, firstDomW = s, nodeWire(cb)
				if prefixFree {
					got := flattenWire(cb)
					if !c.Direct("flatten(FromReader(render(kv)))==kv", canon(got) == want, map[string]any{"flatten": got, "kv": json.RawMessage(want), "how": how}) {
						return
					}
				}
			} else if s != firstDom {
				c.Direct("50-decodes-one-result", false, map[string]any{"run": i, "first": firstDomW, "this": nodeWire(cb), "route": "FromReader",
					"between-the-decodes": "the caller edited the map it got from an earlier props.DecoderFn call: " + p.Edit, "how": how})
				return
			}
		}
		// one text, whatever carries it: the same text from a fresh strings.Reader at offset 0 decodes to the same tree
		if p.Preamble != "" || (p.Reader != "strings" && p.Reader != "") {
			res := map[string]any{}
			err := props.DecoderFn(strings.NewReader(text), &res)
			if !c.Direct("decode-no-error", err == nil, fmt.Sprint(err)) {
				return
			}
			var sb strings.Builder
			c16PlainSig(&sb, res)
			c.Direct("50-decodes-one-result", sb.String() == firstRaw, map[string]any{"first": firstRawW, "this": plainWire(res),
				"this-decode": "the same text from a fresh strings.Reader", "how": how})
		}
	})
	c.Direct("no-panic", out == "ok", txt)
}

func c16ShrinkForm(raw []byte) [][]byte {
	var p c16Form
	if json.Unmarshal(raw, &p) != nil {
		return nil
	}
	var out [][]byte
	add := func(q c16Form) {
		if b, err := json.Marshal(q); err == nil && len(b) < len(raw) {
			out = append(out, b)
		}
	}
	for _, f := range []func(q *c16Form){
		func(q *c16Form) { q.Preamble = "" },
		func(q *c16Form) { q.Layout = "" },
		func(q *c16Form) {
			if strings.HasSuffix(q.Layout, "-no-final-newline") {
				q.Layout = "no-final-newline"
			}
		},
		func(q *c16Form) { q.Edit = "" },
		func(q *c16Form) { q.Reader = "" },
		func(q *c16Form) { q.Reader = "bytes" },
		func(q *c16Form) { q.Preamble = "x\n" },
		func(q *c16Form) { q.Preamble = "x=1\n" },
		func(q *c16Form) {
			if i := strings.Index(q.Preamble, "\n"); i >= 0 && i+1 < len(q.Preamble) {
				q.Preamble = q.Preamble[i+1:]
			}
		},
		func(q *c16Form) { q.Edit = "set" },
	} {
		q := p
		f(&q)
		add(q)
	}
	// smaller pair sets (proposals of the kv shrinker)
	kvRaw, _ := json.Marshal(c16KV{Pairs: p.Pairs})
	for _, b := range c16Shrink("kv", kvRaw) {
		var kv c16KV
		if json.Unmarshal(b, &kv) == nil {
			q := p
			q.Pairs = kv.Pairs
			add(q)
		}
	}
	if len(out) > 600 {
		out = out[:600]
	}
	return out
}
