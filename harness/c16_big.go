package main

import (
	"bytes"
	"encoding/json"
	"fmt"
	"io"
	"math/rand"
	"regexp"
	"strings"

	"github.com/rkosegi/yaml-toolkit/common"
	"github.com/rkosegi/yaml-toolkit/dom"
	"github.com/rkosegi/yaml-toolkit/props"
	"github.com/rkosegi/yaml-toolkit/utils"
)

// C16 — two further case kinds, both evaluated with direct predicates only (no model call):
//
//   "dots": the determinism clause ("decoding the same text always yields the same document,
//           whatever the keys") on keys OUTSIDE the path-safe shape of the exactness clauses: keys
//           with a leading / trailing / doubled separator, next to the same key without it and with
//           another value.  Only "50 repeated decodes give one result" is evaluated on them.
//   "big":  the exactness clauses on LARGE prefix-free key sets (the quantifier is over all finite
//           sets): rendered properties text from ~64 KiB up to several MiB, with tens of thousands
//           of ordinary pairs or a few pairs with very long values.

// ------------------------------------------------------------------ dots

// keys of a "dots" case: segments over the path-safe alphabet, any of them empty
var c16DotKeyRe = regexp.MustCompile(`^[A-Za-z0-9_-]*(\.[A-Za-z0-9_-]*)*$`)

// c16DotVariants: the key with stray separators around / inside it.
func c16DotVariant(r *rand.Rand, k string) string {
	switch r.Intn(8) {
	case 0, 1:
		return k + "."
	case 2, 3:
		return "." + k
	case 4:
		return "." + k + "."
	case 5:
		if i := strings.Index(k, "."); i > 0 {
			return k[:i] + "." + k[i:]
		}
		return k + ".."
	case 6:
		return ".." + k
	default:
		return k + ".."
	}
}

func c16GenDots(r *rand.Rand) c16KV {
	base := c16Gen(r, r.Intn(3))
	if len(base.Pairs) == 0 {
		base.Pairs = append(base.Pairs, [2]string{c16Key(r), pick(r, c16Vals)})
	}
	have := map[string]bool{}
	for _, e := range base.Pairs {
		have[e[0]] = true
	}
	other := func(v string) string { // a value different from v
		for {
			if w := pick(r, c16Vals); w != v {
				return w
			}
		}
	}
	for m := 1 + r.Intn(3); m > 0; m-- {
		e := base.Pairs[r.Intn(len(base.Pairs))]
		k, v := c16DotVariant(r, e[0]), other(e[1])
		if r.Intn(6) == 0 { // a stray-separator key without its plain twin
			k = c16DotVariant(r, c16Key(r))
		}
		if r.Intn(12) == 0 {
			k = pick(r, []string{".", "..", "..."})
		}
		if !have[k] {
			have[k] = true
			base.Pairs = append(base.Pairs, [2]string{k, v})
		}
	}
	r.Shuffle(len(base.Pairs), func(i, j int) { base.Pairs[i], base.Pairs[j] = base.Pairs[j], base.Pairs[i] })
	return base
}

func c16EvalDots(c *Ctx, raw []byte) {
	var p c16KV
	if err := json.Unmarshal(raw, &p); err != nil {
		panic(err)
	}
	seen := map[string]bool{}
	stray := 0
	for _, e := range p.Pairs {
		if e[0] == "" || !c16DotKeyRe.MatchString(e[0]) || !c16ValRe.MatchString(e[1]) || seen[e[0]] {
			return
		}
		seen[e[0]] = true
		if !c16KeyRe.MatchString(e[0]) {
			stray++
		}
	}
	if stray > 0 && len(p.Pairs) >= 2 {
		c.Nontrivial()
	}
	twins := 0
	for k := range seen {
		if t := strings.Trim(strings.ReplaceAll(k, "..", "."), "."); t != k && seen[t] {
			twins++
		}
	}
	c.Dist(fmt.Sprintf("dots:stray-separator-keys=%d", min(stray, 3)))
	if twins > 0 {
		c.Dist("dots:key-next-to-its-plain-twin")
	}
	var sb strings.Builder
	for _, e := range p.Pairs {
		sb.WriteString(e[0] + "=" + e[1] + "\n")
	}
	text := sb.String()
	out, txt := guard(func() {
		// the decoded document, observed through Children()/Value() and through AsMap() (Flatten is
		// not an observation here: two children may flatten to one dotted name)
		first, firstMap := "", ""
		for i := 0; i < c16Repeats; i++ {
			dec := props.DecoderFn
			if i%2 == 1 {
				dec = common.DefaultFileDecoderProvider("x.properties")
			}
			cb, err := dom.Builder().FromReader(strings.NewReader(text), dec)
			if !c.Direct("decode-no-error", err == nil, fmt.Sprint(err)) {
				return
			}
			s, sm := mustJSON(nodeWire(cb)), canon(plainWire(cb.AsMap()))
			if i == 0 {
				first, firstMap = s, sm
			}
			if !c.Direct("50-decodes-one-result", s == first && sm == firstMap,
				map[string]any{"through": "FromReader(text, props.DecoderFn)", "run": i, "first": json.RawMessage(first), "this": json.RawMessage(s)}) {
				return
			}
		}
		// the decoder function alone
		firstD := ""
		for i := 0; i < c16Repeats; i++ {
			res := map[string]any{}
			err := props.DecoderFn(&buf2{bytes.NewReader([]byte(text))}, &res)
			if !c.Direct("decode-no-error", err == nil, fmt.Sprint(err)) {
				return
			}
			s := canon(plainWire(res))
			if i == 0 {
				firstD = s
			}
			if !c.Direct("50-decodes-one-result", s == firstD,
				map[string]any{"through": "props.DecoderFn", "run": i, "first": json.RawMessage(firstD), "this": json.RawMessage(s)}) {
				return
			}
		}
	})
	c.Direct("no-panic", out == "ok", txt)
}

// ------------------------------------------------------------------ big

// c16Big describes a large prefix-free set compactly (a replay file holds the description, not the
// megabytes): block b holds Blocks[b] pairs
//
//	b<b>.s<j mod 41>.k<j> = <j>_<b>_xyzxyz…   (value padded to ValLen characters; never shorter than the two numbers)
//
// All keys have three path-safe segments and a last segment that is unique within its block, so no
// key is a dotted prefix of another.
//
// Extra: ordinary pairs (keys below x., plain TEXT values: words separated by blanks, see c16Phrases) that stand in the
// same text, the first Head of them in front of the blocks and the others behind them — a large set is not made of
// synthetic padding only, the pairs next to a very long line are as much part of the set as the long line is.
type c16Big struct {
	Blocks []int       `json:"blocks"`
	ValLen int         `json:"valLen"`
	Extra  [][2]string `json:"extra,omitempty"`
	Head   int         `json:"head,omitempty"`
}

// c16Phrases: plain values (no escaping needed: c16ValOK) that are TEXT — words and blanks — and that spell what is
// syntax in the formats properties files live next to (shell env files, ini sections, YAML, SQL, XML).
var c16Phrases = []string{"data export enabled", "export PATH", "export -p", "include other.properties", "import x", "[section]",
	"- item", "set -e", "source ./env", "unset X", "if [ -f x ]; then", "<tag>", "--- ", "%YAML 1.2", "select * from t", "a, b; c",
	"true false", "1 2 3", "x ", "a\tb c"}

const c16BigMaxPairs = 400000
const c16BigMaxBytes = 24 << 20

func c16BigPairs(p c16Big) (keys []string, kv map[string]string, text string, ok bool) {
	total, bytesEst := 0, 0
	for _, n := range p.Blocks {
		if n < 0 {
			return nil, nil, "", false
		}
		total += n
		bytesEst += n * (20 + p.ValLen + 12)
	}
	if p.ValLen < 0 || total > c16BigMaxPairs || bytesEst > c16BigMaxBytes {
		return nil, nil, "", false
	}
	if len(p.Extra) > 64 || p.Head < 0 || p.Head > len(p.Extra) {
		return nil, nil, "", false
	}
	for i, e := range p.Extra {
		if !strings.HasPrefix(e[0], "x.") || !c16KeyRe.MatchString(e[0]) || !c16ValOK(e[1]) || len(e[1]) > 200 {
			return nil, nil, "", false
		}
		for j, f := range p.Extra {
			if i != j && (e[0] == f[0] || strings.HasPrefix(f[0], e[0]+".")) {
				return nil, nil, "", false
			}
		}
		bytesEst += len(e[0]) + len(e[1]) + 2
	}
	kv = make(map[string]string, total+len(p.Extra))
	keys = make([]string, 0, total+len(p.Extra))
	var sb strings.Builder
	sb.Grow(bytesEst)
	extra := func(es [][2]string) {
		for _, e := range es {
			kv[e[0]] = e[1]
			keys = append(keys, e[0])
			sb.WriteString(e[0] + "=" + e[1] + "\n")
		}
	}
	extra(p.Extra[:p.Head])
	const fill = "xyz-ABC_012."
	pad := strings.Repeat(fill, p.ValLen/len(fill)+1)
	for b, n := range p.Blocks {
		for j := 0; j < n; j++ {
			k := fmt.Sprintf("b%d.s%d.k%d", b, j%41, j)
			v := fmt.Sprintf("%d_%d_", j, b)
			if len(v) < p.ValLen {
				v += pad[:p.ValLen-len(v)]
			}
			kv[k] = v
			keys = append(keys, k)
			sb.WriteString(k)
			sb.WriteByte('=')
			sb.WriteString(v)
			sb.WriteByte('\n')
		}
	}
	extra(p.Extra[p.Head:])
	return keys, kv, sb.String(), true
}

// c16BigDiff compares flattened leaves with the pairs; the detail stays small.
func c16BigDiff(got map[string]string, kv map[string]string) (bool, map[string]any) {
	missing, wrong, extra := 0, 0, 0
	var exMissing, exWrong, exExtra string
	for k, v := range kv {
		g, in := got[k]
		switch {
		case !in:
			if missing++; exMissing == "" || k < exMissing {
				exMissing = k
			}
		case g != v:
			if wrong++; exWrong == "" || k < exWrong {
				exWrong = k
			}
		}
	}
	for k := range got {
		if _, in := kv[k]; !in {
			if extra++; exExtra == "" || k < exExtra {
				exExtra = k
			}
		}
	}
	if missing+wrong+extra == 0 {
		return true, nil
	}
	clip := func(s string) string {
		if len(s) > 60 {
			return fmt.Sprintf("%s…(%d bytes)", s[:60], len(s))
		}
		return s
	}
	d := map[string]any{"pairs": len(kv), "leaves": len(got), "missing": missing, "wrong-value": wrong, "not-in-kv": extra}
	if exMissing != "" {
		d["first-missing-key"] = exMissing
	}
	if exWrong != "" {
		d["first-wrong-key"] = exWrong
		d["its-value"] = clip(got[exWrong])
		d["expected-value"] = clip(kv[exWrong])
	}
	if exExtra != "" {
		d["first-key-not-in-kv"] = clip(exExtra)
	}
	return false, d
}

func c16LeafStrings(c dom.Container) map[string]string {
	f := c.Flatten()
	out := make(map[string]string, len(f))
	for k, l := range f {
		if s, ok := l.Value().(string); ok {
			out[k] = s
		} else {
			out[k] = fmt.Sprintf("<%T>%v", l.Value(), l.Value())
		}
	}
	return out
}

func c16PlainStrings(m map[string]any) map[string]string {
	fl := map[string]any{}
	c16FlattenPlain(m, "", fl)
	out := make(map[string]string, len(fl))
	for k, v := range fl {
		if s, ok := v.(string); ok {
			out[k] = s
		} else {
			out[k] = fmt.Sprintf("<%T>%v", v, v)
		}
	}
	return out
}

// c16EncoderDecoys: both encoders are called on an unrelated map / document with a writer that fails
// after 0 / 3 / 17 / 40 bytes (chosen by salt) — an earlier encode that failed part-way must leave
// no trace in a later one (the round-trip clause holds for every history of calls).
func c16EncoderDecoys(salt int) {
	n := []int{0, 3, 17, 40}[salt%4]
	decoy := map[string]interface{}{"zz_decoy.user": "u", "zz_decoy.password": "p", "zz_decoy.url": "jdbc.x"}
	_ = props.EncoderFn(&failAfterWriter{n: n}, decoy)
	decoyDom := dom.Builder().Container()
	decoyDom.AddValue("zz_decoy.user", dom.LeafNode("u")).AddValue("zz_decoy.password", dom.LeafNode("p")).AddValue("zz_decoy.url", dom.LeafNode("jdbc.x"))
	_ = props.DomEncoderFn(&failAfterWriter{n: n}, decoyDom)
}

// c16FailReader hands out the first n bytes of s and then fails.
type c16FailReader struct {
	s string
	n int
}

var errC16Reader = fmt.Errorf("reader fails")

func (r *c16FailReader) Read(p []byte) (int, error) {
	if r.n <= 0 || len(r.s) == 0 {
		return 0, errC16Reader
	}
	n := min(len(p), r.n, len(r.s))
	copy(p, r.s[:n])
	r.s, r.n = r.s[n:], r.n-n
	return n, nil
}

// c16DecoyText: an unrelated text of 740 bytes (keys outside every pool).
var c16DecoyText = strings.Repeat("zz_decoy.user=u\nzz_decoy.password=p\n", 20)

// c16ChunkReader is a plain io.Reader handing out the text in pieces of an odd size.
type c16ChunkReader struct {
	s    string
	step int
}

func (r *c16ChunkReader) Read(p []byte) (int, error) {
	if len(r.s) == 0 {
		return 0, io.EOF
	}
	n := min(len(p), r.step, len(r.s))
	copy(p, r.s[:n])
	r.s = r.s[n:]
	return n, nil
}

func c16EvalBig(c *Ctx, raw []byte) {
	var p c16Big
	if err := json.Unmarshal(raw, &p); err != nil {
		panic(err)
	}
	_, kv, text, ok := c16BigPairs(p)
	if !ok {
		return
	}
	if len(kv) >= 2 {
		c.Nontrivial()
	}
	switch n := len(text); {
	case n > 4<<20:
		c.Dist("big:text>4MiB")
	case n > 1<<20:
		c.Dist("big:text>1MiB")
	case n > 64<<10:
		c.Dist("big:text>64KiB")
	default:
		c.Dist("big:text<=64KiB")
	}
	if p.ValLen > 64<<10 {
		c.Dist("big:line>64KiB")
	}
	if len(p.Extra) > 0 {
		c.Dist("big:with-ordinary-pairs-whose-values-are-text")
	}
	c16ExactLarge(c, kv, text)
}

// c16ExactLarge: the exactness clauses on a (possibly large) prefix-free set kv and its rendered
// text, through every entry point, with small details.
func c16ExactLarge(c *Ctx, kv map[string]string, text string) {
	kvAny := func() map[string]any {
		m := make(map[string]any, len(kv))
		for k, v := range kv {
			m[k] = v
		}
		return m
	}
	size := map[string]any{"text-bytes": len(text)}
	with := func(d map[string]any) map[string]any {
		if d == nil {
			return size
		}
		d["text-bytes"] = len(text)
		return d
	}
	out, txt := guard(func() {
		// --- FromReader with props.DecoderFn: from a strings.Reader, from a plain reader that hands
		// out small pieces, and with the decoder obtained from the file-name provider
		readers := []struct {
			name string
			mk   func() io.Reader
			dec  dom.DecoderFunc
		}{
			{"strings.Reader", func() io.Reader { return strings.NewReader(text) }, props.DecoderFn},
			{"plain io.Reader, 4093-byte pieces", func() io.Reader { return &c16ChunkReader{s: text, step: 4093} }, props.DecoderFn},
			{"DefaultFileDecoderProvider(x.properties)", func() io.Reader { return bytes.NewBufferString(text) }, common.DefaultFileDecoderProvider("x.properties")},
		}
		for i, rd := range readers {
			// a decode of an unrelated text whose reader fails part-way (after 0 / 3 / 700 bytes) comes
			// first: it must leave no trace in the decode that follows
			decoy := &c16FailReader{s: c16DecoyText, n: []int{0, 3, 700}[i%3]}
			_, _ = dom.Builder().FromReader(decoy, rd.dec)
			cb, err := dom.Builder().FromReader(rd.mk(), rd.dec)
			if !c.Direct("decode-no-error", err == nil, with(map[string]any{"reader": rd.name, "error": fmt.Sprint(err)})) {
				continue
			}
			first := c16LeafStrings(cb)
			same, d := c16BigDiff(first, kv)
			if d != nil {
				d["reader"] = rd.name
			}
			c.Direct("flatten(FromReader(render(kv)))==kv", same, with(d))
			// flattening the same document again gives the same pairs, and leaves the first result as it was
			firstMap := cb.Flatten()
			same, d = c16BigDiff(c16LeafStrings(cb), kv)
			if d != nil {
				d["reader"], d["flatten"] = rd.name, "second call on the same document"
			}
			c.Direct("flatten(FromReader(render(kv)))==kv", same, with(d))
			again := make(map[string]string, len(firstMap))
			for k, l := range firstMap {
				again[k] = fmt.Sprint(l.Value())
			}
			same, d = c16BigDiff(again, kv)
			if d != nil {
				d["reader"], d["flatten"] = rd.name, "earlier result, read after a later Flatten call"
			}
			c.Direct("flatten(FromReader(render(kv)))==kv", same, with(d))
		}
		// --- the decoder function alone
		{
			res := map[string]any{}
			err := props.DecoderFn(&c16ChunkReader{s: text, step: 65521}, &res)
			if c.Direct("decode-no-error", err == nil, with(map[string]any{"error": fmt.Sprint(err)})) {
				same, d := c16BigDiff(c16PlainStrings(res), kv)
				c.Direct("flattenPlain(DecoderFn(render(kv)))==kv", same, with(d))
			}
		}
		// --- FromProperties, utils.Unflatten
		{
			same, d := c16BigDiff(c16LeafStrings(dom.Builder().FromProperties(kvAny())), kv)
			c.Direct("flatten(FromProperties(kv))==kv", same, with(d))
			same, d = c16BigDiff(c16PlainStrings(utils.Unflatten(kvAny())), kv)
			c.Direct("flattenPlain(Unflatten(kv))==kv", same, with(d))
		}
		// --- encoders and the way back
		c16EncoderDecoys(len(text))
		{
			var buf bytes.Buffer
			err := props.EncoderFn(&buf, kvAny())
			c.Direct("encode-no-error", err == nil, with(map[string]any{"error": fmt.Sprint(err)}))
			back, ok := c16ParseLines(buf.String())
			same, d := c16BigDiff(back, kv)
			c.Direct("EncoderFn-writes-one-k=v-line-per-entry", ok && same, with(d))
			res := map[string]any{}
			err = props.DecoderFn(&buf2{bytes.NewReader(buf.Bytes())}, &res)
			if c.Direct("decode-no-error", err == nil, with(map[string]any{"error": fmt.Sprint(err)})) {
				same, d = c16BigDiff(c16PlainStrings(res), kv)
				c.Direct("DecoderFn(EncoderFn(kv))==kv", same, with(d))
			}
		}
		{
			flat := dom.Builder().Container()
			for k, v := range kv {
				flat.AddValue(k, dom.LeafNode(v))
			}
			var buf bytes.Buffer
			err := props.DomEncoderFn(&buf, flat)
			c.Direct("encode-no-error", err == nil, with(map[string]any{"error": fmt.Sprint(err)}))
			back, ok := c16ParseLines(buf.String())
			same, d := c16BigDiff(back, kv)
			c.Direct("DomEncoderFn-writes-one-k=v-line-per-entry", ok && same, with(d))
			cb, err := dom.Builder().FromReader(&buf, props.DecoderFn)
			if c.Direct("decode-no-error", err == nil, with(map[string]any{"error": fmt.Sprint(err)})) {
				same, d = c16BigDiff(c16LeafStrings(cb), kv)
				c.Direct("DecoderFn(DomEncoderFn(kv))==kv", same, with(d))
			}
		}
	})
	c.Direct("no-panic", out == "ok", txt)
}

// c16GenBig: a set whose rendered text has about `bytes` bytes, in blocks of `per` pairs.
func c16GenBig(r *rand.Rand, bytes, valLen, per int) c16Big {
	pairs := min(bytes/(valLen+16)+1, 300000)
	p := c16Big{ValLen: valLen, Blocks: []int{}}
	for pairs > 0 {
		n := min(per, pairs)
		p.Blocks = append(p.Blocks, n)
		pairs -= n
	}
	return p
}

// c16RunBig: a fixed handful of large cases per run (their number does not grow with the case
// budget of the quick tier), sizes drawn from the run's PRNG.
func c16RunBig(c *Ctx) {
	r := c.Rng
	kib := func(lo, hi int) int { return (lo + r.Intn(hi-lo)) << 10 }
	cases := []c16Big{
		c16GenBig(r, kib(70, 1000), 8+r.Intn(60), 1000),                 // below 1 MiB, ordinary pairs
		c16GenBig(r, kib(1100, 2600), 20+r.Intn(60), 1000),              // above 1 MiB: tens of thousands of pairs
		c16GenBig(r, kib(4200, 5600), 80+r.Intn(60), 2000),              // above 4 MiB
		c16GenBig(r, kib(200, 3000), (66+r.Intn(200))<<10, 1+r.Intn(3)), // a few pairs, each line longer than 64 KiB
	}
	// a few pairs with lines longer than 64 KiB (up to 200 KiB) in the middle of ordinary pairs whose values are text:
	// every phrase of the pool once, in a random order, some in front of the long lines and some behind them
	for i := 0; i < 2; i++ {
		cs := c16GenBig(r, kib(70, 400), (65+r.Intn(135))<<10, 1+r.Intn(2))
		for j, k := range r.Perm(len(c16Phrases)) {
			if c16ValOK(c16Phrases[k]) {
				cs.Extra = append(cs.Extra, [2]string{fmt.Sprintf("x.e%d.%s", j, pick(r, c16Segs)), c16Phrases[k]})
			}
		}
		cs.Head = r.Intn(len(cs.Extra) + 1)
		cases = append(cases, cs)
	}
	if c.Thorough() {
		for i := 0; i < 3; i++ {
			cases = append(cases, c16GenBig(r, kib(60, 7000), 8+r.Intn(300), 1000))
		}
		cases = append(cases, c16GenBig(r, kib(2000, 8000), (1+r.Intn(2000))<<10, 1))
	}
	for _, cs := range cases {
		c.Tick()
		c.Do("big", cs)
	}
}

// c16ShrinkDots: one leading segment less in EVERY key that starts with it (a key and its
// stray-separator twin stay twins).
func c16ShrinkDots(p c16KV, add func(c16KV)) {
	seen := map[string]bool{}
	for _, e := range p.Pairs {
		i := strings.Index(e[0], ".")
		if i <= 0 || seen[e[0][:i+1]] {
			continue
		}
		pre := e[0][:i+1]
		seen[pre] = true
		q := c16KV{Pairs: make([][2]string, len(p.Pairs))}
		copy(q.Pairs, p.Pairs)
		keys := map[string]bool{}
		ok := true
		for j := range q.Pairs {
			if k := q.Pairs[j][0]; strings.HasPrefix(k, pre) && len(k) > len(pre) {
				q.Pairs[j][0] = k[len(pre):]
			}
			if keys[q.Pairs[j][0]] {
				ok = false
			}
			keys[q.Pairs[j][0]] = true
		}
		if ok {
			add(q)
		}
	}
}

// c16ShrinkBig: fewer blocks (halves first, then single blocks), smaller blocks, shorter values —
// every candidate has a shorter description.
func c16ShrinkBig(raw []byte) [][]byte {
	var p c16Big
	if json.Unmarshal(raw, &p) != nil {
		return nil
	}
	var out [][]byte
	add := func(q c16Big) {
		if q.Blocks == nil {
			q.Blocks = []int{}
		}
		if b, err := json.Marshal(q); err == nil && len(b) < len(raw) {
			out = append(out, b)
		}
	}
	if len(p.Extra) > 0 {
		// the ordinary pairs: none, one half, one less; then the blocks / the value length with the pairs kept
		add(c16Big{Blocks: p.Blocks, ValLen: p.ValLen})
		h := len(p.Extra) / 2
		add(c16Big{Blocks: p.Blocks, ValLen: p.ValLen, Extra: p.Extra[:h], Head: min(p.Head, h)})
		add(c16Big{Blocks: p.Blocks, ValLen: p.ValLen, Extra: p.Extra[h:], Head: max(p.Head-h, 0)})
		for i := range p.Extra {
			q := c16Big{Blocks: p.Blocks, ValLen: p.ValLen, Extra: append(append([][2]string{}, p.Extra[:i]...), p.Extra[i+1:]...), Head: p.Head}
			if i < p.Head {
				q.Head--
			}
			add(q)
		}
		for i, e := range p.Extra {
			if j := strings.LastIndex(e[1], " "); j > 0 {
				q := c16Big{Blocks: p.Blocks, ValLen: p.ValLen, Extra: append([][2]string{}, p.Extra...), Head: p.Head}
				q.Extra[i] = [2]string{e[0], e[1][:j+1]}
				if q.Extra[i][1] == e[1] {
					q.Extra[i][1] = e[1][:j]
				}
				add(q)
			}
		}
	}
	n := len(p.Blocks)
	for cut := n / 2; cut >= 1; cut /= 2 {
		add(c16Big{Blocks: append([]int{}, p.Blocks[:n-cut]...), ValLen: p.ValLen, Extra: p.Extra, Head: p.Head})
	}
	for _, d := range []int{10, 2} {
		if p.ValLen/d < p.ValLen {
			add(c16Big{Blocks: p.Blocks, ValLen: p.ValLen / d, Extra: p.Extra, Head: p.Head})
		}
	}
	for i, b := range p.Blocks {
		if i >= 8 && i < n-8 {
			continue
		}
		for _, nb := range []int{b / 10, b / 2, b - b/10 - 1} {
			if nb >= 0 && nb < b {
				q := c16Big{Blocks: append([]int{}, p.Blocks...), ValLen: p.ValLen, Extra: p.Extra, Head: p.Head}
				q.Blocks[i] = nb
				add(q)
			}
		}
	}
	if p.ValLen > 0 {
		add(c16Big{Blocks: p.Blocks, ValLen: p.ValLen - 1, Extra: p.Extra, Head: p.Head})
	}
	return out
}
