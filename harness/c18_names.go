package main

import (
	"math/rand"
	"strings"
	"unicode"
)

// C18 — value-range breadth of the two string-valued inputs of a document set: layer NAMES and TAGS.
//
// The property speaks of "names from a small pool" and "tag sets from a small pool": a name is whatever string the
// caller hands to AddDocument / AddDocumentFromReader, a tag whatever string was given to WithTags / TaggedSubset.
// Two names (two tags) are the same exactly when they are the same string; so the pools of half of the histories are
// drawn from FAMILIES of confusable spellings - path-like names that differ in doubled / trailing separators, "./"
// prefixes and "." / ".." segments, letter case, leading / trailing / inner white space (space, tab, NBSP, line
// break), Unicode composition, supplementary-plane characters, U+FFFD, characters that look like syntax, digit
// strings around 2^63 / 2^64, boolean / null spellings, the empty string, prefixes of each other and near misses of
// the generated default__N form - and the NamedDocument probes of such a history contain further members of the same
// families that are NOT in the pool (never registered: nil is the only right answer).

var c18NameFamilies = [][]string{
	{"env/dev", "env//dev", "env/dev/", "./env/dev", "env/./dev", "env/x/../dev", "/env/dev", "env/dev/.", "Env/Dev", "env\\dev", "env/dev.yaml"},
	{"plain", "./plain", "plain/", "plain/.", "x/../plain", " plain", "plain ", "PLAIN", "Plain", "plain\n"},
	{"d/e.yaml", "d//e.yaml", "./d/e.yaml", "d/e.yaml/", "d/../d/e.yaml", "d/e.YAML", "d/e.yml", "D/e.yaml"},
	{"a", "A", " a", "a ", "a\t", "a\n", "a\u00a0", "\u00a0a", "\uff41", "\u0430", "a\r\n"},
	{"maxConn", "maxconn", "MAXCONN", "MaxConn", "maxConn ", "max Conn", "max_conn"},
	{"n", "n5", "n55", "n5.", "n5/", "N5", "n05"},
	{"\u00e9", "e\u0301", "\u00c9", "e", "\u00e9 "},
	{"\U0001F680", "\U0001F680 ", "\U0001D6FC", "\U0001D6FC/\u03b2", "\ufffd", "\ufffd\ufffd", "\u03b1"},
	{"", " ", ".", "..", "/", "//", "./", "~", "*", "\t"},
	{"a.b", "a..b", "a[0]", "a/b", "a:b", "a=b", "{a}", "${a}", "#a", "!a", "a\\b", "(a)", "[a]", "a.b.", ".a.b"},
	{"1", "01", "1.0", "+1", "9223372036854775807", "9223372036854775808", "18446744073709551615", "18446744073709551616", "123456789012345678901234", "1e3"},
	{"true", "True", "TRUE", "t", "T", "null", "Null", "nil", "0"},
	{"default__", "default__x", "Default__1", "default_1", "default", "DEFAULT__1"},
}

var c18TagFamilies = [][]string{
	{"t1", "T1", " t1", "t1 ", "t1\t", "t11", "t", "t1\u00a0"},
	{"*", "**", " *", "* ", "\\*", ".*", "?"},
	{"", " ", "\t", "\u00a0", "\n"},
	{"prod", "Prod", "PROD", "prod/eu", "prod//eu", "prod/eu/", "pro"},
	{"\u00e9", "e\u0301", "\u00c9", "\U0001F680", "\U0001D6FC", "\ufffd"},
	{"1", "01", "1.0", "18446744073709551616", "true", "True"},
	{"a,b", "a", "b", "a b", "a=b", "a:b", "#a", "!a", "{a}"},
}

// c18DrawFamilies draws `want` distinct strings for a pool - two to four out of one family, the others out of a
// second family and the classic pool - and up to three further members of the families used as probes.
func c18DrawFamilies(r *rand.Rand, families [][]string, classic []string, want int) (pool, probes []string) {
	seen := map[string]bool{}
	take := func(from []string, n int) {
		for _, i := range r.Perm(len(from)) {
			if n <= 0 || len(pool) >= want {
				return
			}
			if !seen[from[i]] {
				seen[from[i]] = true
				pool = append(pool, from[i])
				n--
			}
		}
	}
	f1 := families[r.Intn(len(families))]
	f2 := families[r.Intn(len(families))]
	take(f1, 2+r.Intn(3))
	if r.Intn(2) == 0 {
		take(f2, 1+r.Intn(2))
	}
	take(classic, want)
	take(f1, want) // a classic pool smaller than `want`
	for _, f := range [][]string{f1, f2} {
		for _, i := range r.Perm(len(f)) {
			if len(probes) < 3 && !seen[f[i]] {
				seen[f[i]] = true
				probes = append(probes, f[i])
			}
		}
	}
	r.Shuffle(len(pool), func(i, j int) { pool[i], pool[j] = pool[j], pool[i] })
	return pool, probes
}

// c18PickNames: the name pool of one history (five names, so re-adds occur) and further names to probe.
func c18PickNames(r *rand.Rand) (pool, probes []string) {
	if r.Intn(2) == 0 {
		return append([]string{}, c18Names...), nil
	}
	return c18DrawFamilies(r, c18NameFamilies, c18Names, 5)
}

// c18PickTags: the tag pool of one history (five tags, "*" always among them) and further tags to query.
func c18PickTags(r *rand.Rand) (pool, probes []string) {
	if r.Intn(2) == 0 {
		return append([]string{}, c18Tags...), nil
	}
	pool, probes = c18DrawFamilies(r, c18TagFamilies, c18Tags, 5)
	star := false
	for _, t := range pool {
		star = star || t == "*"
	}
	if !star {
		pool[r.Intn(len(pool))] = "*"
	}
	return pool, probes
}

// c18PoolShape names what a pool of names / tags contains, for the input-distribution evidence.
func c18PoolShape(pool []string) []string {
	out := map[string]bool{}
	fold := map[string]string{}
	trim := map[string]string{}
	for _, s := range pool {
		if strings.ContainsAny(s, "/\\") {
			out["with-separator"] = true
		}
		if s == "" {
			out["empty-string"] = true
		}
		if s != strings.TrimSpace(s) || strings.ContainsAny(s, " \t\n\u00a0") {
			out["with-white-space"] = true
		}
		for _, c := range s {
			if c > unicode.MaxASCII {
				out["non-ascii"] = true
			}
			if c > 0xffff {
				out["supplementary-plane"] = true
			}
		}
		f := strings.ToLower(s)
		if o, ok := fold[f]; ok && o != s {
			out["case-twins"] = true
		}
		fold[f] = s
		t := strings.TrimSpace(s)
		if o, ok := trim[t]; ok && o != s {
			out["white-space-twins"] = true
		}
		trim[t] = s
	}
	return sortedKeys(out)
}
