package main

import (
	"errors"
	"regexp"
)

// An RFC 6902 (JSON Patch) reference interpreter over plain trees, written from the RFC text
// (sections 4.1–4.6 and RFC 6901 section 4), not from the code under test.
//
// Trees are in wire form: object {"m": {name: value}}, array [value...], anything else a
// scalar.  The interpreter never mutates its input: every operation returns a new tree that
// shares no mutable structure with the old one along the edited path.
// The "-" token and root locations are outside the property; "-" is treated as a
// non-index, a root location follows the RFC (add/replace: whole document).

type c09Op struct {
	Op    string   `json:"op"`
	From  []string `json:"from"`  // nil = member absent
	Path  []string `json:"path"`  // nil = member absent
	Value W        `json:"value"` // nil = member absent
	// ValueFrom (pipeline.PatchOp only): the value is read from this location of the live
	// document when the step runs; the harness resolves it on the reference document first
	// and records it in Value, so the interpreter below never sees it.
	ValueFrom []string `json:"valueFrom,omitempty"`
}

var errC09Ref = errors.New("rfc6902: operation fails")

var c09IndexRe = regexp.MustCompile(`^(0|[1-9][0-9]*)$`)

func c09RefIndex(tok string) (int, bool) {
	if !c09IndexRe.MatchString(tok) {
		return 0, false
	}
	if len(tok) > 9 {
		return 1 << 40, true
	}
	n := 0
	for _, ch := range tok {
		n = n*10 + int(ch-'0')
	}
	return n, true
}

func c09RefObject(v W) (map[string]any, bool) {
	m, ok := v.(map[string]any)
	if !ok {
		return nil, false
	}
	c, ok := m["m"].(map[string]any)
	return c, ok
}

// c09RefGet resolves a location (RFC 6901 section 4).
func c09RefGet(doc W, toks []string) (W, bool) {
	cur := doc
	for _, t := range toks {
		if obj, ok := c09RefObject(cur); ok {
			ch, has := obj[t]
			if !has {
				return nil, false
			}
			cur = ch
		} else if arr, ok := cur.([]any); ok {
			i, isIdx := c09RefIndex(t)
			if !isIdx || i >= len(arr) {
				return nil, false
			}
			cur = arr[i]
		} else {
			return nil, false
		}
	}
	return cur, true
}

// c09RefEdit rebuilds doc with the value at location toks (which must exist) replaced by
// f(value); values off the path are shared, values on the path are copied.
func c09RefEdit(doc W, toks []string, f func(W) (W, error)) (W, error) {
	if len(toks) == 0 {
		return f(doc)
	}
	t := toks[0]
	if obj, ok := c09RefObject(doc); ok {
		ch, has := obj[t]
		if !has {
			return nil, errC09Ref
		}
		nch, err := c09RefEdit(ch, toks[1:], f)
		if err != nil {
			return nil, err
		}
		nobj := make(map[string]any, len(obj))
		for k, v := range obj {
			nobj[k] = v
		}
		nobj[t] = nch
		return map[string]any{"m": nobj}, nil
	}
	if arr, ok := doc.([]any); ok {
		i, isIdx := c09RefIndex(t)
		if !isIdx || i >= len(arr) {
			return nil, errC09Ref
		}
		nch, err := c09RefEdit(arr[i], toks[1:], f)
		if err != nil {
			return nil, err
		}
		narr := append([]any{}, arr...)
		narr[i] = nch
		return narr, nil
	}
	return nil, errC09Ref
}

// 4.1 add
func c09RefAdd(doc W, path []string, v W) (W, error) {
	if len(path) == 0 {
		return v, nil // the root: the whole document is replaced
	}
	last := path[len(path)-1]
	return c09RefEdit(doc, path[:len(path)-1], func(par W) (W, error) {
		if obj, ok := c09RefObject(par); ok {
			// new member, or the existing member's value is replaced
			nobj := make(map[string]any, len(obj)+1)
			for k, e := range obj {
				nobj[k] = e
			}
			nobj[last] = v
			return map[string]any{"m": nobj}, nil
		}
		if arr, ok := par.([]any); ok {
			// inserted at the index; elements at or above shift right; index may equal the length
			i, isIdx := c09RefIndex(last)
			if !isIdx || i > len(arr) {
				return nil, errC09Ref
			}
			narr := make([]any, 0, len(arr)+1)
			narr = append(narr, arr[:i]...)
			narr = append(narr, v)
			narr = append(narr, arr[i:]...)
			return narr, nil
		}
		return nil, errC09Ref
	})
}

// 4.2 remove
func c09RefRemove(doc W, path []string) (W, error) {
	if len(path) == 0 {
		return nil, errC09Ref
	}
	last := path[len(path)-1]
	return c09RefEdit(doc, path[:len(path)-1], func(par W) (W, error) {
		if obj, ok := c09RefObject(par); ok {
			if _, has := obj[last]; !has {
				return nil, errC09Ref // the target location MUST exist
			}
			nobj := make(map[string]any, len(obj))
			for k, e := range obj {
				if k != last {
					nobj[k] = e
				}
			}
			return map[string]any{"m": nobj}, nil
		}
		if arr, ok := par.([]any); ok {
			i, isIdx := c09RefIndex(last)
			if !isIdx || i >= len(arr) {
				return nil, errC09Ref
			}
			narr := make([]any, 0, len(arr))
			narr = append(narr, arr[:i]...)
			narr = append(narr, arr[i+1:]...) // elements above shift left
			return narr, nil
		}
		return nil, errC09Ref
	})
}

// 4.3 replace
func c09RefReplace(doc W, path []string, v W) (W, error) {
	if _, ok := c09RefGet(doc, path); !ok {
		return nil, errC09Ref // the target location MUST exist
	}
	return c09RefEdit(doc, path, func(W) (W, error) { return v, nil })
}

func c09RefProperPrefix(a, b []string) bool {
	if len(a) >= len(b) {
		return false
	}
	for i := range a {
		if a[i] != b[i] {
			return false
		}
	}
	return true
}

// c09RefApply applies one operation object; on failure the caller keeps the old document.
func c09RefApply(doc W, op c09Op) (W, error) {
	if op.Path == nil {
		return nil, errC09Ref
	}
	switch op.Op {
	case "add":
		if op.Value == nil {
			return nil, errC09Ref
		}
		return c09RefAdd(doc, op.Path, deepCopyW(op.Value))
	case "remove":
		return c09RefRemove(doc, op.Path)
	case "replace":
		if op.Value == nil {
			return nil, errC09Ref
		}
		return c09RefReplace(doc, op.Path, deepCopyW(op.Value))
	case "move":
		if op.From == nil {
			return nil, errC09Ref
		}
		v, ok := c09RefGet(doc, op.From)
		if !ok {
			return nil, errC09Ref // "from" MUST exist
		}
		if c09RefProperPrefix(op.From, op.Path) {
			return nil, errC09Ref // a location cannot be moved into one of its children
		}
		d1, err := c09RefRemove(doc, op.From)
		if err != nil {
			return nil, err
		}
		return c09RefAdd(d1, op.Path, deepCopyW(v))
	case "copy":
		if op.From == nil {
			return nil, errC09Ref
		}
		v, ok := c09RefGet(doc, op.From)
		if !ok {
			return nil, errC09Ref
		}
		return c09RefAdd(doc, op.Path, deepCopyW(v))
	case "test":
		if op.Value == nil {
			return nil, errC09Ref
		}
		v, ok := c09RefGet(doc, op.Path)
		if !ok || canon(v) != canon(op.Value) {
			return nil, errC09Ref
		}
		return doc, nil
	}
	return nil, errC09Ref
}
