package main

import (
	"encoding/json"
	"fmt"
	"math/rand"
	"sort"
	"strings"

	"github.com/rkosegi/yaml-toolkit/analytics"
	"github.com/rkosegi/yaml-toolkit/dom"
)

// C19 — histories: "reports depend only on document content".
//
// ONE set of long-lived overlay documents (source and references) and ONE family of long-lived
// analytics objects go through a history: analyse — edit — analyse — edit … .  Every analysis
// (dependency report, placeholder report, impact analysis, and OverlayDocument.Search — the read the
// reports are made of) is held to
//
//   - the clauses of the quantifier text, evaluated on the content the documents have AT THAT
//     MOMENT (each layer's leaves read from a clone of the layer, the merged leaves from Merged());
//   - the reports that fresh analytics objects give on FRESHLY BUILT documents of the same content
//     (every layer rebuilt node by node from what Children / Items / Value show);
//   - the model, on that content.
//
// Before every edit the documents are read through the read APIs the reports use (Search, Merged,
// Flatten, LookupAny), so that whatever those reads leave behind in the documents is there when the
// edit comes.  The edits change one leaf of the key pool at a time — most of them at depth >= 2 or
// inside a list — and each names its ROUTE into the document, so that consecutive edits reach the
// same place in different ways:
//
//	put       OverlayDocument.Put(layer, path, leaf)
//	populate  OverlayDocument.Populate(layer, parent path, {name: value})
//	handle    the nearest composite node as handed out by OverlayDocument.Lookup (or, for a top-level
//	          position, the layer root as handed to an OverlayDocument.Walk visitor):
//	          ContainerBuilder.AddValue / ListBuilder.Set
//	addat     layer root .AddValueAt(path, leaf)
//	mustset   ListBuilder.MustSet (index in range), Append (one past the end), else Set
//	append    ListBuilder.Append
//	clear     ListBuilder.Clear
//	remove    parent handle .Remove(name)
//	removeat  layer root .RemoveAt(path)
//	add       OverlayDocument.Add(layer, container holding the leaf at its path); the container
//	          stays with the history …
//	held      … and a later edit is made through it: held.AddValueAt(path, leaf)
//
// A route that does not apply to the document as it is (no such layer, no such parent yet) falls
// back to put.  What the content IS after an edit is never predicted: it is read from the documents.
// SameRef: the source document object itself is also passed as the first reference document (the
// expected reports are those for a distinct document of equal content).

type c19Edit struct {
	Doc   int    `json:"doc"`
	Layer string `json:"layer"`
	Path  string `json:"path"`
	V     W      `json:"v"` // scalar in wire form (ignored by the removing routes)
	Route string `json:"route"`
}

type c19HStep struct {
	Analyse bool     `json:"analyse,omitempty"`
	Edit    *c19Edit `json:"edit,omitempty"`
}

type c19Hist struct {
	Docs    []c19Doc   `json:"docs"`
	Filter  c19Filter  `json:"filter"`
	Keys    []string   `json:"keys"`
	SameRef bool       `json:"sameRef,omitempty"`
	Steps   []c19HStep `json:"steps"`
}

var c19Routes = []string{"put", "put", "populate", "handle", "handle", "addat", "mustset", "append", "clear", "remove", "removeat", "add", "held", "held"}

// ---------------------------------------------------------------- generator

func c19PoolIndex(path string) int {
	for i, k := range c19Pool {
		if k == path {
			return i
		}
	}
	return len(c19Pool) - 2
}

func c19GenHist(r *rand.Rand) c19Hist {
	h := c19Hist{Docs: []c19Doc{c19GenDoc(r, []string{"base", "env", "local"}, 3)}, Filter: c19GenFilter(r), Keys: []string{}}
	for j := r.Intn(3); j > 0; j-- {
		h.Docs = append(h.Docs, c19GenDoc(r, []string{"r1", "r2"}, 2))
	}
	h.SameRef = r.Intn(6) == 0
	for j := r.Intn(7); j > 0; j-- {
		if r.Intn(5) == 0 {
			h.Keys = append(h.Keys, pick(r, c19Unknown))
		} else {
			h.Keys = append(h.Keys, pick(r, c19Pool))
		}
	}
	nested := []string{"d.e", "d.f", "g.h.i", "l[0]", "l[1]"}
	var lastAdd *c19Edit
	edit := func() c19HStep {
		e := &c19Edit{Route: pick(r, c19Routes)}
		if len(h.Docs) > 1 && r.Intn(4) == 0 {
			e.Doc = 1 + r.Intn(len(h.Docs)-1)
		}
		ls := h.Docs[e.Doc].Layers
		e.Layer = ls[r.Intn(len(ls))].Name
		if r.Intn(25) == 0 {
			e.Layer = "late" // a layer the document does not have yet
		}
		e.Path = pick(r, c19Pool)
		if r.Intn(10) < 7 {
			e.Path = pick(r, nested)
		}
		if strings.HasPrefix(e.Path, "l[") != (e.Route == "mustset" || e.Route == "append" || e.Route == "clear") && r.Intn(4) > 0 {
			// list routes go with list positions (most of the time)
			if strings.HasPrefix(e.Path, "l[") {
				e.Route = pick(r, []string{"mustset", "append", "clear", "handle", "put", "mustset"})
			} else {
				e.Route = pick(r, []string{"put", "handle", "populate", "addat", "remove", "held", "add"})
			}
		}
		e.V = c19Value(r, c19PoolIndex(e.Path))
		if lastAdd != nil && r.Intn(2) == 0 {
			// an edit through the container that an earlier Add handed to this layer
			e.Doc, e.Layer, e.Route = lastAdd.Doc, lastAdd.Layer, "held"
		}
		if e.Route == "add" {
			lastAdd = e
		}
		return c19HStep{Edit: e}
	}
	if r.Intn(8) > 0 {
		h.Steps = append(h.Steps, c19HStep{Analyse: true})
	}
	for n := 1 + r.Intn(4); n > 0; n-- {
		for k := 1 + r.Intn(3); k > 0; k-- {
			h.Steps = append(h.Steps, edit())
		}
		h.Steps = append(h.Steps, c19HStep{Analyse: true})
	}
	return h
}

func c19RunHist(c *Ctx) {
	for i := 0; i < c.N(700); i++ {
		c.Tick()
		c.Do("history", c19GenHist(c.Rng))
	}
}

// ---------------------------------------------------------------- edits

// c19LayerRoot: the live root of a layer, as an OverlayDocument.Walk visitor gets it (parent of a
// top-level leaf) — nil when the walk never shows it.
func c19LayerRoot(od dom.OverlayDocument, layer string) dom.ContainerBuilder {
	var root dom.ContainerBuilder
	od.Walk(func(l, path string, parent dom.Node, node dom.Node) bool {
		if l == layer && !strings.ContainsAny(path, ".[") {
			if cb, ok := parent.(dom.ContainerBuilder); ok {
				root = cb
				return false
			}
		}
		return true
	})
	return root
}

func c19HasLayer(od dom.OverlayDocument, layer string) bool {
	for _, n := range od.LayerNames() {
		if n == layer {
			return true
		}
	}
	return false
}

// c19ApplyEdit performs one edit along its route; the route actually taken is returned.
func c19ApplyEdit(od dom.OverlayDocument, e *c19Edit, held map[string]dom.ContainerBuilder) string {
	leaf := func() dom.Node { return dom.LeafNode(c19ScalarOf(e.V)) }
	put := func() string { od.Put(e.Layer, e.Path, leaf()); return "put" }
	if !c19HasLayer(od, e.Layer) {
		return put()
	}
	parent, last := "", e.Path
	if i := strings.LastIndex(e.Path, "."); i > 0 {
		parent, last = e.Path[:i], e.Path[i+1:]
	}
	listName, listIdx := "", -1
	if i := strings.Index(last, "["); i > 0 && strings.HasSuffix(last, "]") {
		n := 0
		if _, err := fmt.Sscanf(last[i:], "[%d]", &n); err == nil {
			listName, listIdx = last[:i], n
		}
	}
	parentHandle := func() dom.ContainerBuilder {
		if parent == "" {
			return c19LayerRoot(od, e.Layer)
		}
		cb, _ := od.Lookup(e.Layer, parent).(dom.ContainerBuilder)
		return cb
	}
	listHandle := func() dom.ListBuilder {
		if listIdx < 0 {
			return nil
		}
		p := listName
		if parent != "" {
			p = parent + "." + listName
		}
		lb, _ := od.Lookup(e.Layer, p).(dom.ListBuilder)
		return lb
	}
	switch e.Route {
	case "populate":
		if listIdx < 0 {
			od.Populate(e.Layer, parent, &map[string]interface{}{last: c19ScalarOf(e.V)})
			return "populate"
		}
	case "handle":
		if lb := listHandle(); lb != nil {
			lb.Set(uint(listIdx), leaf())
			return "handle:list.Set"
		}
		if listIdx < 0 {
			if cb := parentHandle(); cb != nil {
				cb.AddValue(last, leaf())
				return "handle:container.AddValue"
			}
		}
	case "addat":
		if root := c19LayerRoot(od, e.Layer); root != nil {
			root.AddValueAt(e.Path, leaf())
			return "addat"
		}
	case "mustset":
		if lb := listHandle(); lb != nil {
			switch {
			case listIdx < lb.Size():
				lb.MustSet(uint(listIdx), leaf())
				return "mustset:list.MustSet"
			case listIdx == lb.Size():
				lb.Append(leaf())
				return "mustset:list.Append"
			}
			lb.Set(uint(listIdx), leaf())
			return "mustset:list.Set"
		}
	case "append":
		if lb := listHandle(); lb != nil {
			lb.Append(leaf())
			return "append"
		}
	case "clear":
		if lb := listHandle(); lb != nil {
			lb.Clear()
			return "clear"
		}
	case "remove":
		if listIdx < 0 {
			if cb := parentHandle(); cb != nil {
				cb.Remove(last)
				return "remove"
			}
		}
	case "removeat":
		if root := c19LayerRoot(od, e.Layer); root != nil && listIdx < 0 {
			root.RemoveAt(e.Path)
			return "removeat"
		}
	case "add":
		cont := dom.Builder().Container()
		cont.AddValueAt(e.Path, leaf())
		od.Add(e.Layer, cont)
		held[e.Layer] = cont
		return "add"
	case "held":
		if cont := held[e.Layer]; cont != nil {
			cont.AddValueAt(e.Path, leaf())
			return "held"
		}
	}
	return put()
}

// c19Warm reads the documents through the read APIs the reports are made of.
func c19Warm(docs []dom.OverlayDocument) {
	for _, od := range docs {
		_ = od.Search(func(v any) bool { return c19Mentions("a", v) })
		_ = od.Merged().Flatten()
		_ = od.LookupAny("d.e")
		_ = od.LookupAny("l[0]")
		for _, l := range od.Layers() {
			_ = l.Flatten()
			_ = l.Search(func(any) bool { return false })
		}
	}
}

// c19Fresh builds a document of the same content, layer by layer, node by node.
func c19Fresh(od dom.OverlayDocument) dom.OverlayDocument {
	fresh := dom.NewOverlayDocument()
	ls := od.Layers()
	for _, n := range od.LayerNames() {
		fresh.Add(n, wireContainer(nodeWire(ls[n])))
	}
	return fresh
}

func c19SearchObs(od dom.OverlayDocument, keys []string) map[string]any {
	out := map[string]any{}
	for _, k := range keys {
		k := k
		out[k] = c19Coords(od.Search(func(v any) bool { return c19Mentions(k, v) }))
	}
	return out
}

// ---------------------------------------------------------------- evaluation

func c19EvalHist(c *Ctx, raw []byte) {
	var h c19Hist
	if err := json.Unmarshal(raw, &h); err != nil {
		panic(err)
	}
	if len(h.Docs) == 0 || len(h.Docs[0].Layers) == 0 {
		return
	}
	if h.Keys == nil {
		h.Keys = []string{}
	}
	for _, st := range h.Steps {
		if e := st.Edit; e != nil {
			ok := false
			for _, p := range c19Pool {
				if p == e.Path {
					ok = true
				}
			}
			if !ok || e.Doc < 0 || e.Doc >= len(h.Docs) || e.Layer == "" || !isWireLeaf(e.V) {
				return
			}
		}
	}
	f := c19FilterFn(h.Filter)
	var live []dom.OverlayDocument
	out, txt := guard(func() {
		for _, d := range h.Docs {
			live = append(live, c19Build(d))
		}
	})
	if !c.Direct("no-panic(building the overlay)", out == "ok", txt) {
		return
	}
	// the documents as the reports get them: source, (the source again,) references
	args := func(ds []dom.OverlayDocument, same bool) []dom.OverlayDocument {
		if !same {
			return ds
		}
		return append([]dom.OverlayDocument{ds[0], ds[0]}, ds[1:]...)
	}
	c19Neutral()
	objs := c19BuildObjs(f, false)
	held := make([]map[string]dom.ContainerBuilder, len(live))
	for i := range held {
		held[i] = map[string]dom.ContainerBuilder{}
	}
	searchKeys := append(append([]string{}, c19Pool...), c19Unknown[0])
	analyses, edits, nestedEditSeen, mentioned := 0, 0, false, false
	lastRoute := ""
	for si, st := range h.Steps {
		if e := st.Edit; e != nil {
			var route string
			o, t := guard(func() {
				c19Warm(live)
				route = c19ApplyEdit(live[e.Doc], e, held[e.Doc])
			})
			if o != "ok" {
				c.Dist("history:edit-panicked(case dropped): " + strings.SplitN(t, "\n", 2)[0])
				return
			}
			edits++
			c.Dist("history:edit:" + route)
			if route != lastRoute && lastRoute != "" {
				c.Dist("history:edit-by-another-route-than-the-one-before")
			}
			lastRoute = route
			if analyses > 0 && strings.ContainsAny(e.Path, ".[") {
				nestedEditSeen = true
			}
			continue
		}
		if !st.Analyse {
			continue
		}
		at := fmt.Sprintf("step %d (after %d edits, analysis %d)", si, edits, analyses+1)
		// ---- the content at this moment
		var flats [][]c19LayerFlat
		var merged map[string]dom.Leaf
		var fresh []dom.OverlayDocument
		var freshFlats [][]c19LayerFlat
		out, txt := guard(func() {
			for _, od := range live {
				flats = append(flats, c19LayerFlats(od))
				fd := c19Fresh(od)
				fresh = append(fresh, fd)
				freshFlats = append(freshFlats, c19LayerFlats(fd))
			}
			merged = live[0].Merged().Flatten()
		})
		if !c.Direct("no-panic(reading the overlay)", out == "ok", map[string]any{"at": at, "panic": txt}) {
			return
		}
		flatsW := func(fl [][]c19LayerFlat) []any {
			var docsW []any
			for _, d := range fl {
				ls := []any{}
				for _, l := range d {
					ls = append(ls, map[string]any{"name": l.name, "flat": c19FlatWire(l.flat)})
				}
				docsW = append(docsW, ls)
			}
			return docsW
		}
		if canon(flatsW(flats)) != canon(flatsW(freshFlats)) {
			c.Dist("history:rebuilt-document-flattens-differently(case dropped)")
			return
		}
		tbl := map[string]string{}
		for k, l := range merged {
			tbl[k] = fmt.Sprint(l.Value())
		}
		def := [3]string{"${", "}", ":"}
		resolved := map[string]c11Out{}
		for _, k := range sortedKeys(merged) {
			ref := c11RefResolve(def, tbl, tbl[k], c11RefBudget)
			if ref.R != "ok" {
				c.Dist("out-of-domain:reference-cycle(skipped)")
				return
			}
			resolved[k] = ref
		}
		// ---- the long-lived objects on the long-lived documents
		var obs, search map[string]any
		out, txt = guard(func() {
			obs = c19RunObjs(objs, args(live, h.SameRef), h.Keys)
			search = c19SearchObs(live[0], searchKeys)
		})
		if out != "ok" && strings.Contains(txt, "is not dom.Leaf") {
			c.Dist("out-of-domain:mention-of-container-position(skipped)")
			return
		}
		if !c.Direct("no-panic", out == "ok", map[string]any{"at": at, "panic": txt}) {
			return
		}
		analyses++
		c.Dist(fmt.Sprintf("history:analysis-%d", min(analyses, 4)))
		rflats := flats
		if h.SameRef {
			rflats = append([][]c19LayerFlat{flats[0], flats[0]}, flats[1:]...)
		}
		if c19HistClauses(c, at, obs, search, rflats, merged, tbl, resolved, f, h.Keys, searchKeys) {
			mentioned = true
		}
		// ---- fresh objects on freshly built documents of the same content
		var obsF, searchF map[string]any
		out, txt = guard(func() {
			// (the fresh dependency resolver comes from the builder, the long-lived one from
			// DefaultDependencyResolver(): equivalent entry points)
			freshObjs := c19BuildObjs(f, false)
			freshObjs.dep = analytics.NewDependencyResolverBuilder().Build()
			if h.SameRef {
				// distinct documents of equal content in the place of the one object passed twice
				obsF = c19RunObjs(freshObjs, append([]dom.OverlayDocument{fresh[0], c19Fresh(fresh[0])}, fresh[1:]...), h.Keys)
			} else {
				obsF = c19RunObjs(freshObjs, fresh, h.Keys)
			}
			searchF = c19SearchObs(fresh[0], searchKeys)
		})
		if c.Direct("no-panic(freshly built documents)", out == "ok", map[string]any{"at": at, "panic": txt}) {
			c.Direct("reports depend only on document content: long-lived documents (read, edited, read again) == freshly built documents of the same content",
				canon(obs) == canon(obsF), map[string]any{"at": at, "long-lived": obs, "fresh": obsF, "content": flatsW(flats)})
			c.Direct("OverlayDocument.Search depends only on document content: long-lived document == freshly built document of the same content",
				canon(search) == canon(searchF), map[string]any{"at": at, "long-lived": search, "fresh": searchF, "content": flatsW(flats)})
		}
		if len(c.curFailed) > 0 {
			return
		}
		// ---- the model on this content
		m := c.Model("reports", map[string]any{"merged": c19FlatWire(merged), "docs": flatsW(rflats), "filter": h.Filter, "keys": h.Keys})
		c.Corr("reports", obs, m)
	}
	if analyses >= 2 && edits > 0 && mentioned {
		c.Nontrivial()
	}
	if nestedEditSeen && analyses >= 2 {
		c.Dist("history:nested-edit-between-two-analyses")
	}
	if h.SameRef {
		c.Dist("history:source-object-also-passed-as-reference")
	}
}

// c19HistClauses: the clauses of the quantifier text on one observation of a history (the same
// clauses as in c19Eval, named with the moment of the history in their details).
func c19HistClauses(c *Ctx, at string, obs, search map[string]any, flats [][]c19LayerFlat, merged map[string]dom.Leaf,
	tbl map[string]string, resolved map[string]c11Out, f func(string) bool, keys, searchKeys []string) (mentionedAny bool) {
	dep := obs["dep"].(map[string]any)
	all := dep["all"].([]any)
	orphans := dep["orphans"].([]any)
	dmap := dep["map"].(map[string]any)
	mkeys := sortedKeys(merged)
	c.Direct("AllKeys == sorted(Flatten(Merged) keys)", canon(all) == canon(c19Strs(mkeys)), map[string]any{"at": at, "AllKeys": all, "expected": mkeys})
	expOrph := []string{}
	expMap := map[string]any{}
	for _, k := range mkeys {
		cs := c19MentionCoords(k, flats)
		if len(cs) == 0 {
			expOrph = append(expOrph, k)
		} else {
			expMap[k] = cs
			mentionedAny = true
		}
	}
	c.Direct("OrphanKeys == sorted(AllKeys \\ mentioned)", canon(orphans) == canon(c19Strs(expOrph)), map[string]any{"at": at, "OrphanKeys": orphans, "expected": expOrph})
	c.Direct("Map[k] == multiset of mentioning (layer,path), source then references", canon(dmap) == canon(expMap), map[string]any{"at": at, "Map": dmap, "expected": expMap})
	union := append([]string{}, sortedKeys(dmap)...)
	disjoint := true
	for _, o := range orphans {
		if _, dup := dmap[o.(string)]; dup {
			disjoint = false
		}
		union = append(union, o.(string))
	}
	sort.Strings(union)
	c.Direct("AllKeys == OrphanKeys ⊎ keys(Map)", disjoint && canon(c19Strs(union)) == canon(all), map[string]any{"at": at, "AllKeys": all, "OrphanKeys": orphans, "keys(Map)": sortedKeys(dmap)})
	expFailed := []string{}
	for _, k := range mkeys {
		if f(k) && c19HasPlaceholder(tbl[k]) && resolved[k].S == tbl[k] {
			expFailed = append(expFailed, k)
		}
	}
	ph := obs["ph"].(map[string]any)
	c.Direct("FailedKeys == sorted{k | value(k) has a placeholder and Resolve(value) == value}", canon(ph["failed"]) == canon(c19Strs(expFailed)), map[string]any{"at": at, "FailedKeys": ph["failed"], "expected": expFailed})
	_, stray := ph["keys-in-maps-but-not-failed"]
	c.Direct("ActualValues/Coordinates are keyed by the failed keys", !stray, map[string]any{"at": at, "ph": ph})
	expImp := map[string]any{}
	for _, k := range keys {
		if cs := c19MentionCoords(k, flats[:1]); len(cs) > 0 {
			expImp[k] = cs
		}
	}
	c.Direct("ImpactAnalysis == {k -> mentions(k)} for requested k with mentions", canon(obs["impact"]) == canon(expImp), map[string]any{"at": at, "impact": obs["impact"], "expected": expImp})
	// OverlayDocument.Search(mentions k) == the locations of the source whose value mentions k
	expSearch := map[string]any{}
	for _, k := range searchKeys {
		expSearch[k] = c19MentionCoords(k, flats[:1])
	}
	c.Direct("OverlayDocument.Search(mentions k) == locations of the mentioning values", canon(search) == canon(expSearch), map[string]any{"at": at, "Search": search, "expected": expSearch})
	return mentionedAny
}
