package main

import (
	"encoding/json"
	"fmt"
	"math/rand"
	"reflect"

	"github.com/rkosegi/yaml-toolkit/pipeline"
)

// C15 — trees of actions (round 8).
//
// "Cloning any operation or action in a context yields an action that … [renders] only template-bearing text
// fields against the context's data …; the same for ActionSpec, OpSpec and ChildActions recursively."  What the
// clone of an operation holds is a matter of that operation and of the context's data — not of which other
// operations stand next to it in the tree, nor of the order in which a tree is walked.  A `tree` case is an action
// spec (YAML-shaped JSON, decoded by the library) with SEVERAL operations — side by side in one OpSpec, in `steps`
// children, nested in forEach / loop / define bodies — whose text fields hold
//
//   - templates that READ the data (`{{ .x }}`, `{{ .other.y }}`, `{{ .cfg.name }}`),
//   - templates that also WRITE to the map they are rendered against (sprig's set / unset on `.` or on a nested
//     map: the usual "defaulting" idiom `{{ $_ := set . "x" "B" }}`) — a rendering works on a snapshot, so this
//     is invisible to every other rendering against the context's data —, and
//   - literal text.
//
// The whole tree is cloned in a real context; every operation of the tree, at every depth, is ALSO cloned on its
// own in a fresh context over equal data, and the tree's clone must hold exactly that at the operation's place.
// Nothing is executed.  The original is compared before / after (deep dump), and so is the context's data.

type c15Tree struct {
	Spec map[string]any `json:"spec"`
	Data W              `json:"data"`
	Wrap string         `json:"wrap"` // action (ActionSpec.CloneWith) | opspec (its OpSpec) | children (its steps)
}

var c15TreeReaders = []string{"{{ .x }}", "r-{{ .x }}", "{{ .other.y }}", "{{ .cfg.name }}.{{ .x }}", "{{ .x }}"}
var c15TreeWriters = []string{
	`{{ $_ := set . "x" "B" }}w`,
	`{{ $_ := unset . "x" }}u`,
	`{{ $_ := set .other "y" "9" }}n`,
	`{{ .x }}{{ $_ := set . "x" (print .x "!") }}`,
	`{{ $_ := set .cfg "name" .x }}{{ $_ := set . "x" "C" }}d`,
}

func c15TreeText(r *rand.Rand) string {
	switch k := r.Intn(8); {
	case k < 4:
		return pick(r, c15TreeReaders)
	case k < 6:
		return pick(r, c15TreeWriters)
	}
	return pick(r, []string{"lit", "a.b", ""})
}

// c15GenTree: an action spec with several operations whose text fields hold reading / writing templates.
func c15GenTree(r *rand.Rand, depth int) map[string]any {
	T := func() string { return c15TreeText(r) }
	spec := map[string]any{}
	kinds := []string{"set", "patch", "import", "template", "templateFile", "env", "exec", "export", "log", "abort", "html2DomOp", "log", "set"}
	if depth < 2 {
		kinds = append(kinds, "forEach", "loop", "define", "forEach")
	}
	for i, n := 0, 2+r.Intn(3); i < n; i++ {
		switch k := pick(r, kinds); k {
		case "set":
			spec[k] = map[string]any{"path": T(), "data": map[string]any{"a": 1}}
		case "patch":
			spec[k] = map[string]any{"op": "add", "path": "/" + T(), "valueFrom": T()}
		case "import":
			spec[k] = map[string]any{"file": T(), "path": T(), "mode": "text"}
		case "template":
			spec[k] = map[string]any{"template": "t", "path": T()}
		case "templateFile":
			spec[k] = map[string]any{"file": T(), "output": T(), "path": T()}
		case "env":
			spec[k] = map[string]any{"path": T()}
		case "exec":
			spec[k] = map[string]any{"program": T(), "args": []any{T(), T()}, "dir": T()}
		case "export":
			spec[k] = map[string]any{"file": T(), "path": T(), "format": "yaml"}
		case "log", "abort":
			spec[k] = map[string]any{"message": T()}
		case "html2DomOp":
			spec[k] = map[string]any{"from": T(), "to": T()}
		case "forEach":
			spec[k] = map[string]any{"item": []any{"i1", "i2"}, "action": c15GenTree(r, depth+1)}
		case "loop":
			l := map[string]any{"test": "false", "action": c15GenTree(r, depth+1)}
			if r.Intn(2) == 0 {
				l["init"] = c15GenTree(r, depth+1)
			}
			if r.Intn(3) == 0 {
				l["postAction"] = c15GenTree(r, depth+1)
			}
			spec[k] = l
		case "define":
			spec[k] = map[string]any{"name": "fn", "action": c15GenTree(r, depth+1)}
		}
	}
	if depth < 2 && r.Intn(2) == 0 {
		steps := map[string]any{}
		for j, n := 0, 1+r.Intn(3); j < n; j++ {
			s := c15GenTree(r, depth+1)
			s["order"] = j + 1
			steps[fmt.Sprintf("s%d", j)] = s
		}
		spec["steps"] = steps
	}
	return spec
}

var (
	c15ActionSpecT    = reflect.TypeOf(pipeline.ActionSpec{})
	c15ActionSpecPtrT = reflect.TypeOf(&pipeline.ActionSpec{})
	c15ChildActionsT  = reflect.TypeOf(pipeline.ChildActions{})
)

type c15TreeWalk struct {
	c    *Ctx
	data W
	ops  int
}

const c15TreeClause = "clone of a tree of actions holds, for every operation in it, the clone of that operation made on its own in a context with equal data (each is rendered against the context's data)"

func (w *c15TreeWalk) spec(o, k pipeline.ActionSpec, at string) {
	w.opspec(o.Operations, k.Operations, at)
	w.children(o.Children, k.Children, at+".steps")
}

func (w *c15TreeWalk) children(o, k pipeline.ChildActions, at string) {
	for _, name := range sortedKeys(o) {
		ks, ok := k[name]
		if !w.c.Direct("clone-carries-over-every-child-action", ok, map[string]any{"at": at + "." + name}) {
			continue
		}
		w.spec(o[name], ks, at+"."+name)
	}
}

func (w *c15TreeWalk) opspec(o, k pipeline.OpSpec, at string) {
	ov, kv := reflect.ValueOf(o), reflect.ValueOf(k)
	for i := 0; i < ov.NumField(); i++ {
		of, kf := ov.Field(i), kv.Field(i)
		if of.Kind() != reflect.Ptr || of.IsNil() {
			continue
		}
		a, isAction := of.Interface().(pipeline.Action)
		if !isAction {
			continue
		}
		here := at + "." + ov.Type().Field(i).Name
		if !w.c.Direct("clone-carries-over-every-operation", !kf.IsNil(), map[string]any{"at": here}) {
			continue
		}
		w.ops++
		var alone pipeline.Action
		out, txt := guard(func() {
			_ = c15WithCtx(wireContainer(w.data), nil, func(ctx pipeline.ActionContext) error {
				alone = a.CloneWith(ctx)
				return nil
			})
		})
		if !w.c.Direct("no-panic(operation cloned on its own)", out == "ok" && alone != nil, map[string]any{"at": here, "panic": txt}) {
			continue
		}
		x, y := c15Dump(reflect.ValueOf(alone), 0), c15Dump(kf, 0)
		w.c.Direct(c15TreeClause, x == y, map[string]any{"at": here, "cloned on its own": x, "in the clone of the tree": y})
		// operations nested in this one (forEach / loop / define bodies)
		oe, ke := of.Elem(), kf.Elem()
		if oe.Kind() != reflect.Struct || oe.Type() != ke.Type() {
			continue
		}
		for j := 0; j < oe.NumField(); j++ {
			fo, fk := oe.Field(j), ke.Field(j)
			fat := here + "." + oe.Type().Field(j).Name
			switch fo.Type() {
			case c15ActionSpecT:
				w.spec(fo.Interface().(pipeline.ActionSpec), fk.Interface().(pipeline.ActionSpec), fat)
			case c15ActionSpecPtrT:
				if !fo.IsNil() && !fk.IsNil() {
					w.spec(*fo.Interface().(*pipeline.ActionSpec), *fk.Interface().(*pipeline.ActionSpec), fat)
				}
			case c15ChildActionsT:
				w.children(fo.Interface().(pipeline.ChildActions), fk.Interface().(pipeline.ChildActions), fat)
			}
		}
	}
}

func c15EvalTree(c *Ctx, raw []byte) {
	var p c15Tree
	if err := json.Unmarshal(raw, &p); err != nil {
		panic(err)
	}
	if _, ok := wireCont(p.Data); !ok || p.Spec == nil {
		return
	}
	as, err := c15Decode(p.Spec)
	if err != nil {
		c.Dist("tree:undecodable")
		return
	}
	var orig pipeline.Action = as
	switch p.Wrap {
	case "opspec":
		orig = as.Operations
	case "children":
		orig = as.Children
		if len(as.Children) == 0 {
			return
		}
	case "action", "":
	default:
		return
	}
	c.Dist("tree:wrap=" + p.Wrap)
	before := c15Dump(reflect.ValueOf(orig), 0)
	data := wireContainer(p.Data)
	dataBefore := canon(nodeWire(data))
	var clone pipeline.Action
	out, txt := guard(func() {
		_ = c15WithCtx(data, nil, func(ctx pipeline.ActionContext) error {
			clone = orig.CloneWith(ctx)
			return nil
		})
	})
	if !c.Direct("no-panic", out == "ok", txt) {
		return
	}
	c.Direct("original-untouched-by-clone", before == c15Dump(reflect.ValueOf(orig), 0), map[string]any{"before": before, "after": c15Dump(reflect.ValueOf(orig), 0)})
	c.Direct("context-data-untouched-by-clone", dataBefore == canon(nodeWire(data)), map[string]any{"after": nodeWire(data)})
	if !c.Direct("clone-not-nil", clone != nil, nil) {
		return
	}
	clone = c15Deref(clone)
	if !c.Direct("clone-same-type", reflect.TypeOf(clone) == reflect.TypeOf(orig), fmt.Sprintf("%T vs %T", clone, orig)) {
		return
	}
	w := &c15TreeWalk{c: c, data: p.Data}
	switch o := orig.(type) {
	case pipeline.ActionSpec:
		w.spec(o, clone.(pipeline.ActionSpec), "action")
	case pipeline.OpSpec:
		w.opspec(o, clone.(pipeline.OpSpec), "opspec")
	case pipeline.ChildActions:
		w.children(o, clone.(pipeline.ChildActions), "steps")
	}
	c.Dist(fmt.Sprintf("tree:operations~%d", min(w.ops/3*3, 15)))
	if w.ops >= 2 {
		c.Nontrivial()
	}
}

func c15RunTree(c *Ctx) {
	r := c.Rng
	data := func(x string) W {
		return map[string]any{"m": map[string]any{"x": scalarWire(x),
			"other": map[string]any{"m": map[string]any{"y": scalarWire(1)}},
			"cfg":   map[string]any{"m": map[string]any{"name": scalarWire("n")}}}}
	}
	if !c.searchMode {
		// the smallest trees: a writing template in one operation, a reading one in a sibling / a child step / a body
		for _, wr := range c15TreeWriters {
			c.Do("tree", c15Tree{Data: data("A"), Wrap: "action", Spec: map[string]any{"exec": map[string]any{"program": "p", "args": []any{wr}}, "log": map[string]any{"message": "{{ .x }}"}}})
			c.Do("tree", c15Tree{Data: data("A"), Wrap: "opspec", Spec: map[string]any{"set": map[string]any{"path": wr, "data": map[string]any{"a": 1}}, "abort": map[string]any{"message": "{{ .x }}-{{ .other.y }}-{{ .cfg.name }}"}}})
			c.Do("tree", c15Tree{Data: data("A"), Wrap: "action", Spec: map[string]any{"log": map[string]any{"message": wr},
				"steps": map[string]any{"s1": map[string]any{"order": 1, "log": map[string]any{"message": "{{ .x }}-{{ .other.y }}-{{ .cfg.name }}"}}}}})
			c.Do("tree", c15Tree{Data: data("A"), Wrap: "action", Spec: map[string]any{"forEach": map[string]any{"item": []any{"i1"},
				"action": map[string]any{"env": map[string]any{"path": wr}, "log": map[string]any{"message": "{{ .x }}-{{ .other.y }}-{{ .cfg.name }}"}}}}})
		}
	}
	for i := 0; i < c.N(250); i++ {
		c.Tick()
		c.Do("tree", c15Tree{Spec: c15GenTree(r, 0), Data: data(pick(r, []string{"A", "V", "a.b", ""})), Wrap: pick(r, []string{"action", "action", "opspec", "children"})})
	}
}
