package main

// C13, operations with an environment: ExecOp, TemplateFileOp, Html2DomOp (convertHtmlNode2Dom) and
// the YAML decoding of ValOrRef / AnyVal.  Model: lean/YtkModel/OpsExt.lean, driver op "opsExt".
//
// The REAL operations run through pipeline.New(...).Execute on generated documents; the operating
// system (processes, files), the template engine and the HTML parser are parameters of the model:
// the harness observes their results independently (it runs the same program itself, renders with
// the library's engine on an equal document, parses the same HTML text with the same library) and
// hands them to the model, which has to reproduce what the operation did with them - error or not,
// the data afterwards, the files left behind, the lines logged.
//
// Direct predicates are taken from the doc comments of the operations' fields:
//   ExecOp          "SaveExitCodeTo: Path within the global data where to set exit code",
//                   "ValidExitCodes: List of exit codes that are assumed to be valid",
//                   "Stdout / Stderr: Path to file where program's stdout / stderr will be written"
//   TemplateFileOp  "File is path to file with template", "Output is path to output file",
//                   "Path is path within the global data where data are read from (must be container).
//                    When omitted, then root of global data is assumed."
//   Html2DomOp      "To is destination where to put converted document as dom.Container",
//                   Html2DomLayoutDefault: "\"Value\" leaf for every text node.  Child elements are
//                   collected into the list, if their name appears multiple times within the parent,
//                   otherwise they are regular child node.  Attributes of element are put into
//                   container node \"Attrs\"."
//   ValOrRef        "either immediate leaf value or reference to a dom.Leaf in data tree at given path"
//   AnyVal          "can represent any DOM value (leaf, list, container)"
// plus the property's own "each operation changes only its target location".

import (
	"bytes"
	"encoding/json"
	"errors"
	"fmt"
	"math/rand"
	"os"
	osx "os/exec"
	"path/filepath"
	"reflect"
	"regexp"
	"strings"

	"github.com/antchfx/htmlquery"
	"github.com/rkosegi/yaml-toolkit/dom"
	"github.com/rkosegi/yaml-toolkit/pipeline"
	"golang.org/x/net/html"
	"gopkg.in/yaml.v3"
)

const c13oxTmp = "@@" // stands for the case's own scratch directory in every path of a case

// ------------------------------------------------------------------ case types

type c13oxExec struct {
	Data   W         `json:"data"`
	Prog   string    `json:"prog"`
	Args   *[]string `json:"args"`
	Dir    string    `json:"dir"`
	Valid  *[]int    `json:"valid"`
	Stdout *string   `json:"stdout"`
	Stderr *string   `json:"stderr"`
	SaveTo *string   `json:"saveTo"`
}

type c13oxTplFile struct {
	Data    W       `json:"data"`
	Tmpl    string  `json:"tmpl"`   // content of the template file
	File    string  `json:"file"`   // the operation's File
	Output  string  `json:"output"` // the operation's Output
	Path    *string `json:"path"`
	NoFile  bool    `json:"noFile"` // the template file is not created
	Stale   bool    `json:"stale"`  // the output file exists beforehand with other content
	InFile  string  `json:"inFile"` // where the harness puts the template (relative to the scratch directory)
}

// c13oxH is a generated HTML tree: element, text or comment.
type c13oxH struct {
	Tag     string      `json:"e,omitempty"`
	Attrs   [][2]string `json:"a,omitempty"`
	Kids    []*c13oxH   `json:"c,omitempty"`
	Text    *string     `json:"t,omitempty"`
	Comment *string     `json:"k,omitempty"`
}

type c13oxHtml struct {
	Data   W       `json:"data"`
	Tree   *c13oxH `json:"tree"`
	Src    string  `json:"src"` // what is stored at From: "html" (the serialised tree), "int", "container", "absent"
	From   string  `json:"from"`
	To     string  `json:"to"`
	Query  *string `json:"query"`
	Layout *string `json:"layout"`
}

type c13oxVorStep struct {
	Yaml string `json:"yaml,omitempty"`
	Node string `json:"node,omitempty"` // hand-built node passed to UnmarshalYAML directly: document / alias / zero / sequence
}

type c13oxVor struct {
	Steps []c13oxVorStep `json:"steps"`
}

type c13oxVorRT struct {
	IsRef bool   `json:"isRef"`
	Ref   string `json:"ref"`
	Val   string `json:"val"`
}

type c13oxAnyVal struct {
	Tree W `json:"tree"`
}

// ------------------------------------------------------------------ shared helpers

type c13oxLog struct{ lines [][]string }

func (l *c13oxLog) OnBefore(pipeline.ActionContext)       {}
func (l *c13oxLog) OnAfter(pipeline.ActionContext, error) {}
func (l *c13oxLog) OnLog(_ pipeline.ActionContext, v ...interface{}) {
	if len(v) == 1 {
		if inner, ok := v[0].([]interface{}); ok {
			v = inner
		}
	}
	row := make([]string, len(v))
	for i, e := range v {
		row[i] = fmt.Sprint(e)
	}
	l.lines = append(l.lines, row)
}

func (l *c13oxLog) wire() []any {
	out := make([]any, 0, len(l.lines))
	for _, r := range l.lines {
		row := make([]any, len(r))
		for i, s := range r {
			row[i] = s
		}
		out = append(out, row)
	}
	return out
}

func c13oxExecute(gd dom.ContainerBuilder, a pipeline.Action) (tag, txt string, log *c13oxLog) {
	log = &c13oxLog{}
	var err error
	out, t := guard(func() { err = pipeline.New(pipeline.WithData(gd), pipeline.WithListener(log)).Execute(a) })
	if out == "panic" {
		return "panic", t, log
	}
	if err != nil {
		return "err", err.Error(), log
	}
	return "ok", "", log
}

func c13oxSub(s, dir string) string { return strings.ReplaceAll(s, c13oxTmp, dir) }

func c13oxSubP(s *string, dir string) *string {
	if s == nil {
		return nil
	}
	return strp(c13oxSub(*s, dir))
}

// c13oxWritable: os.OpenFile(p, O_WRONLY|O_CREATE|O_TRUNC) / os.WriteFile can succeed - the parent is an
// existing directory and p is not one (the harness runs as root: permissions never refuse).
func c13oxWritable(p string) bool {
	if p == "" {
		return false
	}
	if st, err := os.Stat(filepath.Dir(p)); err != nil || !st.IsDir() {
		return false
	}
	if st, err := os.Stat(p); err == nil && st.IsDir() {
		return false
	}
	return true
}

func c13oxBytes(b []byte) []any {
	out := make([]any, len(b))
	for i, x := range b {
		out[i] = int(x)
	}
	return out
}

func c13oxLenient(data W, ss ...string) (tbl []any, f func(string) string) {
	m := map[string]string{}
	for _, s := range ss {
		if _, ok := m[s]; ok {
			continue
		}
		_, _, l := c13Render(data, s)
		m[s] = l
		tbl = append(tbl, []any{s, l})
	}
	if tbl == nil {
		tbl = []any{}
	}
	return tbl, func(s string) string {
		if r, ok := m[s]; ok {
			return r
		}
		return s
	}
}

// ------------------------------------------------------------------ generation

var c13oxScripts = []string{
	"exit 0", "exit 1", "exit 2", "exit 3", "exit 7", "exit 255",
	"printf out-text; exit 0", "printf out-text; printf err-text >&2; exit 3", "printf 'a\\nb\\n'; exit 1",
	"printf e1 >&2; printf o1; printf e2 >&2; exit 0", "pwd; exit 4", "kill -9 $$",
}

func c13oxGenExec(c *Ctx, g *DocGen) c13oxExec {
	r := c.Rng
	data := g.Doc(r)
	p := c13oxExec{Data: data}
	switch k := r.Intn(14); {
	case k <= 5:
		p.Prog = pick(r, []string{"sh", "/bin/sh"})
		p.Args = &[]string{"-c", pick(r, c13oxScripts)}
	case k <= 7: // the run leaves a mark: one byte appended to the marker file per run
		p.Prog = "/bin/sh"
		p.Args = &[]string{"-c", fmt.Sprintf("printf x >> \"$0\"; printf ran; exit %d", pick(r, []int{0, 1, 3, 5})), c13oxTmp + "/marker"}
	case k == 8:
		p.Prog = pick(r, []string{"true", "false"})
		if r.Intn(2) == 0 {
			p.Args = &[]string{}
		}
	case k == 9:
		p.Prog = "printf"
		p.Args = &[]string{"%s-%s", pick(r, []string{"a", "x y", ""}), pick(r, []string{"b", "{{ \"t\" }}"})}
	case k == 10:
		p.Prog = pick(r, []string{"/nonexistent/prog-c13ox", "no-such-program-c13ox", ""})
		if r.Intn(2) == 0 {
			p.Args = &[]string{"a"}
		}
	case k == 11: // the program's name comes out of the data through a template
		if m, ok := wireCont(data); ok {
			m["shell"] = scalarWire("/bin/sh")
		}
		p.Prog = "{{ .shell }}"
		p.Args = &[]string{"-c", "printf {{ \"tpl\" }}; exit " + pick(r, []string{"0", "2"})}
	case k == 12: // a template that fails to render stays as it is: no such program
		p.Prog = "{{ .nope.nope }}"
	default:
		p.Prog = "sh"
		p.Args = &[]string{"-c", "exit 3"}
		p.Dir = c13oxTmp + "/missing-dir"
	}
	if p.Dir == "" {
		p.Dir = pick(r, []string{"", "", c13oxTmp, "."})
	}
	switch r.Intn(6) {
	case 0:
		p.Valid = &[]int{}
	case 1:
		p.Valid = &[]int{3}
	case 2:
		p.Valid = &[]int{1, 2, 3, 255}
	case 3:
		p.Valid = &[]int{0}
	case 4:
		p.Valid = &[]int{pick(r, []int{-1, 1, 4, 5, 7})}
	}
	outs := []string{c13oxTmp + "/out.txt", c13oxTmp + "/out.txt", c13oxTmp + "/o-{{ \"x\" }}.txt", c13oxTmp + "/nodir/out.txt", c13oxTmp}
	errs := []string{c13oxTmp + "/err.txt", c13oxTmp + "/err.txt", c13oxTmp + "/nodir/err.txt", c13oxTmp + "/sub"}
	if r.Intn(3) > 0 {
		p.Stdout = strp(pick(r, outs))
	}
	if r.Intn(3) == 0 {
		p.Stderr = strp(pick(r, errs))
	}
	if r.Intn(4) > 0 {
		p.SaveTo = strp(c13Target(r, g, data))
	}
	return p
}

var c13oxTemplates = []string{
	"plain text, no action\n", "", "{{ .a }}", "a={{ .a }};b={{ .b }}\n", "{{ range $k, $v := . }}{{ $k }},{{ end }}",
	"{{ .missing.deeper }}", "{{ if .a }}yes{{ else }}no{{ end }}", "{{ \"lit\" | upper }}", "{{ unclosed", "{{ fail \"boom\" }}",
	"{{ toYaml . }}", "x{{ len . }}y", "{{ index . \"k1\" }}", "{{ .a.b.c }}", "line1\n{{ .z_9 }}\nline3\n",
}

func c13oxGenTplFile(c *Ctx, g *DocGen) c13oxTplFile {
	r := c.Rng
	data := g.Doc(r)
	p := c13oxTplFile{Data: data, Tmpl: pick(r, c13oxTemplates), InFile: "in.tmpl"}
	p.File = c13oxTmp + "/in.tmpl"
	p.Output = c13oxTmp + "/out.txt"
	switch r.Intn(12) {
	case 0:
		p.File = ""
	case 1:
		p.Output = ""
	case 2:
		p.NoFile = true
	case 3:
		p.Output = c13oxTmp + "/nodir/out.txt"
	case 4:
		p.Output = c13oxTmp
	case 5: // file names are templates themselves
		p.File = c13oxTmp + "/{{ \"in\" }}.tmpl"
		p.Output = c13oxTmp + "/{{ \"o\" }}ut.txt"
	case 6:
		p.File = c13oxTmp + "/{{ .nope.nope }}"
		p.InFile = "{{ .nope.nope }}"
	}
	var paths, lists []string
	wirePaths(data, "", &paths, &lists)
	conts := c13ContPaths(data)
	switch k := r.Intn(8); {
	case k <= 2 && len(conts) > 0:
		p.Path = strp(pick(r, conts))
	case k == 3 && len(paths) > 0:
		p.Path = strp(pick(r, paths)) // leaf, list, list item or container
	case k == 4:
		p.Path = strp(pick(r, []string{"absent", "absent.deeper", ""}))
	}
	p.Stale = r.Intn(3) == 0
	return p
}

var c13oxTags = []string{"div", "span", "section", "item", "node", "x-a"}
var c13oxAttrKeys = []string{"id", "class", "href", "data-x", "title", "lang"}
var c13oxAttrVals = []string{"", "v", "a b", "1 < 2 & 3", "\"q\"", "it's", "http://h/p?a=1&b=2", "é", " pad "}
var c13oxTexts = []string{"text", "Click here", " padded ", "\n  indented\n", "a & b", "1 < 2 > 0", "\"quoted\"", "é ü", "x", "two  spaces",
	" ", "\n", "\n    ", "\t", "\u00a0", "\u00a0nbsp-led", "\u2003", "\u3000 \u2028", "0", "{{ .a }}", "\u200b"}

func c13oxGenTree(r *rand.Rand, depth int) *c13oxH {
	e := &c13oxH{Tag: pick(r, c13oxTags)}
	if r.Intn(2) == 0 {
		used := map[string]bool{}
		for i, n := 0, 1+r.Intn(3); i < n; i++ {
			k := pick(r, c13oxAttrKeys)
			if used[k] {
				continue
			}
			used[k] = true
			e.Attrs = append(e.Attrs, [2]string{k, pick(r, c13oxAttrVals)})
		}
	}
	n := r.Intn(5)
	if depth >= 3 {
		n = r.Intn(2)
	}
	lastText := false
	for i := 0; i < n; i++ {
		switch k := r.Intn(10); {
		case k <= 4 && depth < 3:
			e.Kids = append(e.Kids, c13oxGenTree(r, depth+1))
			lastText = false
		case k <= 7:
			if lastText {
				continue // adjacent text nodes are one text node to the parser
			}
			e.Kids = append(e.Kids, &c13oxH{Text: strp(pick(r, c13oxTexts))})
			lastText = true
		default:
			e.Kids = append(e.Kids, &c13oxH{Comment: strp(pick(r, []string{"", " c ", "<div>not an element</div>", "a - b"}))})
			lastText = false
		}
	}
	return e
}

func c13oxGenHtml(c *Ctx, g *DocGen) c13oxHtml {
	r := c.Rng
	data := g.Doc(r)
	p := c13oxHtml{Data: data, Tree: c13oxGenTree(r, 0), Src: "html"}
	conts := c13ContPaths(data)
	p.From = "src"
	if len(conts) > 0 && r.Intn(3) == 0 {
		p.From = pick(r, conts) + ".src"
	}
	p.To = c13Target(r, g, data)
	if r.Intn(5) > 0 {
		p.Query = strp("//" + p.Tree.Tag)
	}
	switch r.Intn(16) {
	case 0:
		p.Src = "int"
	case 1:
		p.Src = "container"
	case 2:
		p.Src = "absent"
	case 3:
		p.From = ""
	case 4:
		p.To = ""
	case 5:
		p.Layout = strp("fancy")
	case 6:
		p.Layout = strp("default")
	case 7:
		p.Query = strp("////not a valid xpath")
	case 8:
		p.Query = strp("//no-such-element/below")
	case 9: // a query for an inner element (first in document order)
		p.Query = strp("//" + pick(r, c13oxTags))
	case 10:
		p.Query = strp("//body")
	}
	return p
}

var c13oxVorYaml = []string{
	"plain", "\"quoted text\"", "'single'", "5", "true", "null", "~", "3.5", "|\n  block\n  text\n", "\"\"", "a.b.c", "\"{{ .a }}\"",
	"{ref: a}", "ref: a.b", "ref: \"k1\"", "{ref: a, other: 1}", "{other: 1}", "{}", "{ref: 5}", "{ref: true}", "{ref: null}", "{ref: [a]}",
	"{ref: {a: b}}", "{ref: \"\"}", "{Ref: a}", "{ref: a, ref: b}", "[a, b]", "[]", "- {ref: a}", "&x {ref: a}", "!!str 7", "{ref: !!str 7}",
	"{val: v}", "{ref: a, val: v}",
}

func c13oxGenVor(c *Ctx) c13oxVor {
	r := c.Rng
	n := 1
	if r.Intn(3) == 0 {
		n = 2 + r.Intn(2)
	}
	var p c13oxVor
	for i := 0; i < n; i++ {
		if r.Intn(10) == 0 {
			p.Steps = append(p.Steps, c13oxVorStep{Node: pick(r, []string{"document", "alias", "zero", "sequence"})})
		} else {
			p.Steps = append(p.Steps, c13oxVorStep{Yaml: pick(r, c13oxVorYaml)})
		}
	}
	return p
}

var c13oxVorTexts = []string{"", "a", "a.b", "k1", "5", "true", "~", "null", "x: y", "- a", "{{ .a }}", "multi\nline", " spaced ", "héllo", "[0]", "#c"}

func c13oxRun(c *Ctx) {
	g := c13Gen()
	c.Note("opsExt (c13_opsext.go): ExecOp runs real programs of this sandbox (sh -c scripts with exit codes 0..255 and output on both streams, a marker file counting runs, true / false / printf, kill -9, missing programs, a missing working directory, program names rendered from the data) x ValidExitCodes {nil, empty, lists} x Stdout / Stderr {unset, file, templated name, missing directory, a directory} x SaveExitCodeTo {unset, generated target paths}; TemplateFileOp renders generated template files (plain, actions over the data, failing, unparsable) against the root or a Path {container, leaf, list, absent, empty} into {file, stale file, missing directory, a directory, empty, templated name}; Html2DomOp converts serialised generated trees (6 ordinary tag names, <= 4 levels, distinct lower-case attribute names, texts with entities / surrounding and pure white space incl. NBSP and other Unicode spaces, comments) stored at From {string leaf, int leaf, container, absent, empty} with Query {//root-tag, inner tag, //body, invalid, no match, unset} and Layout {unset, default, unknown}; ValOrRef: 1-3 UnmarshalYAML calls on one receiver over YAML texts of every node kind (ref of every type) and hand-built document / alias / zero / sequence nodes, default marshal round trip of every (isRef, Ref, Val) state; AnyVal over plain trees. Assumptions: stdout and stderr go to different files; the harness runs as root (an output file cannot be opened only for a missing parent directory or a directory); the process result, the engine's renderings and the parser's tree are observed by the harness and enter the model as parameter values; HTML trees use no element the parser restructures. As the code is (counted in the distribution, compared with the model, not judged): exit status 0 is not stored at SaveExitCodeTo; Html2DomOp without a Query stores an empty container; a From leaf that is not a string and a `ref` that is not a string panic.")
	for i, n := 0, c.N(260); i < n; i++ {
		c.Tick()
		c.Do("ox-exec", c13oxGenExec(c, g))
	}
	for i, n := 0, c.N(350); i < n; i++ {
		c.Tick()
		c.Do("ox-tplfile", c13oxGenTplFile(c, g))
	}
	for i, n := 0, c.N(500); i < n; i++ {
		c.Tick()
		c.Do("ox-html", c13oxGenHtml(c, g))
	}
	for i, n := 0, c.N(300); i < n; i++ {
		c.Tick()
		c.Do("ox-vor", c13oxGenVor(c))
	}
	for i, n := 0, c.N(120); i < n; i++ {
		c.Tick()
		c.Do("ox-vor-rt", c13oxVorRT{IsRef: c.Rng.Intn(2) == 0, Ref: pick(c.Rng, c13oxVorTexts), Val: pick(c.Rng, c13oxVorTexts)})
	}
	for i, n := 0, c.N(150); i < n; i++ {
		c.Tick()
		c.Do("ox-anyval", c13oxAnyVal{Tree: c13PlainTree(c.Rng, 0)})
	}
}

// c13oxEval dispatches the kinds "ox-…"; other kinds are not its business.
func c13oxEval(c *Ctx, kind string, raw []byte) {
	switch kind {
	case "ox-exec":
		c13oxEvalExec(c, raw)
	case "ox-tplfile":
		c13oxEvalTplFile(c, raw)
	case "ox-html":
		c13oxEvalHtml(c, raw)
	case "ox-vor":
		c13oxEvalVor(c, raw)
	case "ox-vor-rt":
		c13oxEvalVorRT(c, raw)
	case "ox-anyval":
		c13oxEvalAnyVal(c, raw)
	}
}

// ------------------------------------------------------------------ ExecOp

func c13oxEvalExec(c *Ctx, raw []byte) {
	var p c13oxExec
	if err := json.Unmarshal(raw, &p); err != nil {
		panic(err)
	}
	if !c13IsDoc(p.Data) {
		return
	}
	var saveSegs []c13Seg
	if p.SaveTo != nil {
		s, ok := c13ParsePath(*p.SaveTo)
		if !ok || len(s) == 0 {
			return // outside the domain: path-safe, non-empty target paths
		}
		saveSegs = s
	}
	dir := c13TempDir(c)
	defer os.RemoveAll(dir)
	_ = os.Mkdir(filepath.Join(dir, "sub"), 0o755)

	prog, wd := c13oxSub(p.Prog, dir), c13oxSub(p.Dir, dir)
	var args []string
	var argsP *[]string
	if p.Args != nil {
		args = make([]string, len(*p.Args))
		for i, a := range *p.Args {
			args[i] = c13oxSub(a, dir)
		}
		cp := append([]string{}, args...)
		argsP = &cp
	}
	stdout, stderr := c13oxSubP(p.Stdout, dir), c13oxSubP(p.Stderr, dir)
	all := append([]string{prog, wd}, args...)
	if stdout != nil {
		all = append(all, *stdout)
	}
	if stderr != nil {
		all = append(all, *stderr)
	}
	ren, lenient := c13oxLenient(p.Data, all...)
	if stdout != nil && stderr != nil && lenient(*stdout) == lenient(*stderr) {
		return // outside the domain: both streams into one file (two independent descriptors on it)
	}

	// the operating system's answer, observed by running the same command here
	progR, wdR := lenient(prog), lenient(wd)
	argsR := make([]string, len(args))
	for i, a := range args {
		argsR[i] = lenient(a)
	}
	marker := filepath.Join(dir, "marker")
	var so, se bytes.Buffer
	pre := osx.Command(progR, argsR...)
	pre.Dir = wdR
	pre.Stdout, pre.Stderr = &so, &se
	perr := pre.Run()
	var exitErr *osx.ExitError
	proc := map[string]any{}
	procKind, code := "", 0
	switch {
	case perr == nil:
		procKind = "success"
	case errors.As(perr, &exitErr):
		procKind, code = "exit", exitErr.ExitCode()
		proc["code"] = code
	default:
		procKind = "start"
	}
	proc["kind"] = procKind
	proc["out"], proc["err"] = c13oxBytes(so.Bytes()), c13oxBytes(se.Bytes())
	c.Dist("exec:proc=" + procKind)
	marks0 := 0
	if b, err := os.ReadFile(marker); err == nil {
		marks0 = len(b)
	}
	usesMarker := marks0 > 0
	cannotOpen := []any{}
	canOut, canErr := true, true
	if stdout != nil {
		if canOut = c13oxWritable(lenient(*stdout)); !canOut {
			cannotOpen = append(cannotOpen, lenient(*stdout))
		}
	}
	if stderr != nil {
		if canErr = c13oxWritable(lenient(*stderr)); !canErr {
			cannotOpen = append(cannotOpen, lenient(*stderr))
		}
	}

	gd := wireContainer(p.Data)
	before := nodeWire(gd)
	op := &pipeline.ExecOp{Program: prog, Args: argsP, Dir: wd, Stdout: stdout, Stderr: stderr, SaveExitCodeTo: p.SaveTo}
	if p.Valid != nil {
		v := append([]int{}, *p.Valid...)
		op.ValidExitCodes = &v
	}
	tag, txt, log := c13oxExecute(gd, op)
	after, snapOK, stxt := c13After(gd)
	det := func(extra map[string]any) map[string]any {
		m := map[string]any{"tag": tag, "err": txt, "proc": procKind, "code": code, "after": after}
		for k, v := range extra {
			m[k] = v
		}
		return m
	}
	if !c.Direct("exec: no panic", tag != "panic" && snapOK, txt+stxt) {
		return
	}
	if c13NodeCount(p.Data) >= 2 && procKind != "start" {
		c.Nontrivial()
	}
	opened := canOut && canErr
	marks1 := 0
	if b, err := os.ReadFile(marker); err == nil {
		marks1 = len(b)
	}
	valid := []int{}
	if p.Valid != nil {
		valid = *p.Valid
	}
	inValid := false
	for _, v := range valid {
		inValid = inValid || v == code
	}

	// --- direct predicates
	if !opened {
		c.Dist("exec:output-file-cannot-be-opened")
		c.Direct("exec: an output file that cannot be opened is an error and the data stays as it was",
			tag == "err" && canon(after) == canon(before), det(nil))
		if usesMarker {
			c.Direct("exec: the program is not run when an output file cannot be opened", marks1 == marks0, det(map[string]any{"runs": marks1 - marks0}))
		}
	} else {
		switch procKind {
		case "start":
			c.Direct("exec: a program that cannot be started is an error and the data stays as it was",
				tag == "err" && canon(after) == canon(before), det(nil))
		case "exit":
			if p.SaveTo != nil {
				c.Dist("exec:exit-code-saved")
				got, gok := c13WireAt(after, *p.SaveTo)
				c.Direct("exec: SaveExitCodeTo - the exit code is set at this path within the data",
					gok && canon(got) == canon(scalarWire(code)), det(map[string]any{"at-path": got, "valid": valid}))
			}
			if inValid {
				c.Dist("exec:exit-code-valid")
			} else {
				c.Dist("exec:exit-code-not-valid")
			}
			c.Direct("exec: ValidExitCodes - an exit code in the list is valid, any other non-zero exit code is an error",
				(tag == "ok") == inValid, det(map[string]any{"valid": valid, "validIsNil": p.Valid == nil}))
		case "success":
			c.Direct("exec: a program that exits with status 0 is no error", tag == "ok", det(nil))
			if p.SaveTo != nil {
				// the code as it is: exit status 0 is NOT stored (Run() returns nil, the ExitError branch is not
				// taken).  Counted, reported by the model comparison, not judged here.
				c.Dist("exec:exit-0-with-SaveExitCodeTo(not stored by the code)")
			}
		}
		if usesMarker && procKind != "start" {
			c.Direct("exec: the program is run exactly once", marks1 == marks0+1, det(map[string]any{"runs": marks1 - marks0}))
		}
		if procKind != "start" {
			for _, st := range []struct {
				name string
				path *string
				want []byte
			}{{"Stdout", stdout, so.Bytes()}, {"Stderr", stderr, se.Bytes()}} {
				if st.path == nil {
					continue
				}
				got, rerr := os.ReadFile(lenient(*st.path))
				c.Dist("exec:" + st.name + "-file-compared")
				c.Direct("exec: "+st.name+" - the file holds what the program wrote to that stream",
					rerr == nil && bytes.Equal(got, st.want), det(map[string]any{"file": string(got), "want": string(st.want)}))
			}
		}
	}
	if p.SaveTo == nil {
		c.Direct("exec: without SaveExitCodeTo the data stays as it was", canon(after) == canon(before), det(nil))
	} else {
		fr, why := c13Frame(before, after, saveSegs)
		c.Direct("frame: paths not under the target unchanged", fr, det(map[string]any{"why": why}))
	}

	// --- model
	files := []any{}
	for _, sp := range []*string{stdout, stderr} {
		if sp == nil {
			continue
		}
		if b, err := os.ReadFile(lenient(*sp)); err == nil {
			files = append(files, []any{lenient(*sp), c13oxBytes(b)})
		}
	}
	argsW := any(nil)
	if p.Args != nil {
		l := make([]any, len(args))
		for i, a := range args {
			l[i] = a
		}
		argsW = l
	}
	validW := any(nil)
	if p.Valid != nil {
		l := make([]any, len(*p.Valid))
		for i, v := range *p.Valid {
			l[i] = v
		}
		validW = l
	}
	m := c.Model("opsExt", map[string]any{"fn": "exec", "data": p.Data, "program": prog, "args": argsW, "dir": wd, "valid": validW,
		"stdout": stdout, "stderr": stderr, "saveTo": p.SaveTo, "ren": ren, "cannotOpen": cannotOpen, "proc": proc})
	impl := map[string]any{"err": tag == "err", "data": after, "files": files, "log": log.wire()}
	if mm, ok := m.(map[string]any); ok {
		if usesMarker {
			impl["ran"] = marks1 > marks0
		} else {
			delete(mm, "ran") // whether the program ran is observable only through the marker
		}
	}
	c.Corr("execOp", impl, m)
}

// ------------------------------------------------------------------ TemplateFileOp

const c13oxStale = "\x01stale content of the output file\x01"

func c13oxEvalTplFile(c *Ctx, raw []byte) {
	var p c13oxTplFile
	if err := json.Unmarshal(raw, &p); err != nil {
		panic(err)
	}
	if !c13IsDoc(p.Data) || strings.ContainsAny(p.InFile, "/\x00") || p.InFile == "" || p.InFile == "." || p.InFile == ".." {
		return
	}
	dir := c13TempDir(c)
	defer os.RemoveAll(dir)
	file, output := c13oxSub(p.File, dir), c13oxSub(p.Output, dir)
	if !p.NoFile {
		if err := os.WriteFile(filepath.Join(dir, p.InFile), []byte(p.Tmpl), 0o644); err != nil {
			return
		}
	}
	// the scope the field documentation names: the root, or the container at Path
	scope, scopeOK := p.Data, true
	if p.Path != nil {
		w, ok := c13WireAt(p.Data, *p.Path)
		scope, scopeOK = w, ok && c13IsDoc(w)
	}
	var ren []any = []any{}
	lenient := func(s string) string { return s }
	rendered, rerr := "", error(nil)
	if scopeOK {
		ren, lenient = c13oxLenient(scope, file, output)
	}
	inR, outR := lenient(file), lenient(output)
	tmplBytes, readErr := os.ReadFile(inR)
	if scopeOK && readErr == nil {
		rendered, rerr, _ = c13Render(scope, string(tmplBytes))
	}
	if p.Stale && output != "" && c13oxWritable(outR) {
		_ = os.WriteFile(outR, []byte(c13oxStale), 0o644)
	} else {
		p.Stale = false
	}
	canWrite := c13oxWritable(outR)

	gd := wireContainer(p.Data)
	before := nodeWire(gd)
	op := &pipeline.TemplateFileOp{File: file, Output: output, Path: p.Path}
	tag, txt, log := c13oxExecute(gd, op)
	after, snapOK, stxt := c13After(gd)
	if !c.Direct("templateFile: no panic", tag != "panic" && snapOK, txt+stxt) {
		return
	}
	var written any
	outContent, oerr := os.ReadFile(outR)
	outState := "absent"
	if oerr == nil {
		outState = "stale"
		if string(outContent) != c13oxStale {
			outState = "written"
			written = []any{outR, string(outContent)}
		}
	}
	det := func(extra map[string]any) map[string]any {
		m := map[string]any{"tag": tag, "err": txt, "output-file": outState, "content": string(outContent)}
		for k, v := range extra {
			m[k] = v
		}
		return m
	}
	untouched := outState == "absent" && !p.Stale || outState == "stale" && p.Stale

	// --- direct predicates
	c.Direct("templateFile: the data stays as it was", canon(after) == canon(before), det(map[string]any{"after": after}))
	switch {
	case file == "" || output == "":
		c.Dist("tplfile:empty-file-or-output")
		c.Direct("templateFile: an empty File or Output is an error", tag == "err", det(nil))
	case !scopeOK:
		c.Dist("tplfile:path-not-a-container")
		c.Direct("templateFile: Path must be a container - anything else is an error and nothing is written", tag == "err" && untouched, det(nil))
	case readErr != nil:
		c.Dist("tplfile:template-file-unreadable")
		c.Direct("templateFile: an unreadable template file is an error and nothing is written", tag == "err" && untouched, det(nil))
	case rerr != nil:
		c.Dist("tplfile:render-error")
		c.Direct("templateFile: a template that fails to render is an error and nothing is written", tag == "err" && untouched,
			det(map[string]any{"render": rerr.Error()}))
	case !canWrite:
		c.Dist("tplfile:output-unwritable")
		c.Direct("templateFile: an output file that cannot be written is an error", tag == "err", det(nil))
	default:
		c.Dist("tplfile:rendered")
		if p.Path != nil {
			c.Dist("tplfile:rendered-against-sub-container")
		}
		if c13NodeCount(p.Data) >= 2 {
			c.Nontrivial()
		}
		c.Direct("templateFile: Output holds the rendering of File's content against the container at Path (the root when omitted)",
			tag == "ok" && outState == "written" && string(outContent) == rendered, det(map[string]any{"want": rendered}))
	}

	// --- model
	renderedTbl := []any{}
	filesTbl := []any{}
	if readErr == nil {
		filesTbl = append(filesTbl, []any{inR, string(tmplBytes)})
		if scopeOK {
			if rerr == nil {
				renderedTbl = append(renderedTbl, []any{string(tmplBytes), rendered})
			} else {
				renderedTbl = append(renderedTbl, []any{string(tmplBytes), nil})
			}
		}
	}
	cannot := []any{}
	if !canWrite {
		cannot = append(cannot, outR)
	}
	m := c.Model("opsExt", map[string]any{"fn": "templateFile", "data": p.Data, "file": file, "output": output, "path": p.Path,
		"ren": ren, "rendered": renderedTbl, "files": filesTbl, "cannotWrite": cannot})
	c.Corr("templateFileOp", map[string]any{"err": tag == "err", "data": after, "written": written, "log": log.wire()}, m)
}

// ------------------------------------------------------------------ Html2DomOp

var c13oxNameRe = regexp.MustCompile(`^[a-z][a-z0-9-]*$`)

func c13oxTagOK(t string) bool {
	for _, x := range c13oxTags {
		if x == t {
			return true
		}
	}
	return false
}

// c13oxTreeOK: the generated shape - known ordinary tags, distinct lower-case attribute names, no two
// adjacent text nodes, no characters the parser rewrites (NUL, CR), comments without "--" or ">" at the start.
func c13oxTreeOK(e *c13oxH, root bool) bool {
	if e == nil {
		return false
	}
	switch {
	case e.Text != nil:
		return !root && e.Tag == "" && e.Comment == nil && len(e.Kids) == 0 && len(e.Attrs) == 0 && *e.Text != "" &&
			!strings.ContainsAny(*e.Text, "\x00\r")
	case e.Comment != nil:
		return !root && e.Tag == "" && len(e.Kids) == 0 && len(e.Attrs) == 0 && !strings.Contains(*e.Comment, "--") &&
			!strings.HasPrefix(*e.Comment, ">") && !strings.HasPrefix(*e.Comment, "->") && !strings.HasSuffix(*e.Comment, "-") &&
			!strings.ContainsAny(*e.Comment, "\x00\r")
	}
	if !c13oxTagOK(e.Tag) {
		return false
	}
	seen := map[string]bool{}
	for _, a := range e.Attrs {
		if !c13oxNameRe.MatchString(a[0]) || seen[a[0]] || strings.ContainsAny(a[1], "\x00\r") {
			return false
		}
		seen[a[0]] = true
	}
	prevText := false
	for _, k := range e.Kids {
		if !c13oxTreeOK(k, false) {
			return false
		}
		if k.Text != nil && prevText {
			return false
		}
		prevText = k.Text != nil
	}
	return true
}

func c13oxSerialise(e *c13oxH, sb *strings.Builder) {
	switch {
	case e.Text != nil:
		sb.WriteString(html.EscapeString(*e.Text))
	case e.Comment != nil:
		sb.WriteString("<!--" + *e.Comment + "-->")
	default:
		sb.WriteString("<" + e.Tag)
		for _, a := range e.Attrs {
			sb.WriteString(" " + a[0] + "=\"" + html.EscapeString(a[1]) + "\"")
		}
		sb.WriteString(">")
		for _, k := range e.Kids {
			c13oxSerialise(k, sb)
		}
		sb.WriteString("</" + e.Tag + ">")
	}
}

// c13oxHtmlWire: the parser's tree as the model takes it.
func c13oxHtmlWire(n *html.Node) any {
	kids := func() []any {
		l := []any{}
		for ch := n.FirstChild; ch != nil; ch = ch.NextSibling {
			l = append(l, c13oxHtmlWire(ch))
		}
		return l
	}
	switch n.Type {
	case html.ElementNode:
		as := []any{}
		for _, a := range n.Attr {
			as = append(as, []any{a.Key, a.Val})
		}
		return map[string]any{"e": n.Data, "a": as, "c": kids()}
	case html.TextNode:
		return map[string]any{"t": n.Data}
	case html.DocumentNode:
		return map[string]any{"d": kids()}
	}
	return map[string]any{"o": 1}
}

// c13oxCheckElem: the documented default layout, checked on the generated tree (not on the parser's):
// the container built for element e.
func c13oxCheckElem(e *c13oxH, w W, at string, bad *[]string) {
	m, ok := wireCont(w)
	if !ok {
		*bad = append(*bad, at+": not a container")
		return
	}
	allowed := map[string]bool{}
	// "Attributes of element are put into container node Attrs"
	if len(e.Attrs) > 0 {
		allowed["Attrs"] = true
		want := map[string]any{}
		for _, a := range e.Attrs {
			want[a[0]] = scalarWire(a[1])
		}
		if canon(m["Attrs"]) != canon(map[string]any{"m": want}) {
			*bad = append(*bad, at+": Attrs is not the element's attributes")
		}
	}
	// "Child elements are collected into the list, if their name appears multiple times within the parent,
	//  otherwise they are regular child node"
	byTag := map[string][]*c13oxH{}
	var order []string
	var texts []string
	for _, k := range e.Kids {
		switch {
		case k.Text != nil:
			if strings.TrimSpace(*k.Text) != "" {
				texts = append(texts, *k.Text)
			}
		case k.Comment != nil:
		default:
			if _, ok := byTag[k.Tag]; !ok {
				order = append(order, k.Tag)
			}
			byTag[k.Tag] = append(byTag[k.Tag], k)
		}
	}
	for _, t := range order {
		allowed[t] = true
		kids := byTag[t]
		if len(kids) == 1 {
			c13oxCheckElem(kids[0], m[t], at+"."+t, bad)
			continue
		}
		l, ok := m[t].([]any)
		if !ok || len(l) != len(kids) {
			*bad = append(*bad, fmt.Sprintf("%s.%s: %d child elements of this name, but not a list of that many items", at, t, len(kids)))
			continue
		}
		for i, k := range kids {
			c13oxCheckElem(k, l[i], fmt.Sprintf("%s.%s[%d]", at, t, i), bad)
		}
	}
	// "Value leaf for every text node": one key, so with several text nodes it holds one of them
	if len(texts) > 0 {
		allowed["Value"] = true
		hit := false
		for _, t := range texts {
			hit = hit || canon(m["Value"]) == canon(scalarWire(t))
		}
		if len(texts) == 1 && !hit {
			*bad = append(*bad, at+": Value is not the element's text")
		} else if !hit {
			*bad = append(*bad, at+": Value is none of the element's texts")
		}
	}
	for k := range m {
		if !allowed[k] {
			*bad = append(*bad, at+": unexpected member "+k)
		}
	}
}

func c13oxEvalHtml(c *Ctx, raw []byte) {
	var p c13oxHtml
	if err := json.Unmarshal(raw, &p); err != nil {
		panic(err)
	}
	if !c13IsDoc(p.Data) || !c13oxTreeOK(p.Tree, true) {
		return
	}
	toSegs, tok := c13ParsePath(p.To)
	fromSegs, fok := c13ParsePath(p.From)
	if !tok || !fok {
		return
	}
	var sb strings.Builder
	c13oxSerialise(p.Tree, &sb)
	src := sb.String()
	// place the source
	data := deepCopyW(p.Data)
	gd0 := wireContainer(data)
	if len(fromSegs) > 0 {
		switch p.Src {
		case "html":
			gd0.AddValueAt(p.From, dom.LeafNode(src))
		case "int":
			gd0.AddValueAt(p.From, dom.LeafNode(42))
		case "container":
			gd0.AddValueAt(p.From, dom.Builder().Container())
		default:
			if n := gd0.Lookup(p.From); n != nil {
				return
			}
		}
	}
	dataW := nodeWire(gd0)
	gd := wireContainer(dataW)
	before := nodeWire(gd)

	// the library's answer, observed by parsing the same text here
	var docW, queriedW any
	var qnode *html.Node
	qerr := error(nil)
	doc, _ := htmlquery.Parse(strings.NewReader(src))
	if doc != nil {
		docW = c13oxHtmlWire(doc)
		if p.Query != nil {
			out, _ := guard(func() { qnode, qerr = htmlquery.Query(doc, *p.Query) })
			if out == "panic" {
				return
			}
			switch {
			case qerr != nil:
				queriedW = "err"
			case qnode != nil:
				queriedW = c13oxHtmlWire(qnode)
			}
		}
	}
	ren, lenient := c13oxLenient(dataW, p.From, p.To)
	if lenient(p.From) != p.From || lenient(p.To) != p.To {
		return
	}

	op := &pipeline.Html2DomOp{From: p.From, To: p.To, Query: p.Query}
	if p.Layout != nil {
		l := pipeline.Html2DomLayout(*p.Layout)
		op.Layout = &l
	}
	tag, txt, _ := c13oxExecute(gd, op)
	after, snapOK, stxt := c13After(gd)
	det := func(extra map[string]any) map[string]any {
		m := map[string]any{"tag": tag, "err": txt, "html": src, "after": after}
		for k, v := range extra {
			m[k] = v
		}
		return m
	}
	srcIsString := p.Src == "html" && len(fromSegs) > 0
	if p.Src == "int" && len(fromSegs) > 0 && len(toSegs) > 0 {
		// From "is path ... to the leaf node where XML source is stored as string": a leaf of another type is outside
		// the documented domain; the code type-asserts (panic).  Left to the model comparison.
		c.Dist("html:source-leaf-not-a-string")
	} else if !c.Direct("html2dom: no panic", tag != "panic" && snapOK, txt+stxt) {
		return
	}
	layoutOK := p.Layout == nil || *p.Layout == "default"
	switch {
	case len(fromSegs) == 0 || len(toSegs) == 0:
		c.Dist("html:empty-from-or-to")
		c.Direct("html2dom: an empty From or To is an error and the data stays as it was", tag == "err" && canon(after) == canon(before), det(nil))
	case !srcIsString:
		if p.Src != "int" {
			c.Dist("html:source-not-a-leaf")
			c.Direct("html2dom: From must find a leaf - anything else is an error and the data stays as it was",
				tag == "err" && canon(after) == canon(before), det(nil))
		}
	case !layoutOK:
		c.Dist("html:unknown-layout")
		c.Direct("html2dom: an unknown layout is an error and the data stays as it was", tag == "err" && canon(after) == canon(before), det(nil))
	case p.Query != nil && (qerr != nil || qnode == nil):
		c.Dist("html:query-error-or-no-match")
		c.Direct("html2dom: a query that fails or matches nothing is an error and the data stays as it was",
			tag == "err" && canon(after) == canon(before), det(nil))
	default:
		fr, why := c13Frame(before, after, toSegs)
		c.Direct("frame: paths not under the target unchanged", fr, det(map[string]any{"why": why}))
		got, gok := c13WireAt(after, p.To)
		c.Direct("html2dom: To holds the converted document as a container", tag == "ok" && gok && c13IsDoc(got), det(nil))
		if p.Query == nil {
			// the code as it is: without a Query the DOCUMENT node goes to the layout function, which handles only
			// elements and text nodes - an empty container is stored.  Counted, left to the model comparison.
			c.Dist("html:no-query(document node: nothing converted)")
		} else if tag == "ok" && gok && *p.Query == "//"+p.Tree.Tag {
			c.Dist("html:layout-checked")
			if c13NodeCount(p.Data) >= 2 {
				c.Nontrivial()
			}
			var bad []string
			m, _ := wireCont(got)
			if len(m) != 1 || m[p.Tree.Tag] == nil {
				bad = append(bad, "the container at To does not hold exactly the queried element")
			} else {
				c13oxCheckElem(p.Tree, m[p.Tree.Tag], p.Tree.Tag, &bad)
			}
			c.Direct("html2dom: default layout - Attrs holds the attributes, child elements are a list when their name repeats (in document order) and a regular child otherwise, Value holds the text",
				len(bad) == 0, det(map[string]any{"problems": bad, "at-to": got}))
		}
	}

	// --- model
	m := c.Model("opsExt", map[string]any{"fn": "html2dom", "data": dataW, "from": p.From, "to": p.To, "query": p.Query, "layout": p.Layout,
		"ren": ren, "doc": docW, "queried": queriedW})
	c.Corr("html2domOp", map[string]any{"out": tag, "data": after}, m)
}

// ------------------------------------------------------------------ ValOrRef / AnyVal decoding

func c13oxVorWire(pv *pipeline.ValOrRef) map[string]any {
	isRef := reflect.ValueOf(pv).Elem().FieldByName("isRef").Bool()
	return map[string]any{"isRef": isRef, "ref": pv.Ref, "val": pv.Val}
}

// c13oxYIn: what UnmarshalYAML looks at - the node's kind, a scalar's text, and for a mapping what
// `node.Decode(&m)` leaves under "ref" (yaml.v3 is the parameter here).
func c13oxYIn(n *yaml.Node) map[string]any {
	switch n.Kind {
	case yaml.ScalarNode:
		return map[string]any{"kind": "scalar", "value": n.Value}
	case yaml.MappingNode:
		m := map[string]interface{}{}
		_, _ = guard(func() { _ = n.Decode(&m) })
		out := map[string]any{"kind": "mapping"}
		if x, ok := m["ref"]; ok {
			if s, isStr := x.(string); isStr {
				out["ref"] = s
			} else {
				out["ref"] = true
			}
		}
		return out
	}
	return map[string]any{"kind": "other"}
}

func c13oxResolve(pv *pipeline.ValOrRef, data dom.ContainerBuilder) (res string) {
	_ = pipeline.New(pipeline.WithData(data)).Execute(&c13Probe{f: func(ctx pipeline.ActionContext) error {
		res = pv.Resolve(ctx)
		return nil
	}})
	return
}

func c13oxEvalVor(c *Ctx, raw []byte) {
	var p c13oxVor
	if err := json.Unmarshal(raw, &p); err != nil {
		panic(err)
	}
	if len(p.Steps) == 0 || len(p.Steps) > 6 {
		return
	}
	// what each step hands to UnmarshalYAML
	nodes := make([]*yaml.Node, len(p.Steps))
	yins := make([]any, len(p.Steps))
	direct := make([]bool, len(p.Steps))
	for i, s := range p.Steps {
		direct[i] = s.Node != ""
		switch s.Node {
		case "document":
			nodes[i] = &yaml.Node{Kind: yaml.DocumentNode, Content: []*yaml.Node{{Kind: yaml.ScalarNode, Value: "x", Tag: "!!str"}}}
		case "alias":
			nodes[i] = &yaml.Node{Kind: yaml.AliasNode, Value: "x", Alias: &yaml.Node{Kind: yaml.ScalarNode, Value: "x", Tag: "!!str"}}
		case "zero":
			nodes[i] = &yaml.Node{}
		case "sequence":
			nodes[i] = &yaml.Node{Kind: yaml.SequenceNode, Tag: "!!seq"}
		case "":
			var doc yaml.Node
			if err := yaml.Unmarshal([]byte(s.Yaml), &doc); err != nil || doc.Kind != yaml.DocumentNode || len(doc.Content) != 1 {
				return // not a YAML document with content: UnmarshalYAML is not reached
			}
			root := doc.Content[0]
			if root.Kind == yaml.AliasNode {
				return
			}
			nodes[i] = root
			if root.ShortTag() == "!!null" {
				// yaml.v3 never hands a null node to an Unmarshaler (decoder.prepare): through yaml.Unmarshal the
				// function is not reached.  The node goes to UnmarshalYAML directly instead.
				direct[i] = true
			}
		default:
			return
		}
		yins[i] = c13oxYIn(nodes[i])
	}
	var pv pipeline.ValOrRef
	obs := make([]any, 0, len(p.Steps))
	dead := false
	firstTag := ""
	for i, s := range p.Steps {
		if dead {
			obs = append(obs, map[string]any{"out": "skipped"})
			continue
		}
		var err error
		out, _ := guard(func() {
			if direct[i] {
				err = pv.UnmarshalYAML(nodes[i])
			} else {
				err = yaml.Unmarshal([]byte(s.Yaml), &pv) // the route every pipeline file takes
			}
		})
		tag := out
		if out == "ok" && err != nil {
			tag = "err"
		}
		if i == 0 {
			firstTag = tag
		}
		if tag == "panic" {
			obs = append(obs, map[string]any{"out": "panic"})
			dead = true
			continue
		}
		obs = append(obs, map[string]any{"out": tag, "pv": c13oxVorWire(&pv)})
	}
	// --- direct predicates, on a first decode: "either immediate leaf value or reference to a dom.Leaf in data tree at given path"
	y0, _ := yins[0].(map[string]any)
	c.Dist("vor:first=" + fmt.Sprint(y0["kind"]))
	if len(p.Steps) >= 2 {
		c.Nontrivial()
	}
	if firstTag != "panic" {
		var fresh pipeline.ValOrRef
		_, _ = guard(func() {
			if direct[0] {
				_ = fresh.UnmarshalYAML(nodes[0])
			} else {
				_ = yaml.Unmarshal([]byte(p.Steps[0].Yaml), &fresh)
			}
		})
		fw := c13oxVorWire(&fresh)
		det := map[string]any{"tag": firstTag, "decoded": fw, "node": y0}
		switch y0["kind"] {
		case "scalar":
			text, _ := y0["value"].(string)
			c.Direct("valOrRef: a scalar decodes to the immediate value (its text), not a reference",
				firstTag == "ok" && fw["isRef"] == false && fresh.Val == text && fresh.Ref == "", det)
			if !strings.Contains(text, "{{") {
				c.Nontrivial()
				got := c13oxResolve(&fresh, dom.Builder().Container())
				c.Direct("valOrRef: an immediate value resolves to itself", got == text, map[string]any{"resolved": got, "decoded": fw})
			}
		case "mapping":
			ref, has := y0["ref"]
			if s, isStr := ref.(string); has && isStr {
				c.Nontrivial()
				c.Direct("valOrRef: a mapping with a ref key decodes to a reference to that path",
					firstTag == "ok" && fw["isRef"] == true && fresh.Ref == s, det)
				if c13SafeKeyRe.MatchString(s) {
					d := dom.Builder().Container()
					d.AddValue(s, dom.LeafNode("leaf-value-behind-the-reference"))
					got := c13oxResolve(&fresh, d)
					c.Direct("valOrRef: a reference resolves to the leaf at its path", got == "leaf-value-behind-the-reference",
						map[string]any{"resolved": got, "decoded": fw})
				}
			} else if !has {
				c.Direct("valOrRef: a mapping without a ref key is an error", firstTag == "err", det)
			} else {
				// the code as it is: `x.(string)` on a ref that is not a string panics out of yaml.Unmarshal.
				c.Dist("vor:ref-not-a-string")
			}
		default:
			c.Direct("valOrRef: neither a scalar nor a mapping is an error", firstTag == "err", det)
		}
	} else {
		c.Dist("vor:first-decode-panics")
	}
	m := c.Model("opsExt", map[string]any{"fn": "valOrRef", "steps": yins})
	c.Corr("vorUnmarshal", obs, m)
}

func c13oxEvalVorRT(c *Ctx, raw []byte) {
	var p c13oxVorRT
	if err := json.Unmarshal(raw, &p); err != nil {
		panic(err)
	}
	pv := pipeline.ValOrRef{Ref: p.Ref, Val: p.Val}
	if p.IsRef {
		b, err := yaml.Marshal(map[string]string{"ref": p.Ref})
		if err != nil {
			return
		}
		if err := yaml.Unmarshal(b, &pv); err != nil {
			return
		}
	}
	if w := c13oxVorWire(&pv); w["isRef"] != p.IsRef || pv.Ref != p.Ref || pv.Val != p.Val {
		return
	}
	text, err := yaml.Marshal(&pv)
	if err != nil {
		return
	}
	var back pipeline.ValOrRef
	var uerr error
	out, _ := guard(func() { uerr = yaml.Unmarshal(text, &back) })
	obs := map[string]any{"out": out}
	if out == "ok" && uerr != nil {
		obs["out"] = "err"
	}
	if obs["out"] == "ok" {
		obs["pv"] = c13oxVorWire(&back)
		if canon(obs["pv"]) == canon(c13oxVorWire(&pv)) {
			c.Dist("vor-rt:round-trips")
		} else {
			c.Dist("vor-rt:does-not-round-trip")
		}
	}
	if p.IsRef {
		c.Nontrivial()
	}
	m := c.Model("opsExt", map[string]any{"fn": "valOrRefMarshal", "isRef": p.IsRef, "ref": p.Ref, "val": p.Val})
	c.Corr("vorMarshalDefault", obs, m)
}

func c13oxEvalAnyVal(c *Ctx, raw []byte) {
	var p c13oxAnyVal
	if err := json.Unmarshal(raw, &p); err != nil {
		panic(err)
	}
	if p.Tree == nil {
		return
	}
	var plain any
	if out, _ := guard(func() { plain = wirePlain(p.Tree) }); out == "panic" {
		return
	}
	text, err := yaml.Marshal(plain)
	if err != nil {
		return
	}
	var doc yaml.Node
	if err := yaml.Unmarshal(text, &doc); err != nil || doc.Kind != yaml.DocumentNode || len(doc.Content) != 1 {
		return
	}
	want, ok := c13YamlParseWire(&doc)
	if !ok {
		return
	}
	var av pipeline.AnyVal
	var uerr error
	out, txt := guard(func() { uerr = yaml.Unmarshal(text, &av) })
	if !c.Direct("anyVal: no panic, no error", out == "ok" && uerr == nil, txt) {
		return
	}
	got := nodeWire(av.Value())
	if wireSize(want) >= 2 {
		c.Nontrivial()
	}
	switch want.(type) {
	case []any:
		c.Dist("anyval:list")
	default:
		if c13IsDoc(want) {
			c.Dist("anyval:container")
		} else {
			c.Dist("anyval:leaf")
		}
	}
	c.Direct("anyVal: the value is the YAML node as a DOM node (leaf / list / container, every scalar its text)",
		canon(got) == canon(want), map[string]any{"yaml": string(text), "value": got, "want": want})
	m := c.Model("opsExt", map[string]any{"fn": "anyVal", "ynode": c13YNodeWire(doc.Content[0])})
	c.Corr("anyValUnmarshal", got, m)
}
