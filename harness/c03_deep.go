package main

import (
	"encoding/json"
	"fmt"
	"reflect"
	"strings"

	"github.com/rkosegi/yaml-toolkit/dom"
)

// C03 — "starting from any document … after every step AsMap(doc) == the plain tree": DEEP documents.
//
// A few large direct-only cases per run (no model: the histories of c03.go never nest deeper than a handful of
// levels, and a 2000-level document is nothing the line protocol should carry).  A deep case is a chain of
// `Depth` composites (containers; every ListEvery-th level a list) built through the builder API — nested
// AddContainer / AddList / Append calls, or ONE AddValueAt with a path of Depth components — whose innermost
// composite (the holder) receives one value as ONE node object under several names (the way a caller does who
// builds a value once and stores it twice: v := …; AddValue("a", v); AddValue("b", v) — the sharing that heap-hist
// cases exercise on small documents), a value of its own next to it, and optionally the same node object once
// more further up.  Depths sit on and around the thresholds at which recursive encoders change their behaviour
// (255/256, 999..1003 — encoding/json starts its pointer bookkeeping after 1000 levels —, 1024, 2048) and a few
// random ones.  Then: AsMap of the root and of inner containers == the plain tree built alongside; the walk through
// Children()/Items() gives the same tree; Lookup of the deep path finds the value; after removing one name and
// writing a leaf at the bottom the same holds again.
type c03Deep struct {
	Depth     int      `json:"depth"`      // level of the holder (root = level 1); the shared value sits at level depth+1
	ListEvery int      `json:"list_every"` // every n-th level of the chain is a list (0: containers only)
	Route     string   `json:"route"`      // nested | path (one AddValueAt per name with a depth-component path; containers only)
	Names     []string `json:"names"`      // names (holder a container) under which the ONE node object is stored; a list holder appends it len(names) times
	Shared    W        `json:"shared"`
	Own       W        `json:"own"`
	AlsoAt    int      `json:"also_at"` // level (container) that holds the same node object as member "s" as well (0: none)
}

func c03DeepGen(c *Ctx, g *DocGen) {
	r := c.Rng
	depths := []int{40, 255, 256, 257, 998, 999, 1000, 1001, 1002, 1003, 1023, 1024, 1025, 2048}
	for i := 0; i < 3; i++ {
		depths = append(depths, 2+r.Intn(2500))
	}
	if !c.Thorough() {
		// quick tier: the thresholds around 1000 every run, half of the others
		var d2 []int
		for _, d := range depths {
			if (d >= 998 && d <= 1003) || r.Intn(2) == 0 {
				d2 = append(d2, d)
			}
		}
		depths = d2
	}
	for _, d := range depths {
		c.Tick()
		dc := c03Deep{Depth: d, Route: "nested", Own: g.Node(r, 1)}
		if r.Intn(3) == 0 {
			dc.ListEvery = 2 + r.Intn(5)
		} else if r.Intn(2) == 0 {
			dc.Route = "path"
		}
		// the shared value: a composite with content (now and then a leaf or an empty composite)
		switch r.Intn(8) {
		case 0:
			dc.Shared = g.Scalar(r)
		case 1:
			dc.Shared = pick(r, []W{[]any{}, map[string]any{"m": map[string]any{}}})
		case 2, 3:
			dc.Shared = []any{g.Scalar(r), g.Node(r, 1)}
		default:
			dc.Shared = map[string]any{"m": map[string]any{pick(r, c03Keys): g.Scalar(r), "n": g.Node(r, 1)}}
		}
		dc.Names = []string{"p", "q", "r"}[:2+r.Intn(2)]
		if r.Intn(4) == 0 {
			dc.AlsoAt = 1 + r.Intn(d)
		}
		c.Do("deep", dc)
	}
}

// level kind of the chain: the root (level 1) is a container
func (dc *c03Deep) isList(level int) bool {
	return level > 1 && dc.ListEvery > 1 && dc.Route != "path" && level%dc.ListEvery == 0
}

// plainContentEq: equality of plain trees by content (an empty map is an empty map, allocated or not).
func plainContentEq(a, b any) bool {
	switch x := a.(type) {
	case map[string]any:
		y, ok := b.(map[string]any)
		if !ok || len(x) != len(y) {
			return false
		}
		for k, e := range x {
			f, has := y[k]
			if !has || !plainContentEq(e, f) {
				return false
			}
		}
		return true
	case []any:
		y, ok := b.([]any)
		if !ok || len(x) != len(y) {
			return false
		}
		for i := range x {
			if !plainContentEq(x[i], y[i]) {
				return false
			}
		}
		return true
	}
	switch b.(type) {
	case map[string]any, []any:
		return false
	}
	return reflect.DeepEqual(a, b)
}

func c03DeepEval(c *Ctx, raw []byte) {
	var dc c03Deep
	if err := json.Unmarshal(raw, &dc); err != nil {
		panic(err)
	}
	if dc.Depth < 1 || dc.Depth > 4000 || len(dc.Names) == 0 || dc.Shared == nil || dc.Own == nil {
		return // a shrink candidate outside the case's shape
	}
	for _, n := range dc.Names {
		if !dhPathSafe(n) || n == "own" || n == "d" || n == "s" {
			return
		}
	}
	if !dhAllKeysSafe(dc.Shared) || !dhAllKeysSafe(dc.Own) || !c05KeysOK(dc.Shared) || !c05KeysOK(dc.Own) {
		return
	}
	if dc.Route != "path" {
		dc.Route = "nested"
	}
	if dc.AlsoAt < 0 || dc.AlsoAt > dc.Depth || (dc.AlsoAt > 0 && dc.isList(dc.AlsoAt)) {
		dc.AlsoAt = 0
	}
	c.Nontrivial()
	c.Dist(fmt.Sprintf("deep:depth~%d00", dc.Depth/100))
	c.Dist("deep:route=" + dc.Route)
	holderIsList := dc.isList(dc.Depth)
	sharedPlain, ownPlain := wirePlain(dc.Shared), wirePlain(dc.Own)

	// the plain tree, built alongside: levels[i] is the plain value of level i+1
	expect := func(names []string, bottomLeaf bool) []any {
		levels := make([]any, dc.Depth)
		if holderIsList {
			l := []any{}
			for range names {
				l = append(l, sharedPlain)
			}
			l = append(l, ownPlain)
			if bottomLeaf {
				l = append(l, "z")
			}
			levels[dc.Depth-1] = l
		} else {
			m := map[string]any{"own": ownPlain}
			for _, n := range names {
				m[n] = sharedPlain
			}
			if bottomLeaf {
				m["z"] = "z"
			}
			levels[dc.Depth-1] = m
		}
		for lv := dc.Depth - 1; lv >= 1; lv-- {
			if dc.isList(lv) {
				levels[lv-1] = []any{levels[lv]}
			} else {
				m := map[string]any{"d": levels[lv]}
				if lv == dc.AlsoAt {
					m["s"] = sharedPlain
				}
				levels[lv-1] = m
			}
		}
		if dc.AlsoAt == dc.Depth && !holderIsList {
			levels[dc.Depth-1].(map[string]any)["s"] = sharedPlain
		}
		return levels
	}

	var root dom.ContainerBuilder
	nodes := make([]dom.Node, dc.Depth) // the chain, nodes[i] = level i+1
	out, txt := guard(func() {
		root = dom.Builder().Container()
		shared := wireNode(dc.Shared) // ONE node object
		nodes[0] = root
		if dc.Route == "path" {
			prefix := strings.Repeat("d.", dc.Depth-1)
			for _, n := range dc.Names {
				root.AddValueAt(prefix+n, shared)
			}
			root.AddValueAt(prefix+"own", wireNode(dc.Own))
			var cur dom.Container = root
			for lv := 2; lv <= dc.Depth; lv++ {
				ch := cur.Child("d")
				if ch == nil || !ch.IsContainer() {
					c.Direct("deep: AddValueAt creates the missing intermediate containers", false, map[string]any{"level": lv, "depth": dc.Depth})
					return
				}
				cur = ch.(dom.Container)
				nodes[lv-1] = cur
			}
		} else {
			for lv := 2; lv <= dc.Depth; lv++ {
				var child dom.Node
				switch parent := nodes[lv-2].(type) {
				case dom.ContainerBuilder:
					if dc.isList(lv) {
						child = parent.AddList("d")
					} else {
						child = parent.AddContainer("d")
					}
				case dom.ListBuilder:
					if dc.isList(lv) {
						child = dom.ListNode()
					} else {
						child = dom.Builder().Container()
					}
					parent.Append(child)
				}
				nodes[lv-1] = child
			}
			switch h := nodes[dc.Depth-1].(type) {
			case dom.ContainerBuilder:
				for _, n := range dc.Names {
					h.AddValue(n, shared)
				}
				h.AddValue("own", wireNode(dc.Own))
			case dom.ListBuilder:
				for range dc.Names {
					h.Append(shared)
				}
				h.Append(wireNode(dc.Own))
			}
		}
		if dc.AlsoAt > 0 {
			if b, ok := nodes[dc.AlsoAt-1].(dom.ContainerBuilder); ok {
				b.AddValue("s", shared)
			} else {
				c.Direct("deep: a container created on the way is a builder", false, dc.AlsoAt)
			}
		}
	})
	if !c.Direct("no-panic(deep build)", out == "ok", txt) {
		return
	}
	if nodes[dc.Depth-1] == nil {
		return
	}
	// levels at which the views are compared: the root, the holder's neighbourhood, and levels from which the shared
	// value is 1000, 1001, 1002 levels down
	viewLevels := map[int]bool{1: true, 2: true, dc.Depth: true, dc.Depth / 2: true}
	for _, k := range []int{999, 1000, 1001, 1002} {
		viewLevels[dc.Depth+1-k] = true
	}
	check := func(stage string, names []string, bottomLeaf bool) bool {
		levels := expect(names, bottomLeaf)
		ok := true
		o, t := guard(func() {
			for lv := 1; lv <= dc.Depth && ok; lv++ {
				if !viewLevels[lv] {
					continue
				}
				var got any
				var how string
				switch n := nodes[lv-1].(type) {
				case dom.Container:
					got, how = n.AsMap(), "AsMap"
				case dom.List:
					got, how = n.AsSlice(), "AsSlice"
				}
				if !plainContentEq(got, levels[lv-1]) {
					ok = c.Direct("deep: "+how+"(node) == the plain tree (a value stored at several places is there at each of them, at any depth)", false,
						map[string]any{"stage": stage, "view_of_level": lv, "holder_level": dc.Depth, "first difference": plainFirstDiff(got, levels[lv-1], "")})
				}
			}
			if ok && !plainContentEq(wirePlain(nodeWire(root)), levels[0]) {
				ok = c.Direct("deep: the walk through Children()/Items() gives the plain tree", false, map[string]any{"stage": stage})
			}
			if ok && dc.ListEvery <= 1 {
				prefix := strings.Repeat("d.", dc.Depth-1)
				for _, n := range names {
					got := root.Lookup(prefix + n)
					if !c.Direct("deep: set-get (Lookup finds the value written at the deep path)", got != nil && canon(nodeWire(got)) == canon(dc.Shared),
						map[string]any{"stage": stage, "name": n, "depth": dc.Depth, "Lookup": nodeWire(got)}) {
						ok = false
						break
					}
				}
			}
		})
		if !c.Direct("no-panic(deep read)", o == "ok", map[string]any{"stage": stage, "panic": t}) {
			return false
		}
		return ok
	}
	if !check("built", dc.Names, false) {
		return
	}
	// two edits at the bottom: one name goes, a leaf comes
	o, t := guard(func() {
		switch h := nodes[dc.Depth-1].(type) {
		case dom.ContainerBuilder:
			if dc.Route == "path" {
				prefix := strings.Repeat("d.", dc.Depth-1)
				root.RemoveAt(prefix + dc.Names[0])
				root.AddValueAt(prefix+"z", dom.LeafNode("z"))
			} else {
				h.Remove(dc.Names[0])
				h.AddValue("z", dom.LeafNode("z"))
			}
		case dom.ListBuilder:
			items := append([]dom.Node{}, h.Items()...)
			h.Clear()
			for _, it := range items[1:] {
				h.Append(it)
			}
			h.Append(dom.LeafNode("z"))
		}
	})
	if !c.Direct("no-panic(deep edit)", o == "ok", t) {
		return
	}
	check("after removing one name and adding a leaf at the bottom", dc.Names[1:], true)
}

// plainFirstDiff: the first position (key order not defined) at which two plain trees differ, as a short text.
func plainFirstDiff(a, b any, at string) string {
	short := func(p string) string {
		if len(p) > 60 {
			return fmt.Sprintf("%s…(%d steps)…%s", p[:20], strings.Count(p, ".")+strings.Count(p, "["), p[len(p)-30:])
		}
		return p
	}
	switch x := a.(type) {
	case map[string]any:
		y, ok := b.(map[string]any)
		if !ok {
			return fmt.Sprintf("%s: got a map (%d members), expected %T", short(at), len(x), b)
		}
		for k, f := range y {
			e, has := x[k]
			if !has {
				return fmt.Sprintf("%s: member %q is missing", short(at), k)
			}
			if !plainContentEq(e, f) {
				return plainFirstDiff(e, f, at+"."+k)
			}
		}
		for k := range x {
			if _, has := y[k]; !has {
				return fmt.Sprintf("%s: unexpected member %q", short(at), k)
			}
		}
	case []any:
		y, ok := b.([]any)
		if !ok {
			return fmt.Sprintf("%s: got a slice (%d items), expected %T", short(at), len(x), b)
		}
		if len(x) != len(y) {
			return fmt.Sprintf("%s: %d items, expected %d", short(at), len(x), len(y))
		}
		for i := range x {
			if !plainContentEq(x[i], y[i]) {
				return plainFirstDiff(x[i], y[i], fmt.Sprintf("%s[%d]", at, i))
			}
		}
	}
	return fmt.Sprintf("%s: got %.80s (%T), expected %.80s (%T)", short(at), fmt.Sprint(a), a, fmt.Sprint(b), b)
}
