package main

import (
	"bytes"
	"encoding/json"
	"fmt"
	"strings"

	"github.com/rkosegi/yaml-toolkit/dom"
)

// C04 — OverlayDocument.Merged(opts) is the fold of Merge over the layers AS THEY ARE: overlay histories.
//
// The overlay cases of c04.go add the layers and read Merged once.  An overlay document is a long-lived object: it is
// read (Merged(), Merged(ListsMergeAppend()), Serialize), its layers change, it is read again.  Layers change through
// the overlay's own API (Add / Put / Populate) and through live nodes: Lookup(layer, path) hands out the layer's own
// builders, and the nested containers and lists of a document given to Add are taken by reference, so the caller's
// own handle writes into the layer as well (Layers() shows such a write at once).  A history is 2-6 such steps; after
// the layers are added and after EVERY step the merged view is read with both list strategies (alternating order)
// and compared with the reference fold over Layers() in LayerNames() order at that moment.
type c04OvStep struct {
	Op    string `json:"op"` // live (write through a live node) | put | add | populate | serialize
	Layer string `json:"layer,omitempty"`
	Path  string `json:"path,omitempty"` // live: an existing container or list of the layer; put: where; populate: below which container ("" = root)
	Key   string `json:"key,omitempty"`  // live, container: the member written (V absent: removed)
	V     W      `json:"v,omitempty"`
	Via   string `json:"via,omitempty"` // live: lookup (ov.Lookup(layer, path)) | given (the same path in the document the caller gave to Add)
}

type c04OvHist struct {
	Layers []c04Layer  `json:"layers"`
	Steps  []c04OvStep `json:"steps"`
}

func c04RunOvHist(c *Ctx, g *DocGen, second func(W) W) {
	r := c.Rng
	for i := 0; i < c.N(300); i++ {
		c.Tick()
		n := 2 + r.Intn(2)
		h := c04OvHist{Layers: make([]c04Layer, n)}
		prev := g.Doc(r)
		for j := range h.Layers {
			h.Layers[j] = c04Layer{Name: fmt.Sprintf("L%d", j), Doc: prev}
			prev = second(prev)
		}
		for k, steps := 0, 2+r.Intn(5); k < steps; k++ {
			l := pick(r, h.Layers)
			st := c04OvStep{Layer: l.Name}
			var conts, paths, lists []string
			wireContPaths(l.Doc, "", &conts)
			wirePaths(l.Doc, "", &paths, &lists)
			switch x := r.Intn(10); {
			case x < 5:
				st.Op, st.Via = "live", pick(r, []string{"lookup", "lookup", "given"})
				if len(lists) > 0 && r.Intn(4) == 0 {
					st.Path, st.V = pick(r, lists), g.Node(r, 1)
				} else if len(conts) > 0 {
					st.Path, st.Key = pick(r, conts), pick(r, g.Keys)
					if r.Intn(4) > 0 {
						st.V = g.Node(r, 2)
					}
				} else {
					continue
				}
			case x < 7:
				st.Op, st.V = "put", g.Scalar(r) // a leaf or a list (a container is taken apart into its leaves: C06)
				if r.Intn(3) == 0 {
					st.V = g.List(r, 1)
				}
				st.Path = pick(r, g.Keys)
				if len(conts) > 0 && r.Intn(3) > 0 {
					st.Path = pick(r, conts) + "." + st.Path
				}
				if strings.Contains(st.Path, "[") {
					continue
				}
			case x == 7:
				st.Op, st.V = "add", g.Doc(r)
				if r.Intn(3) == 0 {
					st.Layer = fmt.Sprintf("L%d", n) // a new layer
				}
			case x == 8:
				st.Op, st.V = "populate", g.Doc(r)
				if len(conts) > 0 && r.Intn(2) == 0 {
					st.Path = pick(r, conts)
					if strings.Contains(st.Path, "[") {
						continue
					}
				}
			default:
				st.Op = "serialize"
			}
			h.Steps = append(h.Steps, st)
		}
		c.Do("overlay-hist", h)
	}
}

// c04OvPathFree: the components of path lead through containers of w or through nothing (Put and Populate create
// what is missing; they are not defined on a path that crosses a leaf or a list).
func c04OvPathFree(w W, comps []string) bool {
	cur := w
	for _, k := range comps {
		cm, ok := wireCont(cur)
		if !ok {
			return false
		}
		nx, has := cm[k]
		if !has {
			return true
		}
		cur = nx
	}
	_, ok := wireCont(cur)
	return ok
}

func c04EvalOvHist(c *Ctx, raw []byte) {
	var p c04OvHist
	if err := json.Unmarshal(raw, &p); err != nil {
		panic(err)
	}
	seen := map[string]bool{}
	for _, l := range p.Layers {
		if wireKind(l.Doc) != "cont" || seen[l.Name] || l.Name == "" {
			return
		}
		seen[l.Name] = true
	}
	if len(p.Layers) == 0 {
		return
	}
	for i := 1; i < len(p.Layers); i++ {
		if c04Stats(c, p.Layers[i-1].Doc, p.Layers[i].Doc, true) {
			c.Nontrivial()
		}
	}
	out, txt := guard(func() {
		ov := dom.NewOverlayDocument()
		given := map[string]dom.ContainerBuilder{}
		for _, l := range p.Layers {
			d := wireContainer(l.Doc)
			given[l.Name] = d
			ov.Add(l.Name, d)
		}
		snap := func() (names []string, docs []W) {
			ls := ov.Layers()
			names = ov.LayerNames()
			for _, n := range names {
				docs = append(docs, nodeWire(ls[n]))
			}
			return
		}
		reads := 0
		check := func(step int, what any) bool {
			names, docs := snap()
			order := []bool{false, true}
			if reads%2 == 1 {
				order = []bool{true, false}
			}
			reads++
			for _, app := range order {
				var ref W = map[string]any{"m": map[string]any{}}
				for _, d := range docs {
					ref = c04RefDoc(ref, d, app)
				}
				var m dom.Container
				how := "Merged()"
				if app {
					m, how = ov.Merged(dom.ListsMergeAppend()), "Merged(ListsMergeAppend())"
				} else {
					m = ov.Merged()
				}
				mw := nodeWire(m)
				if !c.Direct("overlay history: Merged(opts) == fold of Merge over the layers as they are now (Layers() in LayerNames() order), at every read",
					canon(mw) == canon(ref) && canon(plainWire(m.AsMap())) == canon(ref),
					map[string]any{"after_step": step, "step": what, "read": how, "layer_names": names, "layers_now": docs, "merged": mw, "expected": ref}) {
					return false
				}
			}
			return true
		}
		if !check(-1, "layers added") {
			return
		}
		for i, st := range p.Steps {
			names, docs := snap()
			layerDoc := W(nil)
			for k, n := range names {
				if n == st.Layer {
					layerDoc = docs[k]
				}
			}
			status := "done"
			switch st.Op {
			case "live":
				if layerDoc == nil || st.Path == "" {
					status = "skip"
					break
				}
				var n dom.Node
				if st.Via == "given" {
					if g := given[st.Layer]; g != nil {
						n = g.Lookup(st.Path)
					}
				} else {
					n = ov.Lookup(st.Layer, st.Path)
				}
				switch b := n.(type) {
				case dom.ContainerBuilder:
					if !dhPathSafe(st.Key) || (st.V != nil && !c05KeysOK(st.V)) {
						status = "skip"
					} else if st.V == nil {
						b.Remove(st.Key)
					} else {
						b.AddValue(st.Key, wireNode(st.V))
					}
				case dom.ListBuilder:
					if st.V == nil || !c05KeysOK(st.V) {
						status = "skip"
					} else {
						b.Append(wireNode(st.V))
					}
				default:
					status = "skip"
				}
				if status == "done" && st.Via != "given" {
					// the write went into the layer: Lookup through the overlay shows it
					if _, isCont := n.(dom.ContainerBuilder); isCont && st.V != nil {
						got := ov.Lookup(st.Layer, st.Path+"."+st.Key)
						c.Direct("overlay history: a write through the builder Lookup hands out is a write to the layer", got != nil && canon(nodeWire(got)) == canon(st.V),
							map[string]any{"step": i, "op": st, "Lookup": nodeWire(got)})
					}
				}
			case "put":
				comps := strings.Split(st.Path, ".")
				ok := st.V != nil && st.Layer != "" && wireKind(st.V) != "cont" && c05KeysOK(st.V) && dhAllKeysSafe(st.V)
				for _, k := range comps {
					ok = ok && dhPathSafe(k)
				}
				if ok && layerDoc != nil {
					ok = c04OvPathFree(layerDoc, comps[:len(comps)-1])
				}
				if !ok {
					status = "skip"
					break
				}
				ov.Put(st.Layer, st.Path, wireNode(st.V))
			case "add":
				if wireKind(st.V) != "cont" || st.Layer == "" || !c05KeysOK(st.V) {
					status = "skip"
					break
				}
				ov.Add(st.Layer, wireContainer(st.V))
			case "populate":
				ok := wireKind(st.V) == "cont" && st.Layer != "" && c05KeysOK(st.V)
				var comps []string
				if st.Path != "" {
					comps = strings.Split(st.Path, ".")
				}
				for _, k := range comps {
					ok = ok && dhPathSafe(k)
				}
				if ok && layerDoc != nil {
					ok = c04OvPathFree(layerDoc, comps)
				}
				if !ok {
					status = "skip"
					break
				}
				m := wirePlain(st.V).(map[string]any)
				ov.Populate(st.Layer, st.Path, &m)
			case "serialize":
				// a read through the serializer: the JSON text of the default merged view
				var buf bytes.Buffer
				err := ov.Serialize(&buf, dom.DefaultNodeEncoderFn, dom.DefaultJsonEncoder)
				_, now := snap()
				var ref W = map[string]any{"m": map[string]any{}}
				for _, d := range now {
					ref = c04RefDoc(ref, d, false)
				}
				want, werr := json.Marshal(wirePlain(ref))
				if werr != nil || err != nil {
					c.Direct("overlay history: Serialize fails only where the JSON encoder cannot encode the merged document", (werr != nil) == (err != nil),
						map[string]any{"step": i, "Serialize": fmt.Sprint(err), "control": fmt.Sprint(werr)})
					status = "unencodable"
					break
				}
				var a, b any
				ea, eb := json.Unmarshal(buf.Bytes(), &a), json.Unmarshal(want, &b)
				c.Direct("overlay history: Serialize writes the merged view of the layers as they are now", ea == nil && eb == nil && canon(a) == canon(b),
					map[string]any{"step": i, "written": buf.String(), "expected": string(want)})
			default:
				status = "skip"
			}
			c.Dist("overlay-hist:" + st.Op + ":" + status)
			if status == "skip" {
				continue
			}
			if !check(i, st) {
				return
			}
		}
	})
	c.Direct("no-panic", out == "ok", txt)
}
