package main

import (
	"encoding/json"
	"fmt"
	"math/rand"
	"sort"
	"strings"

	"github.com/rkosegi/yaml-toolkit/dom"
)

// Heap-level tie of the path-level builder API (C03 "heap-hist").
//
// The Lean model lean/YtkModel/HeapBuilder.lean describes AddValue / AddValueAt / AddContainer /
// AddList / Remove / RemoveAt / Child / Lookup / ListBuilder.Set / MustSet / Append / Clear /
// Walk(CompactFn) on an explicit heap of cells; a HANDLE (what a call returns) is an address.
// Here a document is built by one of the routes of heap_share.go, its REAL object graph is encoded
// as such a heap by pointer identity, and a history of builder calls is run that KEEPS the handles
// returned by AddContainer / AddList / Child / Lookup and later writes through them, mixed with
// root-level path writes that overwrite, remove or re-create the positions the handles sit at.
// After every call the document, the sharing map of its graph (which node is which object, labels
// global over the history), the liveness of every handle, the label of the returned node and the
// set of existing objects whose content changed are compared with the model's; predicates taken
// from the property text are evaluated on the implementation alone.

type hhOp struct {
	Op   string `json:"op"` // addvalue addvalueat addcontainer addlist remove removeat child lookup listset listmustset listappend listclear compact
	On   *int   `json:"on,omitempty"` // the call is made on the On-th handle; absent: on the root document
	Path string `json:"path,omitempty"`
	Idx  int    `json:"idx,omitempty"`
	V    W      `json:"v,omitempty"`  // value built right before the call (every leaf a new object)
	VH   *int   `json:"vh,omitempty"` // instead: the VH-th handle's node itself is attached (sharing)
}

type hhCase struct {
	Start W      `json:"start"`
	Build int    `json:"build"`
	Ops   []hhOp `json:"ops"`
}

// hhState: the document and the handles (nodes returned by earlier calls; nil = Go's nil).
type hhState struct {
	root    dom.ContainerBuilder
	handles []dom.Node
	used    []string // generator only: root-relative paths written so far (re-used to re-create positions)
}

func hhNewState(start W, build int) *hhState {
	n := heapBuild(start, build, map[string]dom.Node{})
	cb, ok := n.(dom.ContainerBuilder)
	if !ok {
		panic(fmt.Sprintf("heap-hist: start document is a %T", n))
	}
	return &hhState{root: cb}
}

func (st *hhState) target(op hhOp) dom.Node {
	if op.On == nil {
		return st.root
	}
	if *op.On < 0 || *op.On >= len(st.handles) {
		return nil
	}
	return st.handles[*op.On]
}

var hhContainerOps = map[string]bool{"addvalue": true, "addvalueat": true, "addcontainer": true, "addlist": true,
	"remove": true, "removeat": true, "child": true, "lookup": true, "compact": true}
var hhListOps = map[string]bool{"listset": true, "listmustset": true, "listappend": true, "listclear": true}
var hhValueOps = map[string]bool{"addvalue": true, "addvalueat": true, "listset": true, "listmustset": true, "listappend": true}
var hhReturning = map[string]bool{"addcontainer": true, "addlist": true, "child": true, "lookup": true}

// graphIDs: identities of the nodes reachable from n; composite: containers and lists only.
func graphIDs(n dom.Node, composite bool, out map[uintptr]bool) {
	if n == nil {
		return
	}
	id := nodeID(n)
	if n.IsLeaf() {
		if !composite {
			out[id] = true
		}
		return
	}
	if out[id] {
		return
	}
	out[id] = true
	if n.IsContainer() {
		for _, ch := range n.(dom.Container).Children() {
			graphIDs(ch, composite, out)
		}
		return
	}
	for _, it := range n.(dom.List).Items() {
		graphIDs(it, composite, out)
	}
}

// hhWalked: the existing container / list objects a write at path p below t walks through
// (t included).
func hhWalked(t dom.Node, p string) []dom.Node {
	out := []dom.Node{t}
	cur := t
	for _, comp := range strings.Split(p, ".") {
		base := comp
		var idxs []int
		if loc := trailingIdx.FindStringIndex(comp); loc != nil {
			base = comp[:loc[0]]
			for _, s := range strings.Split(strings.Trim(comp[loc[0]:], "[]"), "][") {
				var n int
				fmt.Sscanf(s, "%d", &n)
				idxs = append(idxs, n)
			}
		}
		c, ok := cur.(dom.Container)
		if !ok {
			return out
		}
		nx := c.Children()[base]
		if nx == nil {
			return out
		}
		cur = nx
		if !cur.IsLeaf() {
			out = append(out, cur)
		}
		for _, i := range idxs {
			l, ok := cur.(dom.List)
			if !ok || i >= l.Size() {
				return out
			}
			cur = l.Items()[i]
			if !cur.IsLeaf() {
				out = append(out, cur)
			}
		}
	}
	return out
}

// hhInDomain: the call is well-typed on the current state and inside the domain of C03 (no index
// step lands on an existing non-list, non-null node, no key step on an existing list, remove paths
// end in a key, MustSet in range) — and attaching an existing node does not close a cycle.
func hhInDomain(st *hhState, op hhOp) bool {
	t := st.target(op)
	if t == nil {
		return false
	}
	switch {
	case hhContainerOps[op.Op]:
		cb, ok := t.(dom.ContainerBuilder)
		if !ok {
			return false
		}
		if op.Op == "compact" {
			return true
		}
		if op.Path == "" {
			return false
		}
		multi := op.Op == "addvalueat" || op.Op == "removeat" || op.Op == "lookup"
		if !multi && strings.Contains(op.Path, ".") {
			return false
		}
		if (op.Op == "remove" || op.Op == "removeat") && trailingIdx.MatchString(op.Path) {
			return false
		}
		if !c03InDomain(nodeWire(cb), op.Path) {
			return false
		}
	case hhListOps[op.Op]:
		lb, ok := t.(dom.ListBuilder)
		if !ok {
			return false
		}
		if op.Idx < 0 || op.Idx > 8 || (op.Op == "listmustset" && op.Idx >= lb.Size()) {
			return false
		}
	default:
		return false
	}
	if hhValueOps[op.Op] {
		if op.VH != nil {
			if *op.VH < 0 || *op.VH >= len(st.handles) || st.handles[*op.VH] == nil {
				return false
			}
			v := st.handles[*op.VH]
			below := map[uintptr]bool{}
			graphIDs(v, true, below)
			for _, w := range hhWalked(t, op.Path) {
				if below[nodeID(w)] {
					return false // the value reaches a node on the walked path: a cycle
				}
			}
		} else if op.V == nil {
			return false
		}
	}
	return true
}

type hhResult struct {
	ret    dom.Node // node returned by a returning call (nil: Go's nil)
	val    dom.Node // the value node of a writing call
	fluent string
}

func (st *hhState) value(op hhOp) dom.Node {
	if op.VH != nil {
		return st.handles[*op.VH]
	}
	return wireNodeM(op.V, 0, false)
}

// hhApply performs the call through the public API.
func hhApply(st *hhState, op hhOp) (res hhResult) {
	t := st.target(op)
	if hhValueOps[op.Op] {
		res.val = st.value(op)
	}
	if hhContainerOps[op.Op] {
		cb := t.(dom.ContainerBuilder)
		switch op.Op {
		case "addvalue":
			if cb.AddValue(op.Path, res.val) != cb {
				res.fluent = "AddValue did not return the receiver"
			}
		case "addvalueat":
			if cb.AddValueAt(op.Path, res.val) != cb {
				res.fluent = "AddValueAt did not return the receiver"
			}
		case "addcontainer":
			r := cb.AddContainer(op.Path)
			res.ret = r
			if n := cb.Child(op.Path); n == nil || dom.Node(r) != n {
				res.fluent = "AddContainer did not return the container it added"
			}
		case "addlist":
			r := cb.AddList(op.Path)
			res.ret = r
			if n := cb.Child(op.Path); n == nil || dom.Node(r) != n {
				res.fluent = "AddList did not return the list it added"
			}
		case "remove":
			if cb.Remove(op.Path) != cb {
				res.fluent = "Remove did not return the receiver"
			}
		case "removeat":
			if cb.RemoveAt(op.Path) != cb {
				res.fluent = "RemoveAt did not return the receiver"
			}
		case "child":
			res.ret = cb.Child(op.Path)
		case "lookup":
			res.ret = cb.Lookup(op.Path)
		case "compact":
			cb.Walk(dom.CompactFn)
		}
	} else {
		lb := t.(dom.ListBuilder)
		var r dom.ListBuilder
		switch op.Op {
		case "listset":
			r = lb.Set(uint(op.Idx), res.val)
		case "listmustset":
			r = lb.MustSet(uint(op.Idx), res.val)
		case "listappend":
			r = lb.Append(res.val)
		default:
			r = lb.Clear()
		}
		if r != lb {
			res.fluent = op.Op + " did not return the receiver"
		}
	}
	if hhReturning[op.Op] {
		st.handles = append(st.handles, res.ret)
	}
	return
}

// hhPathOf: a lookup path from the root to the node object t (first in preorder / key order).
func hhPathOf(root dom.Node, t dom.Node) (string, bool) {
	want := nodeID(t)
	var rec func(n dom.Node, prefix string, seen map[uintptr]bool) (string, bool)
	rec = func(n dom.Node, prefix string, seen map[uintptr]bool) (string, bool) {
		if nodeID(n) == want && prefix != "" {
			return prefix, true
		}
		if n.IsLeaf() {
			return "", false
		}
		if seen[nodeID(n)] {
			return "", false
		}
		seen[nodeID(n)] = true
		if n.IsContainer() {
			ch := n.(dom.Container).Children()
			for _, k := range sortedKeys(ch) {
				p := k
				if prefix != "" {
					p = prefix + "." + k
				}
				if s, ok := rec(ch[k], p, seen); ok {
					return s, true
				}
			}
			return "", false
		}
		for i, it := range n.(dom.List).Items() {
			if s, ok := rec(it, fmt.Sprintf("%s[%d]", prefix, i), seen); ok {
				return s, true
			}
		}
		return "", false
	}
	return rec(root, "", map[uintptr]bool{})
}

// ------------------------------------------------------------------ generation

func hhGenOp(r *rand.Rand, g *DocGen, st *hhState) hhOp {
	var op hhOp
	// the handle to call on: root half of the time, else a kept container / list handle
	var usable []int
	for i, h := range st.handles {
		if h != nil && !h.IsLeaf() {
			usable = append(usable, i)
		}
	}
	var t dom.Node = st.root
	if len(usable) > 0 && r.Intn(2) == 0 {
		k := pick(r, usable)
		op.On = &k
		t = st.handles[k]
	}
	value := func() {
		// now and then attach a node the history already holds a handle of (sharing)
		if len(st.handles) > 0 && r.Intn(12) == 0 {
			k := r.Intn(len(st.handles))
			op.VH = &k
			return
		}
		op.V = g.Node(r, g.MaxDepth-2)
	}
	if t.IsList() {
		size := t.(dom.List).Size()
		switch r.Intn(6) {
		case 0, 1:
			op.Op, op.Idx = "listset", r.Intn(size+3)
			value()
		case 2, 3:
			op.Op = "listappend"
			value()
		case 4:
			op.Op = "listclear"
		default:
			op.Op = "listmustset"
			if size > 0 {
				op.Idx = r.Intn(size)
			}
			value()
		}
		return op
	}
	var paths, lists []string
	wirePaths(nodeWire(t), "", &paths, &lists)
	// aim at the position of a kept handle (or above it) from the root: overwrite / remove / re-create
	if op.On == nil && len(usable) > 0 && r.Intn(3) == 0 {
		if p, ok := hhPathOf(st.root, st.handles[pick(r, usable)]); ok {
			if i := strings.LastIndexByte(p, '.'); i > 0 && r.Intn(3) == 0 {
				p = p[:i]
			}
			switch r.Intn(5) {
			case 0:
				op.Op, op.Path = "removeat", p
			case 1:
				op.Op, op.Path = "addvalueat", p
				value()
			case 2:
				op.Op, op.Path = "addvalueat", p+"."+c03Component(r)
				value()
			case 3:
				if !strings.Contains(p, ".") {
					op.Op, op.Path = "addcontainer", p
				} else {
					op.Op, op.Path = "lookup", p
				}
			default:
				if !strings.Contains(p, ".") {
					op.Op, op.Path = "addlist", p
				} else {
					op.Op, op.Path = "removeat", p
				}
			}
			return op
		}
	}
	// a path: below / at / above an existing position, or next to a position written earlier in the
	// history (same parent path, which may have been removed or replaced since)
	somePath := func() string {
		if op.On == nil && len(st.used) > 0 && r.Intn(3) == 0 {
			p := pick(r, st.used)
			if i := strings.LastIndexByte(p, '.'); i > 0 && r.Intn(4) > 0 {
				return p[:i+1] + c03Component(r)
			}
			return p
		}
		return c03Path(r, paths)
	}
	existingName := func() string {
		if ch := t.(dom.Container).Children(); len(ch) > 0 && r.Intn(4) > 0 {
			return pick(r, sortedKeys(ch))
		}
		return c03Component(r)
	}
	switch k := r.Intn(24); {
	case k < 6:
		op.Op, op.Path = "addvalueat", somePath()
		value()
	case k < 8:
		op.Op, op.Path = "addvalue", c03Component(r)
		value()
	case k < 11:
		op.Op, op.Path = "addcontainer", existingName()
	case k < 13:
		op.Op, op.Path = "addlist", existingName()
	case k == 13:
		op.Op, op.Path = "remove", existingName()
	case k < 16:
		op.Op, op.Path = "removeat", somePath()
	case k < 18:
		op.Op, op.Path = "child", existingName()
	case k < 22:
		op.Op, op.Path = "lookup", somePath()
	default:
		op.Op = "compact"
	}
	return op
}

func heapHistGen(c *Ctx, n int) {
	r := c.Rng
	g := stdGen()
	g.Keys = c03Keys
	g.MaxDepth = 3
	for i := 0; i < n; i++ {
		c.Tick()
		var start W = map[string]any{"m": map[string]any{}}
		if r.Intn(3) > 0 {
			start = g.Doc(r)
		}
		hc := hhCase{Start: start, Build: r.Intn(heapBuildModes)}
		var st *hhState
		if o, _ := guard(func() { st = hhNewState(start, hc.Build) }); o != "ok" {
			continue
		}
		want := 3 + r.Intn(12)
		if c.Thorough() {
			want += r.Intn(16)
		}
		for tries := 0; len(hc.Ops) < want && tries < 8*want; tries++ {
			op := hhGenOp(r, g, st)
			if !hhInDomain(st, op) {
				continue
			}
			if o, _ := guard(func() { hhApply(st, op) }); o != "ok" {
				break
			}
			hc.Ops = append(hc.Ops, op)
			if op.On == nil && op.Op == "addvalueat" {
				st.used = append(st.used, op.Path)
			}
		}
		c.Do("heap-hist", hc)
	}
}

// ------------------------------------------------------------------ evaluation

// hhContents: the content (child identities) of every container / list object known so far.
func hhContents(nodes ...[]dom.Node) map[uintptr]string {
	out := map[uintptr]string{}
	for _, ns := range nodes {
		for _, n := range ns {
			if n == nil || n.IsLeaf() {
				continue
			}
			var b strings.Builder
			if n.IsContainer() {
				ch := n.(dom.Container).Children()
				for _, k := range sortedKeys(ch) {
					fmt.Fprintf(&b, "%q:%d,", k, nodeID(ch[k]))
				}
			} else {
				for _, it := range n.(dom.List).Items() {
					fmt.Fprintf(&b, "%d,", nodeID(it))
				}
			}
			out[nodeID(n)] = b.String()
		}
	}
	return out
}

func heapHistEval(c *Ctx, raw []byte) {
	var p hhCase
	if err := json.Unmarshal(raw, &p); err != nil {
		panic(err)
	}
	if p.Start == nil || wireKind(p.Start) != "cont" || p.Build < 0 || p.Build >= heapBuildModes {
		return
	}
	c.Dist("heap-hist:build=" + heapBuildNames[p.Build])
	var st *hhState
	if o, t := guard(func() { st = hhNewState(p.Start, p.Build) }); o != "ok" {
		c.Direct("no-panic(build start)", false, t)
		return
	}
	root := st.root
	enc := newHeapEnc()
	ar := enc.add(root)
	sh := newSharer(enc)
	var steps []map[string]any
	throughHandle, detachedWrites, changed := 0, 0, 0
	panicked := false
	for i, op := range p.Ops {
		if !hhInDomain(st, op) {
			// a shrunk or hand-written case may leave the domain: stop comparing here
			c.Dist("heap-hist:left-domain")
			p.Ops = p.Ops[:i]
			break
		}
		c.Dist("heap-hist:op=" + op.Op)
		t := st.target(op)
		writing := !(op.Op == "child" || op.Op == "lookup")
		before := hhContents(enc.keep, sh.nodes)
		rootSnap := heapSnapshot([]dom.Node{root})
		absBefore := canon(nodeWire(root))
		// where the handle sits before the call
		viaHandle := op.On != nil
		var livePath string
		live, apart := false, false
		if viaHandle {
			rootC, tC := map[uintptr]bool{}, map[uintptr]bool{}
			graphIDs(root, true, rootC)
			graphIDs(t, true, tC)
			apart = true
			for id := range tC {
				if rootC[id] {
					apart = false
					break
				}
			}
			livePath, live = hhPathOf(root, t)
		}
		// "removing a path" where lookup finds nothing: the removed subtree is empty
		absentBefore := (op.Op == "remove" || op.Op == "removeat") && t.(dom.Container).Lookup(op.Path) == nil
		targetSnap := ""
		if absentBefore {
			targetSnap = heapSnapshot([]dom.Node{t})
		}
		var res hhResult
		o, txt := guard(func() { res = hhApply(st, op) })
		det := map[string]any{"step": i, "op": op}
		if !c.Direct("no-panic", o == "ok", map[string]any{"step": i, "op": op, "panic": txt}) {
			panicked = true
			break
		}
		c.Direct("fluent-returns-receiver", res.fluent == "", map[string]any{"step": i, "op": op, "problem": res.fluent})
		cur := nodeWire(root)
		if canon(cur) != absBefore {
			changed++
		}
		c.Direct("AsMap-consistent", canon(plainWire(root.AsMap())) == canon(cur), det)

		// the property's words, on the implementation alone -----------------------------------
		switch op.Op {
		case "addvalue", "addvalueat":
			// "a value written at a path is what lookup returns there": the node itself
			got := t.(dom.Container).Lookup(op.Path)
			c.Direct("set-get: lookup returns the node that was written", got != nil && nodeID(got) == nodeID(res.val), det)
			if op.VH == nil {
				c.Direct("set-get: lookup returns the value that was written", got != nil && canon(nodeWire(got)) == canon(op.V), det)
			}
			if live {
				got := root.Lookup(livePath + "." + op.Path)
				c.Direct("set-get through a live handle: visible from the root at the handle's path",
					got != nil && nodeID(got) == nodeID(res.val), map[string]any{"step": i, "op": op, "handle at": livePath})
			}
		case "addcontainer", "addlist":
			empty := false
			if op.Op == "addcontainer" {
				empty = res.ret != nil && res.ret.IsContainer() && len(res.ret.(dom.Container).Children()) == 0
			} else {
				empty = res.ret != nil && res.ret.IsList() && res.ret.(dom.List).Size() == 0
			}
			c.Direct("add container / list: an empty one is there afterwards", empty &&
				canon(nodeWire(t.(dom.Container).Lookup(op.Path))) == canon(nodeWire(res.ret)), det)
		case "remove", "removeat":
			c.Direct("remove-get", t.(dom.Container).Lookup(op.Path) == nil, det)
			if absentBefore {
				c.Direct("frame(remove): removing a path at which lookup finds nothing changes nothing",
					heapSnapshot([]dom.Node{t}) == targetSnap, det)
			}
			if live {
				c.Direct("remove through a live handle: gone from the root at the handle's path",
					root.Lookup(livePath+"."+op.Path) == nil, map[string]any{"step": i, "op": op, "handle at": livePath})
			}
		case "listset", "listmustset":
			items := t.(dom.List).Items()
			c.Direct("list-set: the slot holds the node that was written", op.Idx < len(items) && nodeID(items[op.Idx]) == nodeID(res.val), det)
		case "listappend":
			items := t.(dom.List).Items()
			c.Direct("list-append: the last slot holds the node that was written", len(items) > 0 && nodeID(items[len(items)-1]) == nodeID(res.val), det)
		case "listclear":
			c.Direct("list-clear", t.(dom.List).Size() == 0, det)
		}
		if viaHandle && writing {
			throughHandle++
			if apart {
				// "nothing outside the written or removed subtree changes": the handle's node is no
				// longer part of the document
				detachedWrites++
				c.Direct("frame: a write through a detached handle changes nothing reachable from the root",
					heapSnapshot([]dom.Node{root}) == rootSnap, map[string]any{"step": i, "op": op, "before": json.RawMessage(absBefore), "after": cur})
			}
		}
		if !writing {
			c.Direct("frame: reading changes nothing", heapSnapshot([]dom.Node{root}) == rootSnap, det)
		}

		// the observation the model predicts ------------------------------------------------------
		share := sh.tree(root)
		rootAll := map[uintptr]bool{}
		graphIDs(root, false, rootAll)
		hs := make([]any, len(st.handles))
		for k, h := range st.handles {
			if h == nil {
				continue
			}
			if rootAll[nodeID(h)] {
				hs[k] = map[string]any{"id": sh.label(h), "live": true}
			} else {
				tr := sh.tree(h)
				hs[k] = map[string]any{"id": sh.label(h), "live": false, "share": tr}
			}
		}
		var ret any
		if res.ret != nil {
			ret = sh.label(res.ret)
		}
		after := hhContents(enc.keep, sh.nodes)
		written := []string{}
		for id, was := range before {
			if after[id] != was {
				if a, ok := enc.addr[id]; ok {
					written = append(written, fmt.Sprintf("old:%d", a))
				} else {
					written = append(written, fmt.Sprintf("new:%d", sh.fresh[id]))
				}
			}
		}
		sort.Strings(written)
		steps = append(steps, map[string]any{"abs": cur, "share": share, "handles": hs, "ret": ret, "written": written,
			"flat": flattenWire(root)})
	}
	if panicked {
		return
	}
	if throughHandle > 0 && changed >= 2 {
		c.Nontrivial()
	}
	c.Dist(fmt.Sprintf("heap-hist:writes-through-handles=%d", bucket(throughHandle)))
	c.Dist(fmt.Sprintf("heap-hist:writes-through-detached-handles=%d", bucket(detachedWrites)))
	c.Dist(fmt.Sprintf("heap-hist:handles=%d", bucket(len(st.handles))))
	m := c.Model("heapHistory", map[string]any{"heap": enc.cells, "root": ar, "ops": p.Ops})
	mm, _ := m.(map[string]any)
	var msteps []any
	if mm != nil {
		msteps, _ = mm["steps"].([]any)
	}
	part := func(keys ...string) (any, any) {
		a := make([]any, len(steps))
		for i, s := range steps {
			x := map[string]any{}
			for _, k := range keys {
				x[k] = s[k]
			}
			a[i] = x
		}
		if mm == nil || mm["outcome"] != "ok" || len(msteps) != len(steps) {
			return a, m
		}
		b := make([]any, len(msteps))
		for i, s := range msteps {
			x := map[string]any{}
			if sm, ok := s.(map[string]any); ok {
				for _, k := range keys {
					x[k] = sm[k]
				}
			}
			b[i] = x
		}
		return a, b
	}
	ok := true
	a, b := part("abs", "flat")
	ok = c.Corr("heapHistory.abs", a, b) && ok
	a, b = part("share")
	ok = c.Corr("heapHistory.share", a, b) && ok
	a, b = part("handles", "ret")
	ok = c.Corr("heapHistory.handles", a, b) && ok
	a, b = part("written")
	ok = c.Corr("heapHistory.written", a, b) && ok
	if ok {
		c.Dist("heapHistory:model-agrees")
	} else {
		c.Dist("heapHistory:model-differs")
	}
}
