package main

// C15 (brief mext7c): the String() methods of the pipeline types — what the log listener and error messages print —,
// of dom.Coordinates and of diff.Modification, against the model of lean/YtkModel/OpStrings.lean (13 of the pipeline
// methods are ALSO regenerated from the Go source, lean/YtkModel/Generated/Funcs.lean `<T>_String`).
//
// Case kinds (all "str-…"; hooked into C15 from this file's init, c15.go is untouched):
//   str-op        one operation type built like a `clone` case (c15Build: fields populated by kind from a seed, nil
//                 pointers for the fields left out, configured-but-empty values, template text in some fields), bare or
//                 inside an OpSpec / ActionSpec: String() of the original and of its clone under a real ActionContext
//                 against the model; DIRECT: String() of a template-free clone equals String() of the original;
//                 String() mentions every configured text field it documents; String() never panics; 20 calls agree
//   str-meta      ActionMeta / ActionSpec / DefineOp with generated name, order, when (nil, blank, padded)
//   str-vor       ValOrRef built in every way (decoded value / reference, reference + value, struct literal), alone, as
//                 a VALUE under %v (what ForEachOp.String does), in a ValOrRefSlice, in an ExportOp and a ForEachOp
//   str-children  ChildActions with generated names and orders; equal orders are OUTSIDE the comparison (the order
//                 of the names then depends on Go's map iteration: counted, see the evidence distribution)
//   str-mod       every Modification of a real Diff of two generated documents
//   str-coord     the Coordinates a real overlay Search returns

import (
	"encoding/json"
	"fmt"
	"math/rand"
	"reflect"
	"regexp"
	"sort"
	"strconv"
	"strings"
	"unicode/utf8"

	"github.com/rkosegi/yaml-toolkit/diff"
	"github.com/rkosegi/yaml-toolkit/dom"
	"github.com/rkosegi/yaml-toolkit/pipeline"
)

func init() {
	p := registry["C15"]
	if p == nil || evals["C15"] == nil {
		panic("c15_strings.go: C15 is not registered yet (file order)")
	}
	run, eval := p.Run, evals["C15"]
	p.Run = func(c *Ctx) { run(c); c15sRun(c) }
	p.Rule += " | str-*: String() of operations of every type (generated field values, nil pointers, empty slices, template-free and templated), of their clones, of ActionMeta / ValOrRef / ChildActions / Modification / Coordinates; non-trivial when at least one field is configured"
	evals["C15"] = func(c *Ctx, kind string, raw []byte) {
		if strings.HasPrefix(kind, "str-") {
			c15sEval(c, kind, raw)
			return
		}
		eval(c, kind, raw)
	}
}

type c15sMeta struct {
	Name  string  `json:"name"`
	Order int     `json:"order"`
	When  *string `json:"when"`
}

type c15sVor struct {
	Build string `json:"build"` // "" (decoded scalar) | ref | refval | struct
	Ref   string `json:"ref"`
	Val   string `json:"val"`
}

type c15sChildren struct {
	Names  []string `json:"names"`
	Orders []int    `json:"orders"`
}

type c15sPair struct {
	L W `json:"l"`
	R W `json:"r"`
}

type c15sCoord struct {
	Layers []W    `json:"layers"`
	Names  []string `json:"names"`
}

var c15sActionMetaT = reflect.TypeOf(pipeline.ActionMeta{})
var c15sVorSlicePtr = reflect.TypeOf((*pipeline.ValOrRefSlice)(nil))

// c15sCV: the record values of the model WITH the fields String() reads and CloneWith only copies made visible
// (YtkModel/OpStrings.lean, header): ActionMeta, map sizes, regexp sources, the item slice; everything else as c15CV.
// ok = false: the value is outside the model's domain (a nil item in a ValOrRefSlice).
func c15sCV(v reflect.Value, ok *bool) W {
	t := v.Type()
	switch {
	case t == c15sActionMetaT:
		m := v.Interface().(pipeline.ActionMeta)
		l := []any{m.Name, strconv.Itoa(m.Order)}
		if m.When != nil {
			l = append(l, *m.When)
		}
		return map[string]any{"ss": l}
	case t == c15RegexpPtr:
		if v.IsNil() {
			return map[string]any{"sp": nil}
		}
		return map[string]any{"sp": v.Interface().(*regexp.Regexp).String()}
	case t == c15sVorSlicePtr:
		if v.IsNil() {
			return map[string]any{"ss": nil}
		}
		l := []any{}
		for _, it := range *v.Interface().(*pipeline.ValOrRefSlice) {
			if it == nil {
				*ok = false
				continue
			}
			l = append(l, it.Ref, it.Val)
		}
		return map[string]any{"ss": l}
	case t.Kind() == reflect.Map && t.Key().Kind() == reflect.String && !c15HasClone(t):
		keys := []any{}
		ks := []string{}
		for _, k := range v.MapKeys() {
			ks = append(ks, k.String())
		}
		sort.Strings(ks)
		for _, k := range ks {
			keys = append(keys, k)
		}
		return map[string]any{"ss": keys}
	case t.Kind() == reflect.Bool:
		return map[string]any{"d": fmt.Sprint(v.Bool())}
	case c15HasClone(t):
		if t.Kind() == reflect.Ptr {
			if v.IsNil() {
				return map[string]any{"nil": true}
			}
			v, t = v.Elem(), t.Elem()
		}
		fs := []any{}
		switch t.Kind() {
		case reflect.Struct:
			for i := 0; i < t.NumField(); i++ {
				fs = append(fs, []any{t.Field(i).Name, c15sCV(v.Field(i), ok)})
			}
		case reflect.Map:
			keys := []string{}
			for _, k := range v.MapKeys() {
				keys = append(keys, k.String())
			}
			sort.Strings(keys)
			for _, k := range keys {
				fs = append(fs, []any{k, c15sCV(v.MapIndex(reflect.ValueOf(k)), ok)})
			}
		}
		return map[string]any{"rec": t.Name(), "f": fs}
	}
	return c15CV(v)
}

func c15sAscii(s string) bool {
	for i := 0; i < len(s); i++ {
		if s[i] >= 0x80 {
			return false
		}
	}
	return true
}

// c15sLogMessages: every LogOp message reachable in v (the model counts characters, Go bytes: ASCII only)
func c15sLogAscii(v reflect.Value, depth int) bool {
	if depth > 12 || !v.IsValid() {
		return true
	}
	switch v.Kind() {
	case reflect.Ptr, reflect.Interface:
		if v.IsNil() {
			return true
		}
		return c15sLogAscii(v.Elem(), depth+1)
	case reflect.Struct:
		if lo, ok := v.Interface().(pipeline.LogOp); ok {
			return c15sAscii(lo.Message)
		}
		for i := 0; i < v.NumField(); i++ {
			if v.Type().Field(i).IsExported() && !c15sLogAscii(v.Field(i), depth+1) {
				return false
			}
		}
	case reflect.Map:
		for it := v.MapRange(); it.Next(); {
			if !c15sLogAscii(it.Value(), depth+1) {
				return false
			}
		}
	}
	return true
}

// c15sEqualOrders: some ChildActions inside v has two entries of the same Order (the names' order is then Go's map order)
func c15sEqualOrders(v reflect.Value, depth int) bool {
	if depth > 12 || !v.IsValid() {
		return false
	}
	switch v.Kind() {
	case reflect.Ptr, reflect.Interface:
		if v.IsNil() {
			return false
		}
		return c15sEqualOrders(v.Elem(), depth+1)
	case reflect.Struct:
		for i := 0; i < v.NumField(); i++ {
			if v.Type().Field(i).IsExported() && c15sEqualOrders(v.Field(i), depth+1) {
				return true
			}
		}
	case reflect.Map:
		if ca, ok := v.Interface().(pipeline.ChildActions); ok {
			seen := map[int]bool{}
			for _, a := range ca {
				if seen[a.Order] {
					return true
				}
				seen[a.Order] = true
			}
		}
		for it := v.MapRange(); it.Next(); {
			if c15sEqualOrders(it.Value(), depth+1) {
				return true
			}
		}
	}
	return false
}

// the text fields each String() documents by showing them (read off the format strings in the source)
var c15sShown = map[string][]string{
	"Abort": {"Message"}, "Call": {"Name"}, "Define": {"Name"}, "Env": {"Path"}, "Exec": {"Program", "Dir"},
	"Ext": {"Function"}, "Html2Dom": {"From", "To"}, "Import": {"File", "Path"}, "Patch": {"Path"}, "Set": {"Path"},
	"TemplateFile": {"File", "Output"}, "Template": {"Path"},
}

var c15sWhens = []string{"", " ", "\t\n", ".x", "  .x  ", "eq .a 1", " p ", "a b"}

func c15sRun(c *Ctx) {
	r := c.Rng
	names, types := c15OpTypes()
	wraps := []string{"", "opspec", "action"}
	for _, n := range names {
		t := types[n]
		var all, tagged, emptyable []string
		for i := 0; i < t.NumField(); i++ {
			all = append(all, t.Field(i).Name)
			if t.Field(i).Tag.Get("clone") == "template" {
				tagged = append(tagged, t.Field(i).Name)
			}
			if c15CanBeEmpty(t.Field(i).Type) {
				emptyable = append(emptyable, t.Field(i).Name)
			}
		}
		c.Do("str-op", c15Clone{Op: n, X: "V"}) // the zero value: every pointer nil
		for _, w := range wraps {
			for k := 0; k < 3; k++ {
				c.Tick()
				c.Do("str-op", c15Clone{Op: n, Fields: all, Seed: r.Int63n(1 << 30), X: "V", Wrap: w})
			}
			if len(tagged) > 0 {
				c.Do("str-op", c15Clone{Op: n, Fields: all, Seed: r.Int63n(1 << 30), Tpl: tagged, TplKind: r.Intn(len(c15TplTexts)), X: pick(r, []string{"V", "a.b", "7", "x y"}), Wrap: w})
			}
		}
		for _, f := range all {
			c.Do("str-op", c15Clone{Op: n, Fields: []string{f}, Seed: r.Int63n(1 << 30), X: "V"})
		}
		for _, f := range tagged {
			c.Do("str-op", c15Clone{Op: n, Fields: all, Seed: r.Int63n(1 << 30), Tpl: []string{f}, TplKind: r.Intn(len(c15TplTexts)), X: pick(r, []string{"V", "W", "7"}), Wrap: pick(r, wraps)})
		}
		for _, f := range emptyable {
			c.Do("str-op", c15Clone{Op: n, Fields: all, Empty: []string{f}, Seed: r.Int63n(1 << 30), X: "V", Wrap: pick(r, wraps)})
		}
		if len(emptyable) > 1 {
			c.Do("str-op", c15Clone{Op: n, Fields: all, Empty: emptyable, Seed: r.Int63n(1 << 30), X: "V"})
		}
		for i := 0; i < c.N(6); i++ {
			c.Tick()
			var sub []string
			for _, f := range all {
				if r.Intn(2) == 0 {
					sub = append(sub, f)
				}
			}
			c.Do("str-op", c15Clone{Op: n, Fields: sub, Seed: r.Int63n(1 << 30), X: "V", Wrap: pick(r, wraps)})
		}
	}
	for i := 0; i < c.N(60); i++ {
		c.Tick()
		m := c15sMeta{Name: pick(r, []string{"", "n", "step 1", "ünï", "a,b"}), Order: pick(r, []int{0, 0, 1, -1, 7, 100, -42})}
		if r.Intn(3) != 0 {
			w := pick(r, c15sWhens)
			m.When = &w
		}
		c.Do("str-meta", m)
	}
	for i := 0; i < c.N(60); i++ {
		c.Tick()
		c.Do("str-vor", c15sVor{Build: pick(r, []string{"", "ref", "refval", "struct"}), Ref: pick(r, c15Strings), Val: pick(r, c15Strings)})
	}
	for i := 0; i < c.N(40); i++ {
		c.Tick()
		n := r.Intn(5)
		pool := []string{"a", "b", "c1", "z", "k 1", "ü"}
		r.Shuffle(len(pool), func(a, b int) { pool[a], pool[b] = pool[b], pool[a] })
		p := c15sChildren{Names: pool[:n]}
		perm := r.Perm(9)
		for j := 0; j < n; j++ {
			o := perm[j] - 4
			if r.Intn(12) == 0 && j > 0 {
				o = p.Orders[0]
			}
			p.Orders = append(p.Orders, o)
		}
		c.Do("str-children", p)
	}
	g := stdGen()
	for i := 0; i < c.N(25); i++ {
		c.Tick()
		l := g.Doc(r)
		c.Do("str-mod", c15sPair{L: l, R: g.Mutate(r, g.Mutate(r, l))})
	}
	for i := 0; i < c.N(25); i++ {
		c.Tick()
		n := 1 + r.Intn(3)
		p := c15sCoord{}
		base := g.Doc(r)
		for j := 0; j < n; j++ {
			p.Layers = append(p.Layers, g.Mutate(r, base))
			p.Names = append(p.Names, pick(r, []string{"l", "base", "over lay", "x],]y"})+strconv.Itoa(j))
		}
		c.Do("str-coord", p)
	}
}

func c15sEval(c *Ctx, kind string, raw []byte) {
	switch kind {
	case "str-op":
		var p c15Clone
		if err := json.Unmarshal(raw, &p); err != nil {
			panic(err)
		}
		c15sEvalOp(c, p)
	case "str-meta":
		var p c15sMeta
		if err := json.Unmarshal(raw, &p); err != nil {
			panic(err)
		}
		c15sEvalMeta(c, p)
	case "str-vor":
		var p c15sVor
		if err := json.Unmarshal(raw, &p); err != nil {
			panic(err)
		}
		c15sEvalVor(c, p)
	case "str-children":
		var p c15sChildren
		if err := json.Unmarshal(raw, &p); err != nil {
			panic(err)
		}
		c15sEvalChildren(c, p)
	case "str-mod":
		var p c15sPair
		if err := json.Unmarshal(raw, &p); err != nil {
			panic(err)
		}
		c15sEvalMod(c, p)
	case "str-coord":
		var p c15sCoord
		if err := json.Unmarshal(raw, &p); err != nil {
			panic(err)
		}
		c15sEvalCoord(c, p)
	}
}

// c15sString: String() under recover, 20 times (a String() must not depend on anything but the value)
func c15sString(c *Ctx, what string, a fmt.Stringer) (string, bool) {
	var s string
	tag, txt := guard(func() { s = a.String() })
	if !c.Direct("str:String()-never-panics", tag != "panic", map[string]any{"what": what, "panic": txt}) {
		return "", false
	}
	same := true
	for i := 0; i < 20; i++ {
		if a.String() != s {
			same = false
		}
	}
	c.Direct("str:String()-is-a-function-of-the-value", same, map[string]any{"what": what, "first": s})
	return s, true
}

// c15sAgainstModel: the implementation's text against the model's String() of the same value
func c15sAgainstModel(c *Ctx, fn string, a fmt.Stringer, got string) {
	v := reflect.ValueOf(a)
	if !c15sLogAscii(v, 0) {
		c.Dist("str:outside-the-comparison:non-ASCII-log-message(bytes-vs-characters)")
		return
	}
	if c15sEqualOrders(v, 0) {
		c.Dist("str:outside-the-comparison:child-actions-of-equal-order(Go-map-order)")
		return
	}
	ok := true
	cv := c15sCV(v, &ok)
	if !ok || !utf8.ValidString(got) {
		c.Dist("str:outside-the-comparison:nil-item")
		return
	}
	c.Corr(fn, got, c.Model("string", map[string]any{"v": cv}))
}

func c15sEvalOp(c *Ctx, p c15Clone) {
	_, types := c15OpTypes()
	opT, ok := types[p.Op]
	if !ok || p.Wrap == "children" || len(p.Bad) > 0 || p.Pre > 0 {
		return
	}
	if len(p.Fields) > 0 {
		c.Nontrivial()
	}
	tplText := ""
	if len(p.Tpl) > 0 {
		tplText = c15TplText(p.TplKind)
		if strings.ReplaceAll(tplText, "{{ .x }}", p.X) == "" {
			p.X = "V"
		}
		c.Dist("str-op:templated")
	} else {
		c.Dist("str-op:template-free")
	}
	c.Dist("str-op:" + p.Op + ":wrap=" + p.Wrap)
	bare := c15Build(p, opT, tplText)
	orig := c15Wrap(bare, p.Op, p.Wrap)
	before := c15Dump(reflect.ValueOf(orig), 0)
	s, ok := c15sString(c, "original", orig)
	if !ok {
		return
	}
	c.Direct("str:String()-leaves-the-value-alone", c15Dump(reflect.ValueOf(orig), 0) == before, before)
	c15sAgainstModel(c, "str.String", orig, s)
	// String() mentions every configured text field it documents
	if p.Wrap == "" || p.Wrap == "opspec" {
		for _, f := range c15sShown[p.Op] {
			fv := bare.Elem().FieldByName(f)
			if fv.IsValid() && fv.Kind() == reflect.String && c15In(p.Fields, f) {
				c.Direct("str:String()-mentions-the-configured-field", strings.Contains(s, fv.String()),
					map[string]any{"field": f, "value": fv.String(), "string": s})
			}
		}
		if p.Wrap == "opspec" {
			c.Direct("str:OpSpec.String()-names-the-operation-and-holds-its-String()", strings.Contains(s, p.Op+"="+bare.Interface().(fmt.Stringer).String()),
				map[string]any{"string": s})
		}
	}
	// the clone under a real context
	data := dom.Builder().Container()
	data.AddValue("x", dom.LeafNode(p.X))
	data.AddValueAt("other.y", dom.LeafNode(1))
	var clone pipeline.Action
	tag, txt := guard(func() {
		_ = c15WithCtx(data, nil, func(ctx pipeline.ActionContext) error {
			clone = orig.CloneWith(ctx)
			return nil
		})
	})
	if tag == "panic" || clone == nil {
		c.Dist("str-op:clone-panicked:" + txt)
		return
	}
	cs, ok := c15sString(c, "clone", clone)
	if !ok {
		return
	}
	if tplText == "" {
		// the property's sentence: a clone produces the same log output — for a template-free value the same text
		c.Direct("str:String()-of-a-template-free-clone-equals-String()-of-the-original", cs == s, map[string]any{"original": s, "clone": cs})
	}
	c.Direct("str:cloning-leaves-String()-of-the-original-alone", orig.String() == s, map[string]any{"before": s, "after": orig.String()})
	c15sAgainstModel(c, "str.String(clone)", clone, cs)
	// the model's clone, printed by the model
	okd := true
	cv := c15sCV(reflect.ValueOf(orig), &okd)
	if okd && c15sLogAscii(reflect.ValueOf(clone), 0) && c15sLogAscii(reflect.ValueOf(orig), 0) && !c15sEqualOrders(reflect.ValueOf(orig), 0) && utf8.ValidString(cs) {
		c.Corr("str.cloneString", cs, c.Model("cloneString", map[string]any{"v": cv, "x": p.X}))
	}
}

func c15sEvalMeta(c *Ctx, p c15sMeta) {
	c.Nontrivial()
	m := pipeline.ActionMeta{Name: p.Name, Order: p.Order, When: p.When}
	as := pipeline.ActionSpec{ActionMeta: m}
	ms, ok := c15sString(c, "meta", m)
	if !ok {
		return
	}
	when := ""
	if p.When != nil {
		when = strings.TrimSpace(*p.When)
	}
	c.Dist(fmt.Sprintf("str-meta:name=%v,order=%v,when=%v", p.Name != "", p.Order != 0, when != ""))
	// documented by the format: each configured part is shown, an unconfigured one is not
	c.Direct("str:ActionMeta.String()-shows-exactly-the-configured-parts",
		strings.Contains(ms, "name=") == (p.Name != "") && strings.Contains(ms, "order="+strconv.Itoa(p.Order)) == (p.Order != 0) &&
			(when == "" || strings.Contains(ms, "when="+when)), map[string]any{"string": ms})
	s, ok := c15sString(c, "spec", as)
	if !ok {
		return
	}
	c.Direct("str:ActionSpec.String()-holds-the-meta", s == "ActionSpec[meta="+ms+"]", s)
	c15sAgainstModel(c, "str.ActionSpec", as, s)
	d := &pipeline.DefineOp{Name: p.Name, Action: as}
	if ds, ok := c15sString(c, "define", d); ok {
		c15sAgainstModel(c, "str.DefineOp", d, ds)
	}
}

func c15sEvalVor(c *Ctx, p c15sVor) {
	c.Nontrivial()
	v := c15VoRBuild(p.Build, p.Ref, p.Val)
	c.Dist("str-vor:" + p.Build)
	ex := &pipeline.ExportOp{File: v, Format: pipeline.OutputFormatYaml}
	if s, ok := c15sString(c, "export", ex); ok {
		c.Direct("str:ExportOp.String()-shows-the-file-through-its-String()", strings.Contains(s, "file="+v.String()) && !strings.Contains(s, "path="), s)
		c15sAgainstModel(c, "str.ExportOp", ex, s)
	}
	sl := pipeline.ValOrRefSlice{v, c15VoRBuild("struct", p.Val, p.Ref)}
	for _, fe := range []*pipeline.ForEachOp{{Glob: v}, {Query: v}, {Item: &sl}, {Glob: v, Query: v, Item: &sl}, {Item: &pipeline.ValOrRefSlice{}}} {
		if s, ok := c15sString(c, "forEach", fe); ok {
			c15sAgainstModel(c, "str.ForEachOp", fe, s)
		}
	}
	if s, ok := c15sString(c, "vor", v); ok {
		c.Direct("str:ValOrRef.String()-shows-the-non-empty-texts", strings.Contains(s, "Ref="+v.Ref) == (v.Ref != "") || v.Ref == "" || strings.Contains(v.Val, "Ref="),
			map[string]any{"string": s, "ref": v.Ref, "val": v.Val})
		c15sAgainstModel(c, "str.ValOrRef", v, s)
	}
}

func c15sEvalChildren(c *Ctx, p c15sChildren) {
	if len(p.Orders) < len(p.Names) {
		return
	}
	ca := pipeline.ChildActions{}
	seen := map[int]bool{}
	distinct := true
	for i, n := range p.Names {
		as := pipeline.ActionSpec{}
		as.Order = p.Orders[i]
		if _, dup := ca[n]; dup {
			return
		}
		ca[n] = as
		if seen[p.Orders[i]] {
			distinct = false
		}
		seen[p.Orders[i]] = true
	}
	c.Nontrivial()
	c.Dist(fmt.Sprintf("str-children:n=%d,distinct-orders=%v", len(ca), distinct))
	if !distinct {
		// equal Order values: the order of the names is Go's map iteration order (sortActionNames' comparison says
		// "equal") — outside C12's stated domain (distinct orders); observed, not a violation of a listed property
		first := ca.String()
		for i := 0; i < 40; i++ {
			if ca.String() != first {
				c.Dist("str-children:OBSERVED:String()-of-equal-orders-differs-between-calls")
				break
			}
		}
		return
	}
	if s, ok := c15sString(c, "children", ca); ok {
		c15sAgainstModel(c, "str.ChildActions", ca, s)
	}
}

func c15sEvalMod(c *Ctx, p c15sPair) {
	l, r := wireContainer(p.L), wireContainer(p.R)
	if l == nil || r == nil {
		return
	}
	mods := *diff.Diff(l, r)
	c.Dist(fmt.Sprintf("str-mod:mods=%d", min(len(mods), 5)))
	for i := range mods {
		m := &mods[i]
		c.Nontrivial()
		s, ok := c15sString(c, "modification", m)
		if !ok {
			return
		}
		c.Direct("str:Modification.String()-shows-type-and-path", strings.Contains(s, "Type="+string(m.Type)) && strings.Contains(s, "Path="+m.Path), s)
		if utf8.ValidString(s) {
			c.Corr("str.Modification", s, c.Model("strMod", map[string]any{"type": string(m.Type), "path": m.Path, "value": fmt.Sprint(m.Value)}))
		}
	}
}

func c15sEvalCoord(c *Ctx, p c15sCoord) {
	if len(p.Layers) != len(p.Names) || len(p.Layers) == 0 {
		return
	}
	ov := dom.NewOverlayDocument()
	var probe any
	for i, w := range p.Layers {
		cb := wireContainer(w)
		if cb == nil {
			return
		}
		ov.Add(p.Names[i], cb)
		if fl := cb.Flatten(); probe == nil && len(fl) > 0 {
			probe = fl[sortedKeys(fl)[0]].Value()
		}
	}
	for _, val := range []any{probe, "no such value anywhere \x00"} {
		cs := ov.Search(dom.SearchEqual(val))
		c.Nontrivial()
		c.Dist(fmt.Sprintf("str-coord:hits=%d", min(len(cs), 4)))
		s, ok := c15sString(c, "coordinates", cs)
		if !ok {
			return
		}
		pairs := [][]string{}
		for _, co := range cs {
			pairs = append(pairs, []string{co.Layer(), co.Path()})
		}
		sort.Slice(pairs, func(i, j int) bool { return false }) // (order as returned)
		c.Direct("str:Coordinates.String()-is-a-bracketed-list-ending-in-a-newline", strings.HasPrefix(s, "[") && strings.HasSuffix(s, "]\n"), s)
		if utf8.ValidString(s) {
			c.Corr("str.Coordinates", s, c.Model("strCoord", map[string]any{"cs": pairs}))
		}
	}
}

var _ = rand.Int
