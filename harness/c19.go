package main

import (
	"encoding/json"
	"fmt"
	"math/rand"
	"sort"
	"strings"

	"github.com/rkosegi/yaml-toolkit/analytics"
	"github.com/rkosegi/yaml-toolkit/dom"
)

// C19 — analytics reports are exact, sorted and independent of iteration order.

type c19Put struct {
	Path string `json:"path"`
	V    W      `json:"v"` // scalar in wire form
}

type c19Layer struct {
	Name     string   `json:"name"`
	Puts     []c19Put `json:"puts"`
	Populate bool     `json:"populate,omitempty"` // load through Populate(map) instead of Put
}

type c19Doc struct {
	Layers []c19Layer `json:"layers"`
}

type c19Filter struct {
	Kind string `json:"kind"` // all | none | prefix | not | in
	Arg  string `json:"arg,omitempty"`
}

type c19Case struct {
	Docs   []c19Doc  `json:"docs"` // docs[0] = source, the rest are reference documents
	Filter c19Filter `json:"filter"`
	Keys   []string  `json:"keys"` // keys requested from impact analysis
}

func init() {
	register(&Prop{ID: "C19", Run: c19Run,
		Rule: "overlay source documents of 1-3 layers (built with Put, some layers with Populate) and 0-2 reference overlays over a prefix-free pool of 9 leaf paths (incl. nested containers and list items); values are typed scalars or templates mentioning pool keys that come later in a fixed order (acyclic), unknown keys, defaults (also nested), repeated mentions, the ${k:def} whole-value form, unterminated tails and (rarely) nested keys; key filters all/none/prefix/not/in; impact keys with repeats and unknown keys. Non-trivial: at least one value of the source or a reference mentions a merged key. Distinct = distinct canonical case JSON.",
		Assumptions: []string{
			"the overlay itself (Put/Populate/Merged/Flatten/Layers) is not modelled here: the model functions take Merged().Flatten() and each layer's Flatten() as inputs, computed by the harness from the real overlay document (C06/C02 cover the overlay and flattening)",
			"values mention leaf keys of the merged document and unknown keys only: a mention of a container/list position makes the PlaceholderResolver panic (v.(dom.Leaf)) and is outside the property's quantifier (DESIGN section 2); mentions are acyclic (a true cycle panics by contract)",
			"the public DependencyResolverBuilder offers no key filter, so the dependency report is checked with the built-in matchAll; key filters are exercised on the placeholder report (impact analysis stores its filter but never consults it)",
			"coordinate lists are compared as multisets (sorted by layer, path)"}})
	evals["C19"] = c19Eval
	shrinkers["C19"] = shrinkJSON
}

// ---------------------------------------------------------------- generator

var c19Pool = []string{"a", "b", "c", "d.e", "d.f", "g.h.i", "l[0]", "l[1]", "k1"}
var c19Unknown = []string{"nope", "u1", "zz.q"}

func c19Value(r *rand.Rand, idx int) W {
	later := c19Pool[idx+1:]
	if len(later) == 0 || r.Intn(20) < 7 {
		switch r.Intn(8) {
		case 0:
			return scalarWire(r.Intn(5))
		case 1:
			return scalarWire(r.Intn(2) == 0)
		case 2:
			return scalarWire(nil)
		case 3:
			return scalarWire(pick(r, c19Pool)) // a key name as plain text (target of nested keys)
		default:
			return scalarWire(pick(r, []string{"x", "v1", "a b", "", "1"}))
		}
	}
	text := func() string { return pick(r, []string{"x", "-", "v1", " ", "_"}) }
	ph := func() string {
		switch r.Intn(12) {
		case 0, 1, 2, 3:
			return "${" + pick(r, later) + "}"
		case 4:
			return "${" + pick(r, later) + ":" + text() + "}"
		case 5:
			return "${" + pick(r, later) + ":${" + pick(r, later) + "}}"
		case 6, 7:
			return "${" + pick(r, c19Unknown) + "}"
		case 8:
			return "${" + pick(r, c19Unknown) + ":" + text() + "}"
		case 9:
			return "${" + pick(r, c19Unknown) + ":${" + pick(r, later) + "}}"
		case 10:
			k := pick(r, later)
			return "${" + k + "}" + text() + "${" + k + "}" // repeated mention
		default:
			return "${${" + pick(r, later) + "}}" // nested key
		}
	}
	var sb strings.Builder
	switch r.Intn(10) {
	case 0: // whole-value default form: matched by the prefix/suffix disjunct only
		return scalarWire("${" + pick(r, later) + ":" + text() + "}")
	case 1: // default form followed by text: the resolver resolves it, the matcher does not see it
		return scalarWire("${" + pick(r, later) + ":" + text() + "}" + text())
	case 2: // unterminated
		return scalarWire(text() + "${" + pick(r, later))
	}
	n := 1 + r.Intn(3)
	for i := 0; i < n; i++ {
		if r.Intn(3) == 0 {
			sb.WriteString(text())
		} else {
			sb.WriteString(ph())
		}
	}
	return scalarWire(sb.String())
}

func c19GenDoc(r *rand.Rand, names []string, maxLayers int) c19Doc {
	n := 1 + r.Intn(maxLayers)
	var d c19Doc
	for i := 0; i < n; i++ {
		l := c19Layer{Name: names[i], Puts: []c19Put{}}
		indexFree := true
		for idx, k := range c19Pool {
			if r.Intn(2) == 0 {
				l.Puts = append(l.Puts, c19Put{Path: k, V: c19Value(r, idx)})
				if strings.Contains(k, "[") {
					indexFree = false
				}
			}
		}
		if indexFree && r.Intn(3) == 0 {
			l.Populate = true
		}
		d.Layers = append(d.Layers, l)
	}
	return d
}

func c19Run(c *Ctx) {
	r := c.Rng
	for i := 0; i < c.N(2000); i++ {
		c.Tick()
		cs := c19Case{Docs: []c19Doc{c19GenDoc(r, []string{"base", "env", "local"}, 3)}}
		for j := r.Intn(3); j > 0; j-- {
			names := []string{"r1", "r2"}
			if r.Intn(4) == 0 {
				names = []string{"base", "r2"} // a reference layer named like a source layer
			}
			cs.Docs = append(cs.Docs, c19GenDoc(r, names, 2))
		}
		switch r.Intn(8) {
		case 0:
			cs.Filter = c19Filter{Kind: "prefix", Arg: pick(r, []string{"d", "d.", "l", "k"})}
		case 1:
			cs.Filter = c19Filter{Kind: "not", Arg: pick(r, c19Pool)}
		case 2:
			cs.Filter = c19Filter{Kind: "in", Arg: pick(r, c19Pool) + "," + pick(r, c19Pool) + "," + pick(r, c19Pool)}
		case 3:
			cs.Filter = c19Filter{Kind: "none"}
		default:
			cs.Filter = c19Filter{Kind: "all"}
		}
		cs.Keys = []string{}
		for j := r.Intn(7); j > 0; j-- {
			if r.Intn(5) == 0 {
				cs.Keys = append(cs.Keys, pick(r, c19Unknown))
			} else {
				cs.Keys = append(cs.Keys, pick(r, c19Pool))
			}
		}
		c.Do("reports", cs)
	}
}

// ---------------------------------------------------------------- building and observing

func c19FilterFn(f c19Filter) func(string) bool {
	switch f.Kind {
	case "none":
		return func(string) bool { return false }
	case "prefix":
		return func(k string) bool { return strings.HasPrefix(k, f.Arg) }
	case "not":
		return func(k string) bool { return k != f.Arg }
	case "in":
		set := strings.Split(f.Arg, ",")
		return func(k string) bool {
			for _, s := range set {
				if s == k {
					return true
				}
			}
			return false
		}
	}
	return func(string) bool { return true }
}

func c19ScalarOf(w W) any {
	m, _ := w.(map[string]any)
	t, _ := m["t"].(string)
	s, _ := m["v"].(string)
	return scalarFromWire(t, s)
}

func c19Build(d c19Doc) dom.OverlayDocument {
	od := dom.NewOverlayDocument()
	for _, l := range d.Layers {
		if l.Populate {
			root := map[string]interface{}{}
			for _, p := range l.Puts {
				cur := root
				parts := strings.Split(p.Path, ".")
				for _, seg := range parts[:len(parts)-1] {
					nx, ok := cur[seg].(map[string]interface{})
					if !ok {
						nx = map[string]interface{}{}
						cur[seg] = nx
					}
					cur = nx
				}
				cur[parts[len(parts)-1]] = c19ScalarOf(p.V)
			}
			od.Populate(l.Name, "", &root)
			continue
		}
		for _, p := range l.Puts {
			od.Put(l.Name, p.Path, dom.LeafNode(c19ScalarOf(p.V)))
		}
	}
	return od
}

func c19Coords(cs dom.Coordinates) []any {
	out := make([][2]string, 0, len(cs))
	for _, c := range cs {
		out = append(out, [2]string{c.Layer(), c.Path()})
	}
	sort.Slice(out, func(i, j int) bool {
		if out[i][0] != out[j][0] {
			return out[i][0] < out[j][0]
		}
		return out[i][1] < out[j][1]
	})
	res := make([]any, len(out))
	for i, c := range out {
		res[i] = []any{c[0], c[1]}
	}
	return res
}

func c19Strs(s []string) []any {
	out := make([]any, len(s))
	for i, x := range s {
		out[i] = x
	}
	return out
}

// c19Observe runs the three report builders once.
func c19Observe(docs []dom.OverlayDocument, f func(string) bool, keys []string) map[string]any {
	dep := analytics.DefaultDependencyResolver().Resolve(docs[0], docs[1:]...)
	dm := map[string]any{}
	for k, cs := range dep.Map {
		dm[k] = c19Coords(cs)
	}
	ph := analytics.NewPlaceholderResolverBuilder().WithKeyFilter(f).Build().Resolve(docs[0])
	det := map[string]any{}
	for _, k := range ph.FailedKeys {
		var v W
		if l, ok := ph.ActualValues[k].(dom.Leaf); ok {
			v = scalarWire(l.Value())
		}
		det[k] = map[string]any{"v": v, "coords": c19Coords(ph.Coordinates[k])}
	}
	extra := []string{}
	for k := range ph.ActualValues {
		if _, ok := det[k]; !ok {
			extra = append(extra, k)
		}
	}
	for k := range ph.Coordinates {
		if _, ok := det[k]; !ok {
			extra = append(extra, k)
		}
	}
	sort.Strings(extra)
	phObs := map[string]any{"failed": c19Strs(ph.FailedKeys), "details": det}
	if len(extra) > 0 {
		phObs["keys-in-maps-but-not-failed"] = extra
	}
	imp := analytics.NewImpactAnalysisBuilder().WithKeyFilter(f).Build().ResolveOverlayDocument(docs[0], keys)
	im := map[string]any{}
	for k, cs := range imp {
		im[k] = c19Coords(cs)
	}
	return map[string]any{
		"dep":    map[string]any{"all": c19Strs(dep.AllKeys), "orphans": c19Strs(dep.OrphanKeys), "map": dm},
		"ph":     phObs,
		"impact": im,
	}
}

// the matcher as the property describes it ("mentions k as a placeholder"), re-implemented
func c19Mentions(k string, v any) bool {
	s, ok := v.(string)
	if !ok {
		return false
	}
	return strings.Contains(s, "${"+k+"}") || (strings.HasPrefix(s, "${"+k+":") && strings.HasSuffix(s, "}"))
}

func c19HasPlaceholder(s string) bool {
	i := strings.Index(s, "${")
	return i >= 0 && strings.Contains(s[i:], "}")
}

type c19LayerFlat struct {
	name string
	flat map[string]dom.Leaf
}

func c19LayerFlats(od dom.OverlayDocument) []c19LayerFlat {
	ls := od.Layers()
	var out []c19LayerFlat
	for _, n := range od.LayerNames() {
		out = append(out, c19LayerFlat{n, ls[n].Flatten()})
	}
	return out
}

func c19MentionCoords(k string, docs [][]c19LayerFlat) []any {
	var cs [][2]string
	for _, d := range docs {
		for _, l := range d {
			for p, leaf := range l.flat {
				if c19Mentions(k, leaf.Value()) {
					cs = append(cs, [2]string{l.name, p})
				}
			}
		}
	}
	sort.Slice(cs, func(i, j int) bool {
		if cs[i][0] != cs[j][0] {
			return cs[i][0] < cs[j][0]
		}
		return cs[i][1] < cs[j][1]
	})
	out := make([]any, len(cs))
	for i, c := range cs {
		out[i] = []any{c[0], c[1]}
	}
	return out
}

func c19FlatWire(f map[string]dom.Leaf) []any {
	out := make([]any, 0, len(f))
	for _, k := range sortedKeys(f) {
		out = append(out, []any{k, scalarWire(f[k].Value())})
	}
	return out
}

// ---------------------------------------------------------------- evaluation

func c19Eval(c *Ctx, kind string, raw []byte) {
	if kind != "reports" {
		return
	}
	var cs c19Case
	if err := json.Unmarshal(raw, &cs); err != nil {
		panic(err)
	}
	if len(cs.Docs) == 0 || len(cs.Docs[0].Layers) == 0 {
		return
	}
	if cs.Keys == nil {
		cs.Keys = []string{}
	}
	f := c19FilterFn(cs.Filter)
	var docs []dom.OverlayDocument
	var flats [][]c19LayerFlat
	var merged map[string]dom.Leaf
	out, txt := guard(func() {
		for _, d := range cs.Docs {
			od := c19Build(d)
			docs = append(docs, od)
			flats = append(flats, c19LayerFlats(od))
		}
		merged = docs[0].Merged().Flatten()
	})
	if !c.Direct("no-panic(building the overlay)", out == "ok", txt) {
		return
	}
	// domain guards (a shrunk or hand-written case may leave the domain): the reference
	// resolver must not find a cycle, and no value may mention a non-leaf position
	tbl := map[string]string{}
	for k, l := range merged {
		tbl[k] = fmt.Sprint(l.Value())
	}
	def := [3]string{"${", "}", ":"}
	resolved := map[string]c11Out{}
	for _, k := range sortedKeys(merged) {
		ref := c11RefResolve(def, tbl, tbl[k], c11RefBudget)
		if ref.R != "ok" {
			c.Dist("out-of-domain:reference-cycle(skipped)")
			return
		}
		resolved[k] = ref
	}
	var obs map[string]any
	out, txt = guard(func() { obs = c19Observe(docs, f, cs.Keys) })
	if out != "ok" && strings.Contains(txt, "is not dom.Leaf") {
		c.Dist("out-of-domain:mention-of-container-position(skipped)")
		return
	}
	if !c.Direct("no-panic", out == "ok", txt) {
		return
	}
	c.Dist(fmt.Sprintf("layers:%d refs:%d", len(cs.Docs[0].Layers), len(cs.Docs)-1))
	c.Dist("filter:" + cs.Filter.Kind)

	// --- direct predicates, clause by clause from the quantifier text
	dep := obs["dep"].(map[string]any)
	all := dep["all"].([]any)
	orphans := dep["orphans"].([]any)
	dmap := dep["map"].(map[string]any)
	mkeys := sortedKeys(merged)
	// AllKeys == sorted(Flatten(Merged) keys passing the filter)   [dependency resolver: matchAll]
	c.Direct("AllKeys == sorted(Flatten(Merged) keys)", canon(all) == canon(c19Strs(mkeys)), map[string]any{"AllKeys": all, "expected": mkeys})
	// OrphanKeys == sorted(AllKeys \ mentioned);  Map[k] == multiset of (layer, path) whose value mentions k
	expOrph := []string{}
	expMap := map[string]any{}
	mentionedAny := false
	for _, k := range mkeys {
		cs := c19MentionCoords(k, flats)
		if len(cs) == 0 {
			expOrph = append(expOrph, k)
		} else {
			expMap[k] = cs
			mentionedAny = true
		}
	}
	if mentionedAny {
		c.Nontrivial()
	}
	c.Direct("OrphanKeys == sorted(AllKeys \\ mentioned)", canon(orphans) == canon(c19Strs(expOrph)), map[string]any{"OrphanKeys": orphans, "expected": expOrph})
	c.Direct("Map[k] == multiset of mentioning (layer,path), source then references", canon(dmap) == canon(expMap), map[string]any{"Map": dmap, "expected": expMap})
	// AllKeys == OrphanKeys ⊎ keys(Map)
	union := append([]string{}, sortedKeys(dmap)...)
	disjoint := true
	for _, o := range orphans {
		if _, dup := dmap[o.(string)]; dup {
			disjoint = false
		}
		union = append(union, o.(string))
	}
	sort.Strings(union)
	c.Direct("AllKeys == OrphanKeys ⊎ keys(Map)", disjoint && canon(c19Strs(union)) == canon(all), map[string]any{"AllKeys": all, "OrphanKeys": orphans, "keys(Map)": sortedKeys(dmap)})
	// FailedKeys == sorted{k | filter k, value(k) has a placeholder and Resolve(value) == value}
	expFailed := []string{}
	for _, k := range mkeys {
		if f(k) && c19HasPlaceholder(tbl[k]) && resolved[k].S == tbl[k] {
			expFailed = append(expFailed, k)
		}
	}
	ph := obs["ph"].(map[string]any)
	c.Direct("FailedKeys == sorted{k | value(k) has a placeholder and Resolve(value) == value}", canon(ph["failed"]) == canon(c19Strs(expFailed)), map[string]any{"FailedKeys": ph["failed"], "expected": expFailed})
	if len(expFailed) > 0 {
		c.Dist("ph:some-failed")
	}
	_, stray := ph["keys-in-maps-but-not-failed"]
	c.Direct("ActualValues/Coordinates are keyed by the failed keys", !stray, ph)
	// ImpactAnalysis result == {k -> mentions(k)} for requested k with mentions (source document)
	expImp := map[string]any{}
	for _, k := range cs.Keys {
		if cs := c19MentionCoords(k, flats[:1]); len(cs) > 0 {
			expImp[k] = cs
		}
	}
	c.Direct("ImpactAnalysis == {k -> mentions(k)} for requested k with mentions", canon(obs["impact"]) == canon(expImp), map[string]any{"impact": obs["impact"], "expected": expImp})
	if len(expImp) > 0 {
		c.Dist("impact:non-empty")
	}
	// 20 repeated runs give equal reports
	first := canon(obs)
	same := true
	var other string
	out, txt = guard(func() {
		for i := 0; i < 20 && same; i++ {
			if o := canon(c19Observe(docs, f, cs.Keys)); o != first {
				same, other = false, o
			}
		}
	})
	c.Direct("no-panic(repeated runs)", out == "ok", txt)
	c.Direct("20 repeated runs give equal reports", same, map[string]any{"first": json.RawMessage(first), "other": json.RawMessage(other)})

	// --- correspondence with the model
	var docsW []any
	for _, d := range flats {
		var ls []any
		for _, l := range d {
			ls = append(ls, map[string]any{"name": l.name, "flat": c19FlatWire(l.flat)})
		}
		if ls == nil {
			ls = []any{}
		}
		docsW = append(docsW, ls)
	}
	m := c.Model("reports", map[string]any{"merged": c19FlatWire(merged), "docs": docsW, "filter": cs.Filter, "keys": cs.Keys})
	c.Corr("reports", obs, m)
}
