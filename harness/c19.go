package main

import (
	"encoding/json"
	"fmt"
	"math/rand"
	"sort"
	"strings"

	"github.com/rkosegi/yaml-toolkit/analytics"
	"github.com/rkosegi/yaml-toolkit/dom"
)

// C19 — analytics reports are exact, sorted and independent of iteration order.

type c19Put struct {
	Path string `json:"path"`
	V    W      `json:"v"` // scalar in wire form
}

type c19Layer struct {
	Name     string   `json:"name"`
	Puts     []c19Put `json:"puts"`
	Populate bool     `json:"populate,omitempty"` // load through Populate(map) instead of Put
}

type c19Doc struct {
	Layers []c19Layer `json:"layers"`
}

type c19Filter struct {
	Kind string `json:"kind"` // all | none | prefix | not | in
	Arg  string `json:"arg,omitempty"`
}

type c19Case struct {
	Docs   []c19Doc  `json:"docs"` // docs[0] = source, the rest are reference documents
	Filter c19Filter `json:"filter"`
	Keys   []string  `json:"keys"` // keys requested from impact analysis
	// DefaultFilter (filter kind "all" only): WithKeyFilter is NOT called on the builders of the
	// objects under test; they rely on the documented default (all keys).
	DefaultFilter bool `json:"defaultFilter,omitempty"`
	// Siblings: unrelated, differently configured analytics objects of the same process (history).
	Siblings []c19Sibling `json:"siblings,omitempty"`
	// NoModel: the case is judged by the direct predicates only (placeholder-shaped keys, c19PhKeyGen)
	NoModel bool `json:"noModel,omitempty"`
}

// c19Sibling is one family of differently configured objects, each from its own builder call: a
// placeholder resolver with key filter Filter and placeholder matcher Matcher, an impact analysis
// with key filter Filter and a dependency resolver with placeholder matcher Dep.
// When "before": built (and, with Use, run on the source document) before the objects under test
// are built; "between": after those were built and before they are run.
type c19Sibling struct {
	Filter  c19Filter `json:"filter"`
	Matcher string    `json:"matcher,omitempty"` // "" (not set) | never | always | dollar
	Dep     string    `json:"dep,omitempty"`     // "" (not set) | never | substring
	When    string    `json:"when"`              // before | between
	Use     bool      `json:"use,omitempty"`
}

func init() {
	register(&Prop{ID: "C19", Run: c19Run,
		Rule: "overlay source documents of 1-3 layers (built with Put, some layers with Populate) and 0-2 reference overlays over a prefix-free pool of 9 leaf paths (incl. nested containers and list items); values are typed scalars or templates mentioning pool keys that come later in a fixed order (acyclic), unknown keys, defaults (also nested), repeated mentions, the ${k:def} whole-value form, unterminated tails and (rarely) nested keys; key filters all/none/prefix/not/in (half of the all-cases leave the filter to the builders' default instead of setting it); impact keys with repeats and unknown keys; HISTORY: half of the cases have 1-2 sibling families of differently configured objects from their own builder calls (placeholder resolver with another key filter and, 2 in 5, another placeholder matcher never/always/contains-$; impact analysis with that filter; dependency resolver with, 3 in 10, another matcher never/substring), built and (3 in 4) run on the source document before the objects under test are built, or between their construction and their run; the objects under test are run again after everything else (even-numbered repeated runs), and sibling placeholder resolvers with the default matcher are held to the FailedKeys clause for their own filter. Kind history (c19_hist.go): ONE set of long-lived overlay documents and ONE family of long-lived analytics objects go through analyse - edit - analyse ... (1-4 rounds of 1-3 edits): every analysis (the three reports and OverlayDocument.Search per pool key) is held to the clauses on the content the documents have at that moment, to the reports of fresh objects (dependency resolver from the builder instead of DefaultDependencyResolver) on freshly built documents of the same content, and to the model; before every edit the documents are read through Search / Merged / Flatten / LookupAny; each edit changes one pool leaf (7 in 10 at depth >= 2 or inside a list) along a named route - OverlayDocument.Put / Populate / Add (the added container is kept and later edited: held), the nearest composite handed out by Lookup or to a Walk visitor (AddValue, list Set / MustSet / Append / Clear, Remove), the layer root (AddValueAt / RemoveAt) - in a source or a reference document; 1 in 6 histories pass the source document object also as first reference. VALUE RANGE (c19_wide.go; kind reports): half of the cases take their pool (up to 12 prefix-free leaf paths, in a shuffled order - values mention keys later in the order of their case) from families of confusable spellings: letter-case twins of a leaf name or of a path segment (maxConn / maxconn, d.e / D.e, l[0] / L[0]), characters whose case folds onto ASCII letters (U+017F, U+212A), leading / trailing / inner white space (space, tab, NBSP, line break), Unicode composition twins, supplementary-plane characters, U+FFFD, characters that look like syntax, digit strings around 2^63 / 2^64, boolean / null spellings, names that are prefixes of each other; the family members that are not in the pool serve as unknown keys (mentioned, requested from impact analysis); filters take their arguments from the case's pool (prefix filter: a prefix of a pool key cut at a character boundary, 1 in 4 upper-cased); the text between placeholders and the plain values include tab, NBSP, supplementary-plane characters, U+FFFD, '$', '{', '}', ':', a backslash and long digit strings; one case in twelve (c19LongGen) holds lists of 11-14 items, items of a list of containers at indices below and above ten, and leaf names ending in one- and two-digit numbers (k2, k9, k10, k11) - keys equal up to a run of digits of different length, on which the order of the key strings (that is what sorted means) differs from numeric / document / shorter-first orders; one case in eight (c19PhKeyGen, direct predicates only) has keys that LOOK like values - ${x}, ${a:b}, pre-${x}, the very text another key holds as its value, a key equal to its own value - next to 1-2 plain keys that are mostly absent, so that placeholder-bearing values stay unresolved: a report about keys must not confuse key names with value texts, whatever order the map is visited in; a final block of cases (classic pool) holds values whose first opening ${ is never closed and is followed by a complete placeholder, mostly of an unknown key (a forgotten closing brace: ${a:${b}, ${a ${b}, x ${host:${port}/y, ${${${b}}); one wide case in three names its source layers from families of confusable layer names (case / white-space twins, unclean paths, the empty name). Keys are the same exactly when they are the same string. Non-trivial: at least one value of the source or a reference mentions a merged key (history: two analyses with an edit between). Distinct = distinct canonical case JSON.",
		Assumptions: []string{
			"the overlay itself (Put/Populate/Merged/Flatten/Layers) is not modelled here: the model functions take Merged().Flatten() and each layer's Flatten() as inputs, computed by the harness from the real overlay document (C06/C02 cover the overlay and flattening)",
			"values mention leaf keys of the merged document and unknown keys only: a mention of a container/list position makes the PlaceholderResolver panic (v.(dom.Leaf)) and is outside the property's quantifier (DESIGN section 2); mentions are acyclic (a true cycle panics by contract)",
			"the public DependencyResolverBuilder offers no key filter, so the dependency report is checked with the built-in matchAll; key filters are exercised on the placeholder report (impact analysis stores its filter but never consults it)",
			"coordinate lists are compared as multisets (sorted by layer, path)",
			"a key (path segment) contains none of the characters the path syntax is made of: '.', '[', ']' - nor ',' (separator of this harness's own `in` filter argument); the placeholder syntax (\"${\", '}', ':') occurs in keys only in the placeholder-shaped-key cases, whose keys nobody mentions and which are judged by the direct predicates alone; every other character is in the domain",
			"independence from process history is probed by at most 2 sibling families per case; every case first builds one family of objects with every option set explicitly to the documented default, so its outcome depends on its own history only and the recorded case replays in a fresh process; sibling reports are checked only for the default placeholder matcher"}})
	evals["C19"] = c19Eval
	shrinkers["C19"] = shrinkJSON
}

// ---------------------------------------------------------------- generator

var c19Pool = []string{"a", "b", "c", "d.e", "d.f", "g.h.i", "l[0]", "l[1]", "k1"}
var c19Unknown = []string{"nope", "u1", "zz.q"}

func c19Value(r *rand.Rand, idx int) W { return c19ClassicGen().value(r, idx) }

func (g *c19Gen) value(r *rand.Rand, idx int) W {
	if g.phKeys {
		return g.phValue(r, idx)
	}
	c19Pool, c19Unknown := g.pool, g.unknown
	later := c19Pool[idx+1:]
	if len(later) == 0 || r.Intn(20) < 7 {
		switch r.Intn(8) {
		case 0:
			return scalarWire(r.Intn(5))
		case 1:
			return scalarWire(r.Intn(2) == 0)
		case 2:
			return scalarWire(nil)
		case 3:
			return scalarWire(pick(r, c19Pool)) // a key name as plain text (target of nested keys)
		default:
			return scalarWire(pick(r, g.plain))
		}
	}
	text := func() string { return pick(r, g.texts) }
	ph := func() string {
		switch r.Intn(12) {
		case 0, 1, 2, 3:
			return "${" + pick(r, later) + "}"
		case 4:
			return "${" + pick(r, later) + ":" + text() + "}"
		case 5:
			return "${" + pick(r, later) + ":${" + pick(r, later) + "}}"
		case 6, 7:
			return "${" + pick(r, c19Unknown) + "}"
		case 8:
			return "${" + pick(r, c19Unknown) + ":" + text() + "}"
		case 9:
			return "${" + pick(r, c19Unknown) + ":${" + pick(r, later) + "}}"
		case 10:
			k := pick(r, later)
			return "${" + k + "}" + text() + "${" + k + "}" // repeated mention
		default:
			return "${${" + pick(r, later) + "}}" // nested key
		}
	}
	var sb strings.Builder
	switch r.Intn(10) {
	case 0: // whole-value default form: matched by the prefix/suffix disjunct only
		return scalarWire("${" + pick(r, later) + ":" + text() + "}")
	case 1: // default form followed by text: the resolver resolves it, the matcher does not see it
		return scalarWire("${" + pick(r, later) + ":" + text() + "}" + text())
	case 2: // unterminated
		return scalarWire(text() + "${" + pick(r, later))
	}
	n := 1 + r.Intn(3)
	for i := 0; i < n; i++ {
		if r.Intn(3) == 0 {
			sb.WriteString(text())
		} else {
			sb.WriteString(ph())
		}
	}
	return scalarWire(sb.String())
}

func c19GenDoc(r *rand.Rand, names []string, maxLayers int) c19Doc {
	return c19ClassicGen().doc(r, names, maxLayers)
}

func (g *c19Gen) doc(r *rand.Rand, names []string, maxLayers int) c19Doc {
	c19Pool := g.pool
	n := 1 + r.Intn(min(maxLayers, len(names)))
	var d c19Doc
	for i := 0; i < n; i++ {
		l := c19Layer{Name: names[i], Puts: []c19Put{}}
		indexFree := true
		for idx, k := range c19Pool {
			if r.Intn(2) == 0 {
				l.Puts = append(l.Puts, c19Put{Path: k, V: g.value(r, idx)})
				if strings.Contains(k, "[") {
					indexFree = false
				}
			}
		}
		if indexFree && r.Intn(3) == 0 {
			l.Populate = true
		}
		d.Layers = append(d.Layers, l)
	}
	return d
}

func c19GenFilter(r *rand.Rand) c19Filter { return c19ClassicGen().filter(r) }

func (g *c19Gen) filter(r *rand.Rand) c19Filter {
	c19Pool := g.pool
	switch r.Intn(5) {
	case 0:
		if g.wide {
			// a prefix of a pool key (cut at a character boundary), sometimes in another letter case
			k := []rune(pick(r, c19Pool))
			p := string(k[:r.Intn(len(k)+1)])
			if r.Intn(4) == 0 {
				p = strings.ToUpper(p)
			}
			return c19Filter{Kind: "prefix", Arg: p}
		}
		return c19Filter{Kind: "prefix", Arg: pick(r, []string{"d", "d.", "l", "k"})}
	case 1:
		return c19Filter{Kind: "not", Arg: pick(r, c19Pool)}
	case 2:
		return c19Filter{Kind: "in", Arg: pick(r, c19Pool) + "," + pick(r, c19Pool) + "," + pick(r, c19Pool)}
	case 3:
		return c19Filter{Kind: "none"}
	}
	return c19Filter{Kind: "all"}
}

func c19GenSibling(r *rand.Rand) c19Sibling { return c19ClassicGen().sibling(r) }

func (g *c19Gen) sibling(r *rand.Rand) c19Sibling {
	sb := c19Sibling{Filter: g.filter(r), When: "before", Use: r.Intn(4) > 0}
	if r.Intn(5) < 2 {
		sb.Matcher = pick(r, []string{"never", "always", "dollar"})
	}
	if r.Intn(10) < 3 {
		sb.Dep = pick(r, []string{"never", "substring"})
	}
	if r.Intn(3) == 0 {
		sb.When = "between"
	}
	return sb
}

func c19Run(c *Ctx) {
	r := c.Rng
	for i := 0; i < c.N(2000); i++ {
		c.Tick()
		// the pools of this case: the classic ones, or (half of the cases) confusable spellings (c19_wide.go)
		g := c19ClassicGen()
		if r.Intn(2) == 0 {
			g = c19WideGen(r)
		}
		if i%12 == 5 {
			g = c19LongGen(r) // keys whose string order is not their numeric / document order
		}
		if i%8 == 3 {
			g = c19PhKeyGen(r) // keys that look like values
		}
		srcNames, refNames := []string{"base", "env", "local"}, []string{"r1", "r2"}
		if g.wide {
			srcNames = c19LayerNames(r, srcNames)
		}
		cs := c19Case{Docs: []c19Doc{g.doc(r, srcNames, 3)}, NoModel: g.phKeys}
		for j := r.Intn(3); j > 0; j-- {
			names := refNames
			if r.Intn(4) == 0 {
				names = []string{srcNames[0], "r2"} // a reference layer named like a source layer
			}
			cs.Docs = append(cs.Docs, g.doc(r, names, 2))
		}
		if r.Intn(8) < 4 {
			cs.Filter = g.filter(r)
			for cs.Filter.Kind == "all" {
				cs.Filter = g.filter(r)
			}
		} else {
			cs.Filter = c19Filter{Kind: "all"}
		}
		if cs.Filter.Kind == "all" && r.Intn(2) == 0 {
			cs.DefaultFilter = true
		}
		if r.Intn(2) == 0 {
			for j := 1 + r.Intn(2); j > 0; j-- {
				cs.Siblings = append(cs.Siblings, g.sibling(r))
			}
		}
		cs.Keys = []string{}
		for j := r.Intn(7); j > 0; j-- {
			if r.Intn(5) == 0 {
				cs.Keys = append(cs.Keys, pick(r, g.unknown))
			} else {
				cs.Keys = append(cs.Keys, pick(r, g.pool))
			}
		}
		c.Do("reports", cs)
	}
	c19RunHist(c)
	// an opening "${" that is never closed but is FOLLOWED by a complete placeholder (a forgotten brace before the next
	// placeholder or inside a default: "${a:${b}", "${a ${b}", "x ${host:${port}/y"): the value has a placeholder,
	// and when that one stays unresolved (unknown key) the value is left unchanged - a failed key.  (Generated after
	// everything else, so the cases above are the same with and without this block.)
	for i := 0; i < c.N(120); i++ {
		c.Tick()
		g := c19ClassicGen()
		cs := c19Case{Docs: []c19Doc{g.doc(r, []string{"base", "env", "local"}, 2)}, Filter: c19Filter{Kind: "all"}, Keys: []string{}, DefaultFilter: r.Intn(2) == 0}
		if r.Intn(3) == 0 {
			cs.Filter, cs.DefaultFilter = g.filter(r), false
		}
		pos := map[string]int{}
		for j, k := range g.pool {
			pos[k] = j
		}
		n := 0
		for li := range cs.Docs[0].Layers {
			puts := cs.Docs[0].Layers[li].Puts
			for pi := range puts {
				if n == 0 || r.Intn(3) == 0 {
					puts[pi].V = scalarWire(g.swallowed(r, pos[puts[pi].Path]))
					n++
				}
			}
		}
		if n == 0 {
			l := &cs.Docs[0].Layers[0]
			l.Puts = append(l.Puts, c19Put{Path: g.pool[0], V: scalarWire(g.swallowed(r, 0))})
		}
		c.Do("reports", cs)
	}
}

// swallowed: a template whose first opening is never closed and is followed by a complete placeholder.
func (g *c19Gen) swallowed(r *rand.Rand, idx int) string {
	later := g.pool[idx+1:]
	key := func(unknown int) string { // unknown in 3: how often an unknown key
		if len(later) == 0 || r.Intn(3) < unknown {
			return pick(r, g.unknown)
		}
		return pick(r, later)
	}
	k1, k2 := key(1), key(2)
	text := func() string { return pick(r, g.texts) }
	switch r.Intn(7) {
	case 0:
		return "${" + k1 + ":${" + k2 + "}"
	case 1:
		return "${" + k1 + " ${" + k2 + "}"
	case 2:
		return text() + " ${" + k1 + ":${" + k2 + "}/" + text()
	case 3:
		return "${${" + k2 + "}"
	case 4:
		return "${${${" + k2 + "}}"
	case 5:
		return "${" + k1 + text() + "${" + k2 + ":" + text() + "}"
	}
	return "${" + k1 + "${" + k2 + "}" + text() + "${" + key(2) + "}"
}

// ---------------------------------------------------------------- building and observing

func c19FilterFn(f c19Filter) func(string) bool {
	switch f.Kind {
	case "none":
		return func(string) bool { return false }
	case "prefix":
		return func(k string) bool { return strings.HasPrefix(k, f.Arg) }
	case "not":
		return func(k string) bool { return k != f.Arg }
	case "in":
		set := strings.Split(f.Arg, ",")
		return func(k string) bool {
			for _, s := range set {
				if s == k {
					return true
				}
			}
			return false
		}
	}
	return func(string) bool { return true }
}

func c19ScalarOf(w W) any {
	m, _ := w.(map[string]any)
	t, _ := m["t"].(string)
	s, _ := m["v"].(string)
	return scalarFromWire(t, s)
}

func c19Build(d c19Doc) dom.OverlayDocument {
	od := dom.NewOverlayDocument()
	for _, l := range d.Layers {
		if l.Populate {
			root := map[string]interface{}{}
			for _, p := range l.Puts {
				cur := root
				parts := strings.Split(p.Path, ".")
				for _, seg := range parts[:len(parts)-1] {
					nx, ok := cur[seg].(map[string]interface{})
					if !ok {
						nx = map[string]interface{}{}
						cur[seg] = nx
					}
					cur = nx
				}
				cur[parts[len(parts)-1]] = c19ScalarOf(p.V)
			}
			od.Populate(l.Name, "", &root)
			continue
		}
		for _, p := range l.Puts {
			od.Put(l.Name, p.Path, dom.LeafNode(c19ScalarOf(p.V)))
		}
	}
	return od
}

func c19Coords(cs dom.Coordinates) []any {
	out := make([][2]string, 0, len(cs))
	for _, c := range cs {
		out = append(out, [2]string{c.Layer(), c.Path()})
	}
	sort.Slice(out, func(i, j int) bool {
		if out[i][0] != out[j][0] {
			return out[i][0] < out[j][0]
		}
		return out[i][1] < out[j][1]
	})
	res := make([]any, len(out))
	for i, c := range out {
		res[i] = []any{c[0], c[1]}
	}
	return res
}

func c19Strs(s []string) []any {
	out := make([]any, len(s))
	for i, x := range s {
		out[i] = x
	}
	return out
}

// c19Objs are the three analytics objects under test.
type c19Objs struct {
	dep analytics.DependencyResolver
	ph  analytics.PlaceholderResolver
	imp analytics.ImpactAnalysis
}

// c19BuildObjs builds the objects under test, each from a fresh builder call. dflt: the key filter
// is left to the builders' default (all keys) instead of being set.
func c19BuildObjs(f func(string) bool, dflt bool) c19Objs {
	pb := analytics.NewPlaceholderResolverBuilder()
	ib := analytics.NewImpactAnalysisBuilder()
	if !dflt {
		pb = pb.WithKeyFilter(f)
		ib = ib.WithKeyFilter(f)
	}
	return c19Objs{dep: analytics.DefaultDependencyResolver(), ph: pb.Build(), imp: ib.Build()}
}

func c19PhMatcher(kind string) func(string) bool {
	switch kind {
	case "never":
		return func(string) bool { return false }
	case "always":
		return func(string) bool { return true }
	case "dollar":
		return func(s string) bool { return strings.Contains(s, "$") }
	}
	return c19HasPlaceholder
}

func c19DepMatcher(kind string) func(string) dom.SearchValueFunc {
	switch kind {
	case "never":
		return func(string) dom.SearchValueFunc { return func(any) bool { return false } }
	case "substring":
		return func(k string) dom.SearchValueFunc {
			return func(v any) bool { s, ok := v.(string); return ok && strings.Contains(s, k) }
		}
	}
	return func(k string) dom.SearchValueFunc { return func(v any) bool { return c19Mentions(k, v) } }
}

// c19BuildSibling builds one family of differently configured objects; only the options the
// sibling names are set (plus callbacks of its own), everything else is the builders' default.
func c19BuildSibling(sb c19Sibling, calls *int) c19Objs {
	pb := analytics.NewPlaceholderResolverBuilder().WithKeyFilter(c19FilterFn(sb.Filter)).
		OnPlaceholderEncountered(func(string, string) { *calls++ }).
		OnResolutionFailure(func(string, string, dom.Coordinates) { *calls++ })
	if sb.Matcher != "" {
		pb = pb.WithPlaceholderMatcher(c19PhMatcher(sb.Matcher))
	}
	db := analytics.NewDependencyResolverBuilder().OnPlaceholderEncountered(func(string, dom.Coordinates) { *calls++ })
	if sb.Dep != "" {
		db = db.PlaceholderMatcher(c19DepMatcher(sb.Dep))
	}
	ib := analytics.NewImpactAnalysisBuilder().WithKeyFilter(c19FilterFn(sb.Filter))
	return c19Objs{dep: db.Build(), ph: pb.Build(), imp: ib.Build()}
}

// c19Neutral is the first thing a case does: one family of objects is built with EVERY option set
// explicitly to what the documentation names as the default (no-op callbacks, all keys, the default
// matchers). Whatever earlier cases of the same process configured, the outcome of a case then
// depends on the case's own history only, so a recorded case replays in a fresh process.
func c19Neutral() {
	all := func(string) bool { return true }
	analytics.NewPlaceholderResolverBuilder().WithKeyFilter(all).WithPlaceholderMatcher(c19HasPlaceholder).
		OnPlaceholderEncountered(func(string, string) {}).
		OnResolutionFailure(func(string, string, dom.Coordinates) {}).Build()
	analytics.NewDependencyResolverBuilder().PlaceholderMatcher(c19DepMatcher("")).
		OnPlaceholderEncountered(func(string, dom.Coordinates) {}).Build()
	analytics.NewImpactAnalysisBuilder().WithKeyFilter(all).Build()
}

// c19Observe builds the three report builders and runs them once.
func c19Observe(docs []dom.OverlayDocument, f func(string) bool, dflt bool, keys []string) map[string]any {
	return c19RunObjs(c19BuildObjs(f, dflt), docs, keys)
}

func c19PhObs(ph *analytics.PlaceholderResolutionReport) map[string]any {
	det := map[string]any{}
	for _, k := range ph.FailedKeys {
		var v W
		if l, ok := ph.ActualValues[k].(dom.Leaf); ok {
			v = scalarWire(l.Value())
		}
		det[k] = map[string]any{"v": v, "coords": c19Coords(ph.Coordinates[k])}
	}
	extra := []string{}
	for k := range ph.ActualValues {
		if _, ok := det[k]; !ok {
			extra = append(extra, k)
		}
	}
	for k := range ph.Coordinates {
		if _, ok := det[k]; !ok {
			extra = append(extra, k)
		}
	}
	sort.Strings(extra)
	phObs := map[string]any{"failed": c19Strs(ph.FailedKeys), "details": det}
	if len(extra) > 0 {
		phObs["keys-in-maps-but-not-failed"] = extra
	}
	return phObs
}

// c19RunObjs runs the three objects once.
func c19RunObjs(o c19Objs, docs []dom.OverlayDocument, keys []string) map[string]any {
	dep := o.dep.Resolve(docs[0], docs[1:]...)
	dm := map[string]any{}
	for k, cs := range dep.Map {
		dm[k] = c19Coords(cs)
	}
	phObs := c19PhObs(o.ph.Resolve(docs[0]))
	imp := o.imp.ResolveOverlayDocument(docs[0], keys)
	im := map[string]any{}
	for k, cs := range imp {
		im[k] = c19Coords(cs)
	}
	return map[string]any{
		"dep":    map[string]any{"all": c19Strs(dep.AllKeys), "orphans": c19Strs(dep.OrphanKeys), "map": dm},
		"ph":     phObs,
		"impact": im,
	}
}

// the matcher as the property describes it ("mentions k as a placeholder"), re-implemented
func c19Mentions(k string, v any) bool {
	s, ok := v.(string)
	if !ok {
		return false
	}
	return strings.Contains(s, "${"+k+"}") || (strings.HasPrefix(s, "${"+k+":") && strings.HasSuffix(s, "}"))
}

func c19HasPlaceholder(s string) bool {
	i := strings.Index(s, "${")
	return i >= 0 && strings.Contains(s[i:], "}")
}

type c19LayerFlat struct {
	name string
	flat map[string]dom.Leaf
}

func c19LayerFlats(od dom.OverlayDocument) []c19LayerFlat {
	ls := od.Layers()
	var out []c19LayerFlat
	for _, n := range od.LayerNames() {
		out = append(out, c19LayerFlat{n, ls[n].Flatten()})
	}
	return out
}

func c19MentionCoords(k string, docs [][]c19LayerFlat) []any {
	var cs [][2]string
	for _, d := range docs {
		for _, l := range d {
			for p, leaf := range l.flat {
				if c19Mentions(k, leaf.Value()) {
					cs = append(cs, [2]string{l.name, p})
				}
			}
		}
	}
	sort.Slice(cs, func(i, j int) bool {
		if cs[i][0] != cs[j][0] {
			return cs[i][0] < cs[j][0]
		}
		return cs[i][1] < cs[j][1]
	})
	out := make([]any, len(cs))
	for i, c := range cs {
		out[i] = []any{c[0], c[1]}
	}
	return out
}

func c19FlatWire(f map[string]dom.Leaf) []any {
	out := make([]any, 0, len(f))
	for _, k := range sortedKeys(f) {
		out = append(out, []any{k, scalarWire(f[k].Value())})
	}
	return out
}

// ---------------------------------------------------------------- evaluation

func c19Eval(c *Ctx, kind string, raw []byte) {
	if kind == "history" {
		c19EvalHist(c, raw)
		return
	}
	if kind != "reports" {
		return
	}
	var cs c19Case
	if err := json.Unmarshal(raw, &cs); err != nil {
		panic(err)
	}
	if len(cs.Docs) == 0 || len(cs.Docs[0].Layers) == 0 {
		return
	}
	if cs.Keys == nil {
		cs.Keys = []string{}
	}
	f := c19FilterFn(cs.Filter)
	var docs []dom.OverlayDocument
	var flats [][]c19LayerFlat
	var merged map[string]dom.Leaf
	out, txt := guard(func() {
		for _, d := range cs.Docs {
			od := c19Build(d)
			docs = append(docs, od)
			flats = append(flats, c19LayerFlats(od))
		}
		merged = docs[0].Merged().Flatten()
	})
	if !c.Direct("no-panic(building the overlay)", out == "ok", txt) {
		return
	}
	// domain guards (a shrunk or hand-written case may leave the domain): the reference
	// resolver must not find a cycle, and no value may mention a non-leaf position
	tbl := map[string]string{}
	for k, l := range merged {
		tbl[k] = fmt.Sprint(l.Value())
	}
	def := [3]string{"${", "}", ":"}
	resolved := map[string]c11Out{}
	for _, k := range sortedKeys(merged) {
		ref := c11RefResolve(def, tbl, tbl[k], c11RefBudget)
		if ref.R != "ok" {
			c.Dist("out-of-domain:reference-cycle(skipped)")
			return
		}
		resolved[k] = ref
	}
	if cs.DefaultFilter && cs.Filter.Kind != "all" {
		c.Dist("out-of-domain:default-filter-with-a-filter(skipped)")
		return
	}
	// the history: neutral start, siblings built (and run) before / between, then the objects under
	// test are run
	var obs map[string]any
	var objs c19Objs
	type sibRun struct {
		sb  c19Sibling
		ph  map[string]any // the sibling's placeholder report (nil: not run, or out of domain)
		bad string         // unexpected panic text
	}
	var sibs []*sibRun
	sibCalls := 0
	runSiblings := func(when string) {
		for _, sb := range cs.Siblings {
			if (sb.When == "between") != (when == "between") {
				continue
			}
			sr := &sibRun{sb: sb}
			sibs = append(sibs, sr)
			so := c19BuildSibling(sb, &sibCalls)
			if !sb.Use {
				continue
			}
			o, t := guard(func() {
				so.dep.Resolve(docs[0], docs[1:]...)
				so.imp.ResolveOverlayDocument(docs[0], cs.Keys)
				sr.ph = c19PhObs(so.ph.Resolve(docs[0]))
			})
			if o != "ok" && !strings.Contains(t, "is not dom.Leaf") {
				sr.bad = t
			}
		}
	}
	out, txt = guard(func() {
		c19Neutral()
		runSiblings("before")
		objs = c19BuildObjs(f, cs.DefaultFilter)
		runSiblings("between")
		obs = c19RunObjs(objs, docs, cs.Keys)
	})
	if out != "ok" && strings.Contains(txt, "is not dom.Leaf") {
		c.Dist("out-of-domain:mention-of-container-position(skipped)")
		return
	}
	if !c.Direct("no-panic", out == "ok", txt) {
		return
	}
	c.Dist(fmt.Sprintf("layers:%d refs:%d", len(cs.Docs[0].Layers), len(cs.Docs)-1))
	c.Dist("filter:" + cs.Filter.Kind)
	if cs.DefaultFilter {
		c.Dist("filter:all(left to the builder default)")
	}
	c.Dist(fmt.Sprintf("siblings:%d", len(sibs)))

	// --- direct predicates, clause by clause from the quantifier text
	dep := obs["dep"].(map[string]any)
	all := dep["all"].([]any)
	orphans := dep["orphans"].([]any)
	dmap := dep["map"].(map[string]any)
	mkeys := sortedKeys(merged)
	for _, sh := range c19KeyShape(mkeys) {
		c.Dist("keys:" + sh)
	}
	// AllKeys == sorted(Flatten(Merged) keys passing the filter)   [dependency resolver: matchAll]
	c.Direct("AllKeys == sorted(Flatten(Merged) keys)", canon(all) == canon(c19Strs(mkeys)), map[string]any{"AllKeys": all, "expected": mkeys})
	// OrphanKeys == sorted(AllKeys \ mentioned);  Map[k] == multiset of (layer, path) whose value mentions k
	expOrph := []string{}
	expMap := map[string]any{}
	mentionedAny := false
	for _, k := range mkeys {
		cs := c19MentionCoords(k, flats)
		if len(cs) == 0 {
			expOrph = append(expOrph, k)
		} else {
			expMap[k] = cs
			mentionedAny = true
		}
	}
	if mentionedAny {
		c.Nontrivial()
	}
	c.Direct("OrphanKeys == sorted(AllKeys \\ mentioned)", canon(orphans) == canon(c19Strs(expOrph)), map[string]any{"OrphanKeys": orphans, "expected": expOrph})
	c.Direct("Map[k] == multiset of mentioning (layer,path), source then references", canon(dmap) == canon(expMap), map[string]any{"Map": dmap, "expected": expMap})
	// AllKeys == OrphanKeys ⊎ keys(Map)
	union := append([]string{}, sortedKeys(dmap)...)
	disjoint := true
	for _, o := range orphans {
		if _, dup := dmap[o.(string)]; dup {
			disjoint = false
		}
		union = append(union, o.(string))
	}
	sort.Strings(union)
	c.Direct("AllKeys == OrphanKeys ⊎ keys(Map)", disjoint && canon(c19Strs(union)) == canon(all), map[string]any{"AllKeys": all, "OrphanKeys": orphans, "keys(Map)": sortedKeys(dmap)})
	// FailedKeys == sorted{k | filter k, value(k) has a placeholder and Resolve(value) == value}
	failedFor := func(f func(string) bool) []string {
		exp := []string{}
		for _, k := range mkeys {
			if f(k) && c19HasPlaceholder(tbl[k]) && resolved[k].S == tbl[k] {
				exp = append(exp, k)
			}
		}
		return exp
	}
	expFailed := failedFor(f)
	ph := obs["ph"].(map[string]any)
	c.Direct("FailedKeys == sorted{k | value(k) has a placeholder and Resolve(value) == value}", canon(ph["failed"]) == canon(c19Strs(expFailed)), map[string]any{"FailedKeys": ph["failed"], "expected": expFailed})
	// the same clause for every sibling placeholder resolver that was run with the default matcher:
	// each report is the one of ITS OWN key filter
	for i, sr := range sibs {
		c.Dist("sibling:" + sr.sb.When + ":filter=" + sr.sb.Filter.Kind + ",matcher=" + sr.sb.Matcher + ",dep=" + sr.sb.Dep)
		c.Direct("no-panic(sibling)", sr.bad == "", map[string]any{"sibling": i, "panic": sr.bad})
		if sr.ph != nil && sr.sb.Matcher == "" {
			exp := failedFor(c19FilterFn(sr.sb.Filter))
			c.Direct("sibling resolver: FailedKeys == sorted{k | its filter passes k, value(k) has a placeholder and Resolve(value) == value}", canon(sr.ph["failed"]) == canon(c19Strs(exp)),
				map[string]any{"sibling": i, "FailedKeys": sr.ph["failed"], "expected": exp})
		}
	}
	if len(expFailed) > 0 {
		c.Dist("ph:some-failed")
	}
	_, stray := ph["keys-in-maps-but-not-failed"]
	c.Direct("ActualValues/Coordinates are keyed by the failed keys", !stray, ph)
	// ImpactAnalysis result == {k -> mentions(k)} for requested k with mentions (source document)
	expImp := map[string]any{}
	for _, k := range cs.Keys {
		if cs := c19MentionCoords(k, flats[:1]); len(cs) > 0 {
			expImp[k] = cs
		}
	}
	c.Direct("ImpactAnalysis == {k -> mentions(k)} for requested k with mentions", canon(obs["impact"]) == canon(expImp), map[string]any{"impact": obs["impact"], "expected": expImp})
	if len(expImp) > 0 {
		c.Dist("impact:non-empty")
	}
	// 20 repeated runs give equal reports
	first := canon(obs)
	same := true
	var other string
	out, txt = guard(func() {
		for i := 0; i < 20 && same; i++ {
			var o string
			if i%2 == 0 {
				// the objects built first, run again after everything else was built and run
				o = canon(c19RunObjs(objs, docs, cs.Keys))
			} else {
				o = canon(c19Observe(docs, f, cs.DefaultFilter, cs.Keys))
			}
			if o != first {
				same, other = false, o
			}
		}
	})
	c.Direct("no-panic(repeated runs)", out == "ok", txt)
	c.Direct("20 repeated runs give equal reports", same, map[string]any{"first": json.RawMessage(first), "other": json.RawMessage(other)})

	// --- correspondence with the model
	if cs.NoModel {
		// placeholder-shaped keys: since the model mirrors the repaired membership test (D32, /repo f8018cb) these
		// cases are compared with it like all others; the flag only feeds the distribution
		c.Dist("placeholder-shaped keys")
	}
	var docsW []any
	for _, d := range flats {
		var ls []any
		for _, l := range d {
			ls = append(ls, map[string]any{"name": l.name, "flat": c19FlatWire(l.flat)})
		}
		if ls == nil {
			ls = []any{}
		}
		docsW = append(docsW, ls)
	}
	m := c.Model("reports", map[string]any{"merged": c19FlatWire(merged), "docs": docsW, "filter": cs.Filter, "keys": cs.Keys})
	c.Corr("reports", obs, m)
}
