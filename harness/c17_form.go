package main

import (
	"encoding/base64"
	"encoding/json"
	"math/rand"
	"strings"

	"gopkg.in/yaml.v3"
)

// C17 — the WRITTEN FORM of a manifest: "loading ANY Secret or ConfigMap manifest ...".
//
// A manifest that people (or kubectl, helm, `base64 -w 76`, an editor on Windows) wrote does not look like the
// output of yaml.Marshal: base64 text is pasted as a block scalar (`|`, with the line break that ends the block
// kept, or `|-`), wrapped at 64 / 76 columns (PEM / MIME style) or shorter, with LF or CRLF line breaks, quoted, with
// a line break in front; multi-line text items are literal or folded blocks or quoted strings; keys are quoted;
// sections are flow mappings; the file has comments and CRLF line ends.  All of these DENOTE the same manifest:
// YAML gives the same strings, and standard base64 text with CR / LF line breaks anywhere denotes the same bytes
// (RFC 2045 line wrapping; what encoding/base64.StdEncoding - the decoder the Kubernetes API machinery uses for
// []byte fields - ignores; the model's `b64dec` drops them too).  Spaces or tabs inside base64 text are NOT in the
// domain.  A third of the `manifest` cases are therefore written in such a form (c17Form); the form is rendered by
// yaml.v3's own emitter from a styled yaml.Node tree, and a form that yaml.v3 does not read back as the intended
// manifest (root map, item strings incl. their line breaks) is replaced by the default form (counted as
// "form:not-read-back-by-yaml.v3").  Everything after the body is built is the ordinary manifest case: items as
// generated (binary byte-exact), write, reload, edits, model.

type c17BinForm struct {
	Wrap  int    `json:"wrap,omitempty"`  // line length of the base64 text (0: one line)
	EOL   string `json:"eol,omitempty"`   // "" = "\n" | "\r\n"
	Trail bool   `json:"trail,omitempty"` // a line break after the last line (block scalar `|`, output of `base64`)
	Lead  bool   `json:"lead,omitempty"`  // a line break before the first line
	Style string `json:"style,omitempty"` // "" (emitter's choice) | literal | folded | double | single
}

type c17Form struct {
	Text     map[string]string     `json:"text,omitempty"` // item key -> scalar style of its string value
	Bin      map[string]c17BinForm `json:"bin,omitempty"`
	Flow     []string              `json:"flow,omitempty"` // "text" / "bin": that section is a flow mapping
	KeyStyle string                `json:"keyStyle,omitempty"`
	Comment  bool                  `json:"comment,omitempty"`
	CRLF     bool                  `json:"crlf,omitempty"` // the file's line ends are CRLF
}

var c17ScalarStyles = []string{"literal", "folded", "double", "single"}

func c17Style(s string) yaml.Style {
	switch s {
	case "literal":
		return yaml.LiteralStyle
	case "folded":
		return yaml.FoldedStyle
	case "double":
		return yaml.DoubleQuotedStyle
	case "single":
		return yaml.SingleQuotedStyle
	}
	return 0
}

func c17GenForm(r *rand.Rand, text []c17Item, bin []c17Bin) *c17Form {
	f := &c17Form{Text: map[string]string{}, Bin: map[string]c17BinForm{}}
	for _, it := range text {
		if r.Intn(3) > 0 {
			f.Text[it.K] = pick(r, c17ScalarStyles)
		}
	}
	for _, it := range bin {
		bf := c17BinForm{}
		switch r.Intn(6) {
		case 0: // one line
		case 1: // one line, ended by a line break (a block scalar with the default chomping)
			bf.Trail = true
		case 2, 3: // wrapped like `base64` / PEM / MIME
			bf.Wrap = pick(r, []int{64, 76, 64, 76, 4, 8, 20, 1})
			bf.Trail = r.Intn(3) > 0
		default:
			bf.Wrap = pick(r, []int{0, 0, 4, 16, 64, 76})
			bf.Trail = r.Intn(2) == 0
			bf.Lead = r.Intn(4) == 0
		}
		if r.Intn(4) == 0 {
			bf.EOL = "\r\n"
		}
		if r.Intn(2) == 0 {
			bf.Style = pick(r, []string{"literal", "literal", "folded", "double", "single"})
		}
		if bf.Lead || (len(it.B) == 0 && bf.Trail) {
			// (yaml.v3's emitter cannot write a block scalar that starts with an empty line: such text is quoted)
			bf.Style = pick(r, []string{"double", "single"})
		}
		f.Bin[it.K] = bf
	}
	if r.Intn(6) == 0 {
		f.Flow = append(f.Flow, "text")
	}
	if r.Intn(6) == 0 {
		f.Flow = append(f.Flow, "bin")
	}
	if r.Intn(5) == 0 {
		f.KeyStyle = pick(r, []string{"double", "single"})
	}
	f.Comment = r.Intn(4) == 0
	f.CRLF = r.Intn(6) == 0
	return f
}

// c17Layout: the base64 text of one binary item as it stands in the manifest.
func c17Layout(b []byte, f c17BinForm) string {
	s := base64.StdEncoding.EncodeToString(b)
	eol := f.EOL
	if eol != "\r\n" {
		eol = "\n"
	}
	var sb strings.Builder
	if f.Lead {
		sb.WriteString(eol)
	}
	if f.Wrap > 0 {
		for len(s) > f.Wrap {
			sb.WriteString(s[:f.Wrap] + eol)
			s = s[f.Wrap:]
		}
	}
	sb.WriteString(s)
	if f.Trail {
		sb.WriteString(eol)
	}
	return sb.String()
}

// c17FormBody renders the manifest in the given form; ok=false when yaml.v3 does not read the rendered text back as
// the intended manifest (the caller then uses the default form).
func c17FormBody(kind string, extra W, text []c17Item, bin []c17Bin, emptySec bool, f *c17Form) (body []byte, ok bool) {
	root := c17Root(kind, extra, text, bin, emptySec)
	bk, tk := c17SectionKeys(kind)
	if sec, has := root[bk].(map[string]any); has {
		for _, it := range bin {
			sec[it.K] = c17Layout(c17ToBytes(it.B), f.Bin[it.K])
		}
	}
	var doc yaml.Node
	if err := doc.Encode(root); err != nil || doc.Kind != yaml.MappingNode {
		return nil, false
	}
	inFlow := func(which string) bool {
		for _, x := range f.Flow {
			if x == which {
				return true
			}
		}
		return false
	}
	for i := 0; i+1 < len(doc.Content); i += 2 {
		k, sec := doc.Content[i], doc.Content[i+1]
		if sec.Kind != yaml.MappingNode || (k.Value != bk && k.Value != tk) {
			continue
		}
		which := "text"
		if k.Value == bk {
			which = "bin"
		}
		if f.Comment {
			k.HeadComment = "# " + which + " items"
		}
		if inFlow(which) {
			sec.Style = yaml.FlowStyle
		}
		for j := 0; j+1 < len(sec.Content); j += 2 {
			ik, iv := sec.Content[j], sec.Content[j+1]
			if f.KeyStyle != "" {
				ik.Style = c17Style(f.KeyStyle)
			}
			if iv.Kind != yaml.ScalarNode || iv.Tag != "!!str" {
				continue
			}
			// (Node.Encode goes through the emitter's default rendering, which loses a leading line break: the
			// intended string is put back)
			if want, isStr := root[k.Value].(map[string]any)[ik.Value].(string); isStr {
				iv.Value = want
			}
			st := f.Text[ik.Value]
			if which == "bin" {
				st = f.Bin[ik.Value].Style
			}
			if st != "" {
				iv.Style = c17Style(st)
			}
			if f.Comment && j == 0 && !inFlow(which) {
				iv.LineComment = "# first"
			}
		}
	}
	if f.Comment {
		doc.HeadComment = "# exported manifest"
	}
	b, err := yaml.Marshal(&doc)
	if err != nil {
		return nil, false
	}
	if f.CRLF {
		b = []byte(strings.ReplaceAll(string(b), "\n", "\r\n"))
	}
	// what the text must denote: outside the data sections what yaml.v3 reads from its own default rendering of
	// the same fields; in the data sections exactly the intended item strings (base64 text with its line breaks)
	rest := map[string]any{}
	for k, v := range root {
		if k != bk && k != tk {
			rest[k] = v
		}
	}
	dflt, err := yaml.Marshal(rest)
	if err != nil {
		return nil, false
	}
	var back, want map[string]any
	if err := yaml.Unmarshal(b, &back); err != nil || yaml.Unmarshal(dflt, &want) != nil {
		return nil, false
	}
	for _, key := range []string{bk, tk} {
		sec, has := root[key].(map[string]any)
		got, present := back[key].(map[string]any)
		if has != present || (has && canon(plainWire(got)) != canon(plainWire(sec))) {
			return nil, false
		}
		delete(back, key)
	}
	if want == nil {
		want = map[string]any{}
	}
	if canon(plainWire(back)) != canon(plainWire(want)) {
		return nil, false
	}
	return b, true
}

// ------------------------------------------------------------------ item keys

// c17WideKeys: item keys beyond the classic pool.  An item key is whatever string a YAML mapping holds as a key
// (quoted where YAML needs it): letter-case twins, leading / trailing / inner white space, Unicode composition
// twins, supplementary-plane characters, U+FFFD, YAML indicators, number / boolean / null spellings (as STRING keys),
// digit strings around 2^63 / 2^64, the empty key, names that are prefixes of each other.  Keys that yaml.v3 does
// not round-trip as a string key are dropped (c17KeyStable).
var c17WideKeys = []string{"A", "a ", " a", "a b", "maxConn", "maxconn", "MAXCONN", "\u00e9", "e\u0301", "\u00c9", "\U0001F680", "\U0001D6FC",
	"\ufffd", "a:b", "a: b", "#k", "k #c", "{k}", "[k]", "~", "null", "Null", "true", "True", "t", "T", "1", "01", "1.5", "-0", "0x1f", "1e3",
	"9223372036854775807", "9223372036854775808", "18446744073709551616", "a/b", "a//b", "./a", "a/", "a.b.", "-", "- x", "k=v",
	"key-1 ", "KEY-1", "key_1", "key-11", "key-", "", " ", "<<", "=", "? q", "!t", "&a", "*a", "a\nb", "a\tb", "\u00a0", "a\u00a0", "'a'", "\"a\"",
	"a\\b", "%a", "@a", "`a", "|", ">", "---", "..."}

func c17KeyStable(k string) bool {
	b, err := yaml.Marshal(map[string]any{k: "v", "other": "w"})
	if err != nil {
		return false
	}
	var back map[string]any
	if err := yaml.Unmarshal(b, &back); err != nil {
		return false
	}
	v, ok := back[k].(string)
	return ok && v == "v" && len(back) == 2
}

// c17PickKeys: eight item keys - three to five of the wide pool, the others classic (so that twins of classic keys
// stand next to them).
func c17PickKeys(r *rand.Rand) []string {
	seen := map[string]bool{}
	out := []string{}
	want := 3 + r.Intn(3)
	for _, i := range r.Perm(len(c17WideKeys)) {
		if k := c17WideKeys[i]; len(out) < want && k != "other" && c17KeyStable(k) {
			seen[k] = true
			out = append(out, k)
		}
	}
	for _, i := range r.Perm(len(c17Keys)) {
		if k := c17Keys[i]; len(out) < 8 && !seen[k] {
			out = append(out, k)
		}
	}
	return out
}

// c17ShrinkForm: shrink candidates of a manifest case that the generic shrinker does not produce - the case without
// its written form, without one feature of the form, without form entries of items that are gone, and binary items
// cut three bytes at a time (the length mod 3, which decides the padding, is kept).
func c17ShrinkForm(raw []byte) [][]byte {
	var cs c17Manifest
	if err := json.Unmarshal(raw, &cs); err != nil {
		return nil
	}
	var out [][]byte
	emit := func(c c17Manifest) {
		if b, err := json.Marshal(c); err == nil && len(b) < len(raw) {
			out = append(out, b)
		}
	}
	for i, it := range cs.Bin {
		for _, n := range []int{len(it.B) % 3, 3 + len(it.B)%3, len(it.B) - 3} {
			if n >= 0 && n < len(it.B) {
				c := cs
				c.Bin = append([]c17Bin{}, cs.Bin...)
				c.Bin[i] = c17Bin{K: it.K, B: it.B[:n]}
				emit(c)
			}
		}
	}
	if cs.Form == nil {
		return out
	}
	c := cs
	c.Form = nil
	emit(c)
	with := func(edit func(f *c17Form)) {
		f := *cs.Form
		f.Text = map[string]string{}
		for k, v := range cs.Form.Text {
			f.Text[k] = v
		}
		f.Bin = map[string]c17BinForm{}
		for k, v := range cs.Form.Bin {
			f.Bin[k] = v
		}
		edit(&f)
		c := cs
		c.Form = &f
		emit(c)
	}
	has := map[string]bool{}
	for _, it := range cs.Text {
		has["t:"+it.K] = true
	}
	for _, it := range cs.Bin {
		has["b:"+it.K] = true
	}
	with(func(f *c17Form) {
		for k := range f.Text {
			if !has["t:"+k] {
				delete(f.Text, k)
			}
		}
		for k := range f.Bin {
			if !has["b:"+k] {
				delete(f.Bin, k)
			}
		}
	})
	with(func(f *c17Form) { f.Flow = nil })
	with(func(f *c17Form) { f.KeyStyle = "" })
	with(func(f *c17Form) { f.Comment = false })
	with(func(f *c17Form) { f.CRLF = false })
	with(func(f *c17Form) { f.Text = map[string]string{} })
	for _, k := range sortedKeys(cs.Form.Bin) {
		k := k
		bf := cs.Form.Bin[k]
		for _, e := range []func(b *c17BinForm){
			func(b *c17BinForm) { *b = c17BinForm{} },
			func(b *c17BinForm) { b.Lead = false },
			func(b *c17BinForm) { b.Wrap = 0 },
			func(b *c17BinForm) { b.EOL = "" },
			func(b *c17BinForm) { b.Style = "" },
			func(b *c17BinForm) { b.Trail = false },
		} {
			nb := bf
			e(&nb)
			if nb != bf {
				with(func(f *c17Form) { f.Bin[k] = nb })
			}
		}
	}
	return out
}
