module verifharness

go 1.24.1

require (
	github.com/rkosegi/yaml-toolkit v0.0.0
	gopkg.in/yaml.v3 v3.0.1
	github.com/google/go-cmp v0.7.0
	github.com/magiconair/properties v1.8.10
)

replace github.com/rkosegi/yaml-toolkit => /repo
