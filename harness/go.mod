module verifharness

go 1.24.1

require (
	github.com/antchfx/htmlquery v1.3.4
	github.com/google/go-cmp v0.7.0
	github.com/magiconair/properties v1.8.10
	github.com/rkosegi/yaml-toolkit v0.0.0
	golang.org/x/net v0.39.0
	gopkg.in/yaml.v3 v3.0.1
)

require (
	github.com/antchfx/xpath v1.3.3 // indirect
	github.com/go-task/slim-sprig/v3 v3.0.0 // indirect
	github.com/golang/groupcache v0.0.0-20210331224755-41bb18bfe9da // indirect
	golang.org/x/text v0.24.0 // indirect
)

replace github.com/rkosegi/yaml-toolkit => /repo
