package main

import (
	"encoding/json"
	"fmt"
	"math/rand"
	"reflect"

	"github.com/rkosegi/yaml-toolkit/dom"
)

// Heap-level tie (C04 "heap-merge", C05 "heap-clone").
//
// The Lean model lean/YtkModel/Heap.lean describes Clone and Merge on an explicit heap of cells
// (address = index, address 0 = the package's shared nil leaf).  Here the REAL object graph of
// the generated documents is encoded as such a heap by pointer identity, the real operation is
// run, and the result's SHARING MAP — for every node of the result, which input node it is
// pointer-identical to ("old:<addr>") or that it is a new object ("new:<k>", numbered by first
// visit so that aliasing among new nodes shows too) — is compared with the model's prediction.
// Direct predicates from the property texts are evaluated on the implementation alone.

// nodeID is the identity of a node object: the address its (pointer) value points to.  A sealed
// view (`&c.containerImpl`) has the address of its builder, so both count as the same cell.
func nodeID(n dom.Node) uintptr {
	v := reflect.ValueOf(n)
	if v.Kind() != reflect.Ptr {
		panic(fmt.Sprintf("nodeID: node of kind %v is not a pointer", v.Kind()))
	}
	return v.Pointer()
}

// childrenMapID is the identity of a container's children map (0 for a nil map).  Children()
// hands out the map itself, so this is observable through the public API.
func childrenMapID(n dom.Node) uintptr {
	m := n.(dom.Container).Children()
	if m == nil {
		return 0
	}
	return reflect.ValueOf(m).Pointer()
}

// heapEnc encodes the object graph reachable from some roots as an explicit heap.
type heapEnc struct {
	addr     map[uintptr]int // node identity -> address
	cells    []any           // wire form of the cells
	ids      []uintptr       // identity per address
	mapIDs   []uintptr       // children-map identity per address (0: none / nil)
	mapOwner map[uintptr]int // children-map identity -> address of its owner
	keep     []dom.Node      // keeps every encoded object alive (identities stay unique)
}

func newHeapEnc() *heapEnc {
	e := &heapEnc{addr: map[uintptr]int{}, mapOwner: map[uintptr]int{}}
	e.add(sharedNil) // address 0 = nilLeaf
	return e
}

func (e *heapEnc) add(n dom.Node) int {
	id := nodeID(n)
	if a, ok := e.addr[id]; ok {
		return a
	}
	a := len(e.cells)
	e.addr[id] = a
	e.cells = append(e.cells, nil)
	e.ids = append(e.ids, id)
	e.mapIDs = append(e.mapIDs, 0)
	e.keep = append(e.keep, n)
	switch {
	case n.IsContainer():
		ch := n.(dom.Container).Children()
		if mid := childrenMapID(n); mid != 0 {
			e.mapIDs[a] = mid
			if _, dup := e.mapOwner[mid]; !dup {
				e.mapOwner[mid] = a
			}
		}
		m := map[string]any{}
		for _, k := range sortedKeys(ch) {
			m[k] = e.add(ch[k])
		}
		e.cells[a] = map[string]any{"c": m}
	case n.IsList():
		items := n.(dom.List).Items()
		l := make([]any, len(items))
		for i, it := range items {
			l[i] = e.add(it)
		}
		e.cells[a] = map[string]any{"l": l}
	default:
		e.cells[a] = scalarWire(n.(dom.Leaf).Value())
	}
	return a
}

// snapshot re-encodes the graph below the roots and renders everything pointer-level that the
// public API shows: cell contents (child identities included), object identities, map identities.
func heapSnapshot(roots []dom.Node) string {
	e := newHeapEnc()
	as := make([]int, len(roots))
	for i, r := range roots {
		as[i] = e.add(r)
	}
	return canon(map[string]any{"roots": as, "cells": e.cells, "ids": fmt.Sprint(e.ids), "maps": fmt.Sprint(e.mapIDs)})
}

// sharer computes the sharing map of a result relative to an encoded input heap.
type sharer struct {
	e        *heapEnc
	fresh    map[uintptr]int // new object -> k
	freshMap map[uintptr]int // children map of a new container -> k of its first owner
	nodes    []dom.Node      // new nodes by k
}

func newSharer(e *heapEnc) *sharer {
	return &sharer{e: e, fresh: map[uintptr]int{}, freshMap: map[uintptr]int{}}
}

func (s *sharer) label(n dom.Node) string {
	id := nodeID(n)
	if a, ok := s.e.addr[id]; ok {
		return fmt.Sprintf("old:%d", a)
	}
	k, ok := s.fresh[id]
	if !ok {
		k = len(s.fresh)
		s.fresh[id] = k
		s.nodes = append(s.nodes, n)
	}
	lbl := fmt.Sprintf("new:%d", k)
	if n.IsContainer() {
		// a new container object must own a children map of its own
		if mid := childrenMapID(n); mid != 0 {
			if a, shared := s.e.mapOwner[mid]; shared {
				lbl += fmt.Sprintf("+children-map-of-old:%d", a)
			} else if k0, seen := s.freshMap[mid]; seen && k0 != k {
				lbl += fmt.Sprintf("+children-map-of-new:%d", k0)
			} else {
				s.freshMap[mid] = k
			}
		}
	}
	return lbl
}

func (s *sharer) tree(n dom.Node) any {
	out := map[string]any{"id": s.label(n)}
	switch {
	case n.IsContainer():
		ch := n.(dom.Container).Children()
		m := map[string]any{}
		for _, k := range sortedKeys(ch) {
			m[k] = s.tree(ch[k])
		}
		out["m"] = m
	case n.IsList():
		items := n.(dom.List).Items()
		l := make([]any, len(items))
		for i, it := range items {
			l[i] = s.tree(it)
		}
		out["i"] = l
	}
	return out
}

// ------------------------------------------------------------------ building documents

// heapBuildModes: how the documents of a case come into being.
//
//	0 frommap   dom.Builder().FromMap: every null is the shared nil leaf
//	1 wire      AddValue / ListNode, every null a leaf of its own
//	2 wire-nil  AddValue / ListNode, every null the shared nil leaf
//	3 wire-mix  shared nil leaf inside lists, own leaves under keys
//	4 builder   AddContainer / AddList / Set / Append (padding slots are the shared nil leaf)
//	5 dag       like 1, but structurally equal subtrees are ONE object (shared between all the
//	            documents of the case, too)
//	6 history   like 3, then every container gets a member added and removed again: all children
//	            maps are allocated, the empty containers' too (once-written, emptied containers)
const heapBuildModes = 7

var heapBuildNames = []string{"frommap", "wire", "wire-nil", "wire-mix", "builder", "dag", "history"}

func heapBuild(w W, mode int, memo map[string]dom.Node) dom.Node {
	switch mode {
	case 0:
		if c, ok := wireCont(w); ok {
			_ = c
			return dom.Builder().FromMap(wirePlain(w).(map[string]any))
		}
		return wireNodeM(w, 1, false)
	case 1:
		return wireNodeM(w, 0, false)
	case 2:
		return wireNodeM(w, 1, false)
	case 3:
		return wireNodeM(w, 2, false)
	case 4:
		return heapBuildAPI(w)
	case 5:
		return heapBuildDag(w, memo)
	default:
		n := wireNodeM(w, 2, false)
		var mut []dom.Node
		mutableNodes(n, map[uintptr]bool{}, &mut)
		for _, m := range mut {
			if cb, ok := m.(dom.ContainerBuilder); ok {
				cb.AddValue("tmp_", dom.LeafNode(0))
				cb.Remove("tmp_")
			}
		}
		return n
	}
}

func heapBuildAPI(w W) dom.Node {
	switch x := w.(type) {
	case []any:
		lb := dom.ListNode()
		heapFillList(lb, x)
		return lb
	case map[string]any:
		if c, ok := x["m"].(map[string]any); ok {
			cb := dom.Builder().Container()
			heapFillCont(cb, c)
			return cb
		}
		t, _ := x["t"].(string)
		s, _ := x["v"].(string)
		return dom.LeafNode(scalarFromWire(t, s))
	}
	panic(fmt.Sprintf("heapBuildAPI: unexpected %T", w))
}

func heapFillCont(cb dom.ContainerBuilder, c map[string]any) {
	for _, k := range sortedKeys(c) {
		switch wireKind(c[k]) {
		case "cont":
			m, _ := wireCont(c[k])
			heapFillCont(cb.AddContainer(k), m)
		case "list":
			heapFillList(cb.AddList(k), c[k].([]any))
		default:
			cb.AddValue(k, heapBuildAPI(c[k]))
		}
	}
}

func heapFillList(lb dom.ListBuilder, l []any) {
	lastNonNull := -1
	for i, it := range l {
		if !c04IsNull(it) {
			lastNonNull = i
		}
	}
	for i, it := range l {
		if c04IsNull(it) {
			if i > lastNonNull {
				lb.Append(dom.LeafNode(nil)) // trailing nulls: leaves of their own
			}
			continue // earlier nulls: padding slots written by the next Set
		}
		lb.Set(uint(i), heapBuildAPI(it))
	}
}

func heapBuildDag(w W, memo map[string]dom.Node) dom.Node {
	key := canon(w)
	if n, ok := memo[key]; ok {
		return n
	}
	var n dom.Node
	switch x := w.(type) {
	case []any:
		items := make([]dom.Node, len(x))
		for i, e := range x {
			items[i] = heapBuildDag(e, memo)
		}
		n = dom.ListNode(items...)
	case map[string]any:
		if c, ok := x["m"].(map[string]any); ok {
			cb := dom.Builder().Container()
			for _, k := range sortedKeys(c) {
				cb.AddValue(k, heapBuildDag(c[k], memo))
			}
			n = cb
		} else {
			t, _ := x["t"].(string)
			s, _ := x["v"].(string)
			n = dom.LeafNode(scalarFromWire(t, s))
		}
	default:
		panic(fmt.Sprintf("heapBuildDag: unexpected %T", w))
	}
	memo[key] = n
	return n
}

// ------------------------------------------------------------------ in-place probe writes

// heapWrite is one in-place builder write, addressed like the model's writes: an input cell by
// its address ("at") or a new cell by its sharing-map number ("atNew").
type heapWrite struct {
	Op    string `json:"op"` // addLeaf | addContainer | addList | remove | listSet | listAppend | listClear
	At    *int   `json:"at,omitempty"`
	AtNew *int   `json:"atNew,omitempty"`
	Name  string `json:"name,omitempty"`
	Idx   int    `json:"idx,omitempty"`
}

const heapProbeKey = "probe_"

// heapProbeWrites proposes writes for one mutable node: a deterministic function of the node's
// shape and of salt, so that a case replays identically.
func heapProbeWrites(n dom.Node, salt int) []heapWrite {
	var out []heapWrite
	switch {
	case n.IsContainer():
		keys := sortedKeys(n.(dom.Container).Children())
		switch salt % 4 {
		case 0:
			out = append(out, heapWrite{Op: "addLeaf", Name: heapProbeKey})
		case 1:
			if len(keys) > 0 {
				out = append(out, heapWrite{Op: "remove", Name: keys[salt/4%len(keys)]})
			} else {
				out = append(out, heapWrite{Op: "addContainer", Name: heapProbeKey})
			}
		case 2:
			if len(keys) > 0 {
				out = append(out, heapWrite{Op: "addLeaf", Name: keys[salt/4%len(keys)]})
			}
			out = append(out, heapWrite{Op: "addList", Name: heapProbeKey})
		default:
			out = append(out, heapWrite{Op: "addContainer", Name: heapProbeKey})
			for _, k := range keys {
				out = append(out, heapWrite{Op: "remove", Name: k})
			}
		}
	case n.IsList():
		size := n.(dom.List).Size()
		switch salt % 4 {
		case 0:
			out = append(out, heapWrite{Op: "listAppend"})
		case 1:
			out = append(out, heapWrite{Op: "listSet", Idx: 0})
		case 2:
			out = append(out, heapWrite{Op: "listSet", Idx: size + 1})
		default:
			out = append(out, heapWrite{Op: "listClear"})
		}
	}
	return out
}

// heapApplyWrite performs the write through the public builder API; false when the node does
// not offer the builder interface (nothing was written).
func heapApplyWrite(n dom.Node, w heapWrite) bool {
	switch w.Op {
	case "addLeaf", "addContainer", "addList", "remove":
		cb, ok := n.(dom.ContainerBuilder)
		if !ok {
			return false
		}
		switch w.Op {
		case "addLeaf":
			cb.AddValue(w.Name, dom.LeafNode("probe"))
		case "addContainer":
			cb.AddContainer(w.Name)
		case "addList":
			cb.AddList(w.Name)
		default:
			cb.Remove(w.Name)
		}
	default:
		lb, ok := n.(dom.ListBuilder)
		if !ok {
			return false
		}
		switch w.Op {
		case "listAppend":
			lb.Append(dom.LeafNode("probe"))
		case "listSet":
			lb.Set(uint(w.Idx), dom.LeafNode("probe"))
		default:
			lb.Clear()
		}
	}
	return true
}

// mutableNodes lists the distinct container / list objects reachable from n (preorder, key order).
func mutableNodes(n dom.Node, seen map[uintptr]bool, out *[]dom.Node) {
	if n.IsLeaf() {
		return
	}
	id := nodeID(n)
	if seen[id] {
		return
	}
	seen[id] = true
	*out = append(*out, n)
	if n.IsContainer() {
		ch := n.(dom.Container).Children()
		for _, k := range sortedKeys(ch) {
			mutableNodes(ch[k], seen, out)
		}
		return
	}
	for _, it := range n.(dom.List).Items() {
		mutableNodes(it, seen, out)
	}
}

// ------------------------------------------------------------------ C05: heap-clone

type heapCloneCase struct {
	X     W   `json:"x"`
	Build int `json:"build"`
	Salt  int `json:"salt"`
}

func heapCloneGen(c *Ctx, g *DocGen, n int) {
	r := c.Rng
	for i := 0; i < n; i++ {
		c.Tick()
		var x W
		switch r.Intn(8) {
		case 0:
			x = g.Scalar(r)
		case 1:
			x = g.List(r, 1)
		default:
			x = g.Doc(r)
		}
		c.Do("heap-clone", heapCloneCase{X: x, Build: r.Intn(heapBuildModes), Salt: r.Intn(1 << 16)})
	}
}

func heapCloneEval(c *Ctx, raw []byte) {
	var p heapCloneCase
	if err := json.Unmarshal(raw, &p); err != nil {
		panic(err)
	}
	if p.X == nil || p.Build < 0 || p.Build >= heapBuildModes {
		return
	}
	if wireSize(p.X) > 1 {
		c.Nontrivial()
	}
	c.Dist("heap-clone:build=" + heapBuildNames[p.Build])
	var impl map[string]any
	var args map[string]any
	out, txt := guard(func() {
		x := heapBuild(p.X, p.Build, map[string]dom.Node{})
		enc := newHeapEnc()
		ax := enc.add(x)
		before := nodeWire(x)
		snap0 := heapSnapshot([]dom.Node{x})
		cl := x.Clone()
		snap1 := heapSnapshot([]dom.Node{x})
		sh := newSharer(enc)
		share := sh.tree(cl)
		impl = map[string]any{"ok": true, "abs": nodeWire(cl), "share": share, "inputs": []any{nodeWire(x)},
			"inputsBefore": []any{before}, "prefix": snap0 == snap1}
		args = map[string]any{"heap": enc.cells, "x": ax}

		// the property's words, on the implementation alone --------------------------------
		// "the two share no state": no container / list object, no children map in common
		var clMut, xMut []dom.Node
		mutableNodes(cl, map[uintptr]bool{}, &clMut)
		mutableNodes(x, map[uintptr]bool{}, &xMut)
		sharedObj := ""
		for _, n := range clMut {
			if a, ok := enc.addr[nodeID(n)]; ok {
				sharedObj = fmt.Sprintf("a %s of the clone is the original's object #%d", kindOf(n), a)
				break
			}
			if n.IsContainer() {
				if a, ok := enc.mapOwner[childrenMapID(n)]; ok && childrenMapID(n) != 0 {
					sharedObj = fmt.Sprintf("a container of the clone uses the children map of the original's container #%d", a)
					break
				}
			}
		}
		c.Direct("clone-shares-no-mutable-state", sharedObj == "", sharedObj)
		c.Direct("clone-content", canon(nodeWire(cl)) == canon(before), nil)
		c.Direct("clone-leaves-original-unchanged", canon(nodeWire(x)) == canon(before), nil)

		// "editing the original afterwards never changes the clone": in-place writes to every
		// mutable object of the original; the same writes go to the model (addressed cells)
		var writes []heapWrite
		clBefore := canon(nodeWire(cl))
		for i, n := range xMut {
			a := enc.addr[nodeID(n)]
			for _, w := range heapProbeWrites(n, p.Salt+i) {
				if heapApplyWrite(n, w) {
					w.At = &a
					writes = append(writes, w)
				}
			}
		}
		c.Direct("clone-independent(original edited in place)", canon(nodeWire(cl)) == clBefore,
			map[string]any{"clone before": json.RawMessage(clBefore), "clone after": nodeWire(cl)})
		impl["afterOrigWrites"] = []any{nodeWire(x), nodeWire(cl)}
		// … and symmetrically ("share no state"): writes to the clone's objects
		xNow := canon(nodeWire(x))
		var writes2 []heapWrite
		for i, n := range clMut {
			k, isNew := sh.fresh[nodeID(n)]
			if !isNew {
				continue // a shared object: reported above
			}
			for _, w := range heapProbeWrites(n, p.Salt+i+1) {
				if heapApplyWrite(n, w) {
					k := k
					w.AtNew = &k
					writes2 = append(writes2, w)
				}
			}
		}
		c.Direct("original-independent(clone edited in place)", canon(nodeWire(x)) == xNow,
			map[string]any{"original before": json.RawMessage(xNow), "original after": nodeWire(x)})
		impl["afterCloneWrites"] = []any{nodeWire(x), nodeWire(cl)}
		args["writes"] = writes
		args["writes2"] = writes2
		c.Dist(fmt.Sprintf("heap-clone:writes=%d", bucket(len(writes)+len(writes2))))
	})
	if !c.Direct("no-panic", out == "ok", txt) {
		return
	}
	heapCorr(c, "heapClone", impl, c.Model("heapClone", args))
}

// heapCorr compares the observation with the model's in three parts (separate obligations, so
// that the evidence says which part differs): the sharing map, the abstractions (result, inputs
// before / after, "no old cell written"), and the abstractions after the in-place probe writes.
func heapCorr(c *Ctx, op string, impl map[string]any, model any) {
	mm, _ := model.(map[string]any)
	part := func(keys ...string) (any, any) {
		a, b := map[string]any{}, map[string]any{}
		for _, k := range keys {
			a[k] = impl[k]
			if mm != nil {
				b[k] = mm[k]
			}
		}
		if mm == nil || mm["model_error"] != nil {
			return a, model
		}
		return a, b
	}
	ok := true
	a, b := part("ok", "share")
	ok = c.Corr(op+".share", a, b) && ok
	a, b = part("ok", "abs", "inputs", "inputsBefore", "prefix")
	ok = c.Corr(op+".abs", a, b) && ok
	var wk []string
	for k := range impl {
		if len(k) > 5 && k[:5] == "after" {
			wk = append(wk, k)
		}
	}
	a, b = part(wk...)
	ok = c.Corr(op+".writes", a, b) && ok
	if ok {
		c.Dist(op + ":model-agrees")
	} else {
		c.Dist(op + ":model-differs")
	}
}

func kindOf(n dom.Node) string {
	switch {
	case n.IsContainer():
		return "container"
	case n.IsList():
		return "list"
	}
	return "leaf"
}

func bucket(n int) int {
	switch {
	case n <= 2:
		return n
	case n <= 5:
		return 5
	case n <= 10:
		return 10
	}
	return 99
}

// ------------------------------------------------------------------ C04: heap-merge

type heapMergeCase struct {
	A      W      `json:"a,omitempty"`
	B      W      `json:"b,omitempty"`
	Layers []W    `json:"layers,omitempty"` // non-empty: OverlayDocument.Merged over these layers
	Opt    string `json:"opt"`
	Build  int    `json:"build"`
	BuildB int    `json:"buildB"`
	Salt   int    `json:"salt"`
	Seal   bool   `json:"seal,omitempty"` // pass B (every layer) as a sealed, read-only Container
}

func heapMergeGen(c *Ctx, g *DocGen, second func(W) W, opt func() string, n int) {
	r := c.Rng
	for i := 0; i < n; i++ {
		c.Tick()
		a := g.Doc(r)
		mc := heapMergeCase{Opt: opt(), Build: r.Intn(heapBuildModes), Salt: r.Intn(1 << 16)}
		mc.BuildB = mc.Build
		mc.Seal = r.Intn(5) == 0
		if r.Intn(3) == 0 {
			mc.BuildB = r.Intn(heapBuildModes)
		}
		if r.Intn(5) == 0 {
			k := 1 + r.Intn(3)
			prev := a
			for j := 0; j < k; j++ {
				mc.Layers = append(mc.Layers, prev)
				prev = second(prev)
			}
		} else {
			mc.A, mc.B = a, second(a)
		}
		c.Do("heap-merge", mc)
	}
}

// spinePairs walks result / A / B in parallel and lists the result nodes on the merged spine:
// the root, and every member (list position under meld) where both sides hold containers.
func mergedSpine(res, a, b dom.Node, meld bool, out *[]dom.Node) {
	if !(res.IsContainer() && a.IsContainer() && b.IsContainer()) {
		return
	}
	*out = append(*out, res)
	rc, ac, bc := res.(dom.Container).Children(), a.(dom.Container).Children(), b.(dom.Container).Children()
	for _, k := range sortedKeys(rc) {
		x, inA := ac[k]
		y, inB := bc[k]
		if !inA || !inB {
			continue
		}
		mergedSpineValue(rc[k], x, y, meld, out)
	}
}

func mergedSpineValue(res, x, y dom.Node, meld bool, out *[]dom.Node) {
	switch {
	case x.IsContainer() && y.IsContainer():
		mergedSpine(res, x, y, meld, out)
	case x.IsList() && y.IsList() && meld && res.IsList():
		ri, xi, yi := res.(dom.List).Items(), x.(dom.List).Items(), y.(dom.List).Items()
		for i := 0; i < len(xi) && i < len(yi) && i < len(ri); i++ {
			mergedSpineValue(ri[i], xi[i], yi[i], meld, out)
		}
	}
}

// heapSealed hands the container out as the read-only view (`Seal()`: a different Go pointer type
// to the same object) when seal is set.
func heapSealed(n dom.Node, seal bool) dom.Container {
	if cb, ok := n.(dom.ContainerBuilder); ok && seal {
		return cb.Seal()
	}
	return n.(dom.Container)
}

func heapMergeEval(c *Ctx, raw []byte) {
	var p heapMergeCase
	if err := json.Unmarshal(raw, &p); err != nil {
		panic(err)
	}
	if p.Build < 0 || p.Build >= heapBuildModes || p.BuildB < 0 || p.BuildB >= heapBuildModes {
		return
	}
	overlay := len(p.Layers) > 0
	docsW := p.Layers
	if !overlay {
		if p.A == nil || p.B == nil {
			return
		}
		docsW = []W{p.A, p.B}
	}
	for _, d := range docsW {
		if wireKind(d) != "cont" {
			return // shrinking may propose non-documents: outside the domain
		}
	}
	c.Dist("heap-merge:opt=" + p.Opt)
	if p.Seal {
		c.Dist("heap-merge:sealed")
	}
	c.Dist("heap-merge:build=" + heapBuildNames[p.Build])
	if overlay {
		c.Dist(fmt.Sprintf("heap-merge:overlay-layers=%d", len(docsW)))
	}
	for i := 1; i < len(docsW); i++ {
		if c04Stats(c, docsW[i-1], docsW[i], true) {
			c.Nontrivial()
		}
	}
	var impl, args map[string]any
	out, txt := guard(func() {
		memo := map[string]dom.Node{}
		docs := make([]dom.Node, len(docsW))
		for i, d := range docsW {
			mode := p.Build
			if i > 0 {
				mode = p.BuildB
			}
			docs[i] = heapBuild(d, mode, memo)
		}
		enc := newHeapEnc()
		roots := make([]int, len(docs))
		before := make([]any, len(docs))
		for i, d := range docs {
			roots[i] = enc.add(d)
			before[i] = nodeWire(d)
		}
		snap0 := heapSnapshot(docs)
		var res dom.Node
		if overlay {
			ov := dom.NewOverlayDocument()
			for i, d := range docs {
				ov.Add(fmt.Sprintf("L%d", i), heapSealed(d, p.Seal))
			}
			res = ov.Merged(c04Opts(p.Opt)...)
		} else {
			res = docs[0].(dom.ContainerBuilder).Merge(heapSealed(docs[1], p.Seal), c04Opts(p.Opt)...)
		}
		snap1 := heapSnapshot(docs)
		sh := newSharer(enc)
		share := sh.tree(res)
		after := make([]any, len(docs))
		for i, d := range docs {
			after[i] = nodeWire(d)
		}
		impl = map[string]any{"ok": true, "abs": nodeWire(res), "share": share, "inputs": after,
			"inputsBefore": before, "prefix": snap0 == snap1}
		if overlay {
			args = map[string]any{"heap": enc.cells, "layers": roots, "opt": p.Opt}
		} else {
			args = map[string]any{"heap": enc.cells, "a": roots[0], "b": roots[1], "opt": p.Opt}
		}

		// "Merging never modifies A or B": every input object is pointer-for-pointer and
		// value-for-value what it was (members, items, identities, children maps)
		c.Direct("inputs-untouched(pointer level)", snap0 == snap1,
			map[string]any{"before": json.RawMessage(snap0), "after": json.RawMessage(snap1)})
		c.Direct("inputs-untouched(content)", canon(after) == canon(before), map[string]any{"before": before, "after": after})

		// the result container is a new object with a children map of its own, and so is every
		// container on the merged spine: writing to them in place must not show in A or B
		var spine []dom.Node
		if overlay {
			spine = []dom.Node{res}
		} else {
			mergedSpine(res, docs[0], docs[1], p.Opt != "append", &spine)
		}
		var writes []heapWrite
		for i, n := range spine {
			k, isNew := sh.fresh[nodeID(n)]
			if !isNew {
				// the property does not say in so many words that merged containers are new
				// objects; the model does (heap_merge_sharing) and the sharing map reports it
				continue
			}
			for _, w := range heapProbeWrites(n, p.Salt+i) {
				if heapApplyWrite(n, w) {
					k := k
					w.AtNew = &k
					writes = append(writes, w)
				}
			}
		}
		after2 := make([]any, len(docs))
		for i, d := range docs {
			after2[i] = nodeWire(d)
		}
		c.Direct("inputs-untouched(result's merged containers edited in place)", canon(after2) == canon(before),
			map[string]any{"before": before, "after": after2})
		impl["afterWrites"] = append([]any{nodeWire(res)}, after2...)
		args["writes"] = writes
		c.Dist(fmt.Sprintf("heap-merge:spine=%d", bucket(len(spine))))
	})
	if !c.Direct("no-panic", out == "ok", txt) {
		return
	}
	op := "heapMerge"
	if overlay {
		op = "heapMergeAll"
	}
	heapCorr(c, op, impl, c.Model(op, args))
}

var _ = rand.Int
