package main

import (
	"encoding/json"
	"fmt"
	"math/rand"

	"github.com/rkosegi/yaml-toolkit/dom"
)

// C04 — "for all documents A, B": WIDE documents.
//
// The pairs of c04.go have a handful of members per container.  Real documents merged by this library are wide: a
// defaults file and an override generated from one template for thousands of entries.  A few large cases per run
// (direct predicates only; the documents are described, not spelled out, so that a replay stays readable): A and B
// have N entries — members e0..e(N-1) of the root, or (N < 5000) the N items of one list (melded position by position, or
// appended) — entry i being the (i mod k)-th of k small entry templates per side.  B's templates are A's after the
// edits an override makes: containers emptied out (`labels: {}`), members dropped, leaves changed, a kind swapped;
// B may hold only every s-th entry.  N sits just above the sizes at which something that is counted per entry runs
// out: 1000, 4096, 10000, 2^15.  Checked: Merge returns (no panic), equals the reference merge, leaves A and B as
// they were; A.Merge({}) == A == {}.Merge(A); A.Merge(A) == A under meld.
type c04Wide struct {
	N      int    `json:"n"`
	Shape  string `json:"shape"` // members | items
	EntryA []W    `json:"entry_a"`
	EntryB []W    `json:"entry_b"`
	Stride int    `json:"stride"` // B holds entry i only when i % stride == 0 (members) / B's list has n/stride items (items)
	Opt    string `json:"opt"`
}

// c04Override: what an override file makes of an entry — containers emptied out, members dropped, leaves changed.
func c04Override(r *rand.Rand, g *DocGen, w W) W {
	switch x := w.(type) {
	case []any:
		out := []any{}
		for _, e := range x {
			if r.Intn(4) > 0 {
				out = append(out, c04Override(r, g, e))
			}
		}
		return out
	case map[string]any:
		cm, ok := x["m"].(map[string]any)
		if !ok {
			if r.Intn(2) == 0 {
				return g.Scalar(r)
			}
			return deepCopyW(w)
		}
		m := map[string]any{}
		if r.Intn(3) == 0 {
			return map[string]any{"m": m} // emptied out
		}
		for _, k := range sortedKeys(cm) {
			switch r.Intn(6) {
			case 0:
				// dropped
			case 1:
				m[k] = g.Node(r, 1)
			default:
				m[k] = c04Override(r, g, cm[k])
			}
		}
		return map[string]any{"m": m}
	}
	return w
}

func c04RunWide(c *Ctx, g *DocGen, opt func() string) {
	r := c.Rng
	sizes := []int{1100, 4200, 12000, 33000}
	if c.Thorough() {
		sizes = append(sizes, 10100, 66000, 20000)
	}
	ge := *g // entries: small, rich in containers (empty ones among them)
	ge.MaxDepth, ge.PEmpty, ge.PLeaf = 3, 0.3, 0.35
	var all []int
	for rep := 0; rep < c.N(1); rep++ { // once per quick run (more often when the case budget is scaled up)
		all = append(all, sizes...)
	}
	for _, n := range all {
		c.Tick()
		k := 1 + r.Intn(2)
		w := c04Wide{N: n, Shape: pick(r, []string{"members", "members", "items"}), Stride: pick(r, []int{1, 1, 1, 2}), Opt: opt()}
		if n > 5000 {
			w.Shape = "members" // melding two lists costs the library time quadratic in their length: lists stay below 5000 items
		}
		for j := 0; j < k; j++ {
			a := ge.Doc(r)
			for try := 0; try < 20 && wireSize(a) > 14; try++ {
				a = ge.Doc(r)
			}
			if cm, _ := wireCont(a); len(cm) == 0 {
				a = map[string]any{"m": map[string]any{"labels": map[string]any{"m": map[string]any{pick(r, g.Keys): g.Scalar(r)}}, "name": g.Scalar(r)}}
			}
			w.EntryA = append(w.EntryA, a)
		}
		emptied := false
		for j := 0; j < k; j++ {
			w.EntryB = append(w.EntryB, c04Override(r, g, w.EntryA[j]))
			emptied = emptied || c04EmptiedOut(w.EntryA[j], w.EntryB[j])
		}
		if !emptied && r.Intn(4) > 0 {
			// the override of the first template says `x: {}` for one container x of the entry (or for the entry itself)
			var conts []dhPos
			var ps []dhPos
			dhPositions(w.EntryA[0], []any{}, &ps)
			for _, p := range ps {
				if p.kind == "cont" {
					conts = append(conts, p)
				}
			}
			at := pick(r, conts).at
			if nb, ok := dhUpdate(w.EntryA[0], at, func(W) (W, bool) { return map[string]any{"m": map[string]any{}}, true }); ok {
				w.EntryB[0] = nb
			}
		}
		c.Do("wide", w)
	}
}

// c04EmptiedOut: somewhere both sides hold a container and b's is empty.
func c04EmptiedOut(a, b W) bool {
	ca, okA := wireCont(a)
	cb, okB := wireCont(b)
	if okA && okB {
		if len(cb) == 0 {
			return true
		}
		for k, e := range cb {
			if f, has := ca[k]; has && c04EmptiedOut(f, e) {
				return true
			}
		}
		return false
	}
	la, okA := a.([]any)
	lb, okB := b.([]any)
	if okA && okB {
		for i := 0; i < len(la) && i < len(lb); i++ {
			if c04EmptiedOut(la[i], lb[i]) {
				return true
			}
		}
	}
	return false
}

// docs: the two documents in wire form.
func (w *c04Wide) docs() (a, b W) {
	entry := func(ts []W, i int) W { return ts[i%len(ts)] } // shared, never written: wire documents are values
	switch w.Shape {
	case "items":
		la, lb := make([]any, 0, w.N), make([]any, 0, w.N/w.Stride+1)
		for i := 0; i < w.N; i++ {
			la = append(la, entry(w.EntryA, i))
			if i%w.Stride == 0 {
				lb = append(lb, entry(w.EntryB, i/w.Stride))
			}
		}
		return map[string]any{"m": map[string]any{"l": la, "k1": scalarWire(1)}}, map[string]any{"m": map[string]any{"l": lb}}
	default:
		ma, mb := make(map[string]any, w.N), make(map[string]any, w.N/w.Stride+1)
		for i := 0; i < w.N; i++ {
			key := fmt.Sprintf("e%d", i)
			ma[key] = entry(w.EntryA, i)
			if i%w.Stride == 0 {
				mb[key] = entry(w.EntryB, i)
			}
		}
		return map[string]any{"m": ma}, map[string]any{"m": mb}
	}
}

func c04EvalWide(c *Ctx, raw []byte) {
	var w c04Wide
	if err := json.Unmarshal(raw, &w); err != nil {
		panic(err)
	}
	if w.N < 1 || w.N > 200000 || len(w.EntryA) == 0 || len(w.EntryB) == 0 {
		return
	}
	if w.Shape == "items" && w.N > 5000 {
		return
	}
	if w.Stride < 1 {
		w.Stride = 1
	}
	for _, e := range append(append([]W{}, w.EntryA...), w.EntryB...) {
		if e == nil || !c05KeysOK(e) {
			return
		}
	}
	c.Nontrivial()
	c.Dist(fmt.Sprintf("wide:%s:n~%dk", w.Shape, w.N/1000))
	app := w.Opt == "append"
	aw, bw := w.docs()
	ref := c04RefDoc(aw, bw, app)
	short := func(x W) any { // a replay detail must stay readable (evaluated on a failure only)
		s := canon(x)
		if len(s) > 600 {
			return s[:300] + " … " + s[len(s)-200:]
		}
		return x
	}
	var got, gotAE, gotEA, gotSelf W
	var a, b dom.ContainerBuilder
	out, txt := guard(func() {
		a, b = wireNodeM(aw, w.N%3, false).(dom.ContainerBuilder), wireNodeM(bw, (w.N+1)%3, false).(dom.ContainerBuilder)
		got = nodeWire(a.Merge(b, c04Opts(w.Opt)...))
	})
	if !c.Direct("wide: Merge returns on documents of any width (no panic)", out == "ok", map[string]any{"n": w.N, "shape": w.Shape, "panic": txt}) {
		return
	}
	var det any
	eq := wireSame(got, ref)
	if !eq {
		det = map[string]any{"n": w.N, "first difference": wireFirstDiff(got, ref, ""), "impl": short(got), "expected": short(ref)}
	}
	c.Direct("wide: merge == reference merge", eq, det)
	c.Direct("wide: inputs unchanged", wireSame(nodeWire(a), aw) && wireSame(nodeWire(b), bw), map[string]any{"n": w.N})
	out, txt = guard(func() {
		empty := dom.Builder().Container()
		gotAE = nodeWire(a.Merge(empty, c04Opts(w.Opt)...))
		gotEA = nodeWire(empty.Merge(a, c04Opts(w.Opt)...))
		gotSelf = nodeWire(a.Merge(a))
		// the override over the defaults over the override: one more call on the same objects
		_ = b.Merge(a, c04Opts(w.Opt)...).Merge(b, c04Opts(w.Opt)...)
	})
	if !c.Direct("wide: Merge returns on documents of any width (no panic; identity, self and repeated merges)", out == "ok", map[string]any{"n": w.N, "shape": w.Shape, "panic": txt}) {
		return
	}
	c.Direct("wide: A.Merge({}) == A == {}.Merge(A)", wireSame(gotAE, aw) && wireSame(gotEA, aw), map[string]any{"n": w.N})
	if eq = wireSame(gotSelf, aw); !eq {
		det = map[string]any{"n": w.N, "first difference": wireFirstDiff(gotSelf, aw, "")}
	}
	c.Direct("wide: A.Merge(A) == A under meld", eq, det)
	c.Direct("wide: inputs unchanged", wireSame(nodeWire(a), aw) && wireSame(nodeWire(b), bw), map[string]any{"n": w.N, "after": "identity, self and repeated merges"})
}

// wireSame: equality of wire documents by content (the wire form of a leaf is a map of two strings).
func wireSame(a, b W) bool {
	switch x := a.(type) {
	case map[string]any:
		y, ok := b.(map[string]any)
		if !ok || len(x) != len(y) {
			return false
		}
		for k, e := range x {
			f, has := y[k]
			if !has || !wireSame(e, f) {
				return false
			}
		}
		return true
	case []any:
		y, ok := b.([]any)
		if !ok || len(x) != len(y) {
			return false
		}
		for i := range x {
			if !wireSame(x[i], y[i]) {
				return false
			}
		}
		return true
	case string:
		y, ok := b.(string)
		return ok && x == y
	case nil:
		return b == nil
	}
	return canon(a) == canon(b)
}

// wireFirstDiff: the first position at which two wire documents differ.
func wireFirstDiff(a, b W, at string) string {
	if ca, ok := wireCont(a); ok {
		if cb, ok := wireCont(b); ok {
			for _, k := range sortedKeys(cb) {
				e, has := ca[k]
				if !has {
					return fmt.Sprintf("%s.%s: missing", at, k)
				}
				if !wireSame(e, cb[k]) {
					return wireFirstDiff(e, cb[k], at+"."+k)
				}
			}
			for _, k := range sortedKeys(ca) {
				if _, has := cb[k]; !has {
					return fmt.Sprintf("%s.%s: unexpected", at, k)
				}
			}
		}
	}
	if la, ok := a.([]any); ok {
		if lb, ok := b.([]any); ok {
			if len(la) != len(lb) {
				return fmt.Sprintf("%s: %d items, expected %d", at, len(la), len(lb))
			}
			for i := range la {
				if !wireSame(la[i], lb[i]) {
					return wireFirstDiff(la[i], lb[i], fmt.Sprintf("%s[%d]", at, i))
				}
			}
		}
	}
	return fmt.Sprintf("%s: got %.120s, expected %.120s", at, canon(a), canon(b))
}
