package main

import (
	"fmt"
	"sort"
	"strconv"
	"time"

	"github.com/rkosegi/yaml-toolkit/dom"
)

// The wire format of documents (shared with lean/YtkModel/Wire.lean):
//
//	leaf      {"t": <go type>, "v": <fmt.Sprint text>}
//	list      [ node, ... ]
//	container {"m": { key: node, ... }}
//
// W is a document in wire form, decoded JSON (map[string]any / []any).
type W = any

func scalarWire(v any) W {
	if v == nil {
		return map[string]any{"t": "nil", "v": "<nil>"}
	}
	return map[string]any{"t": fmt.Sprintf("%T", v), "v": fmt.Sprint(v)}
}

// plainWire converts a plain Go value (map[string]any / []any / scalars).
func plainWire(v any) W {
	switch x := v.(type) {
	case map[string]any:
		m := map[string]any{}
		for k, e := range x {
			m[k] = plainWire(e)
		}
		return map[string]any{"m": m}
	case []any:
		l := make([]any, len(x))
		for i, e := range x {
			l[i] = plainWire(e)
		}
		return l
	default:
		return scalarWire(v)
	}
}

// plainWireK is plainWire for values that may contain maps with non-string keys (yaml.v3
// yields map[any]any for those): keys are stringified as the repaired decoder does (fmt.Sprint).
func plainWireK(v any) W {
	switch x := v.(type) {
	case map[string]any:
		m := map[string]any{}
		for k, e := range x {
			m[k] = plainWireK(e)
		}
		return map[string]any{"m": m}
	case map[any]any:
		m := map[string]any{}
		for k, e := range x {
			m[fmt.Sprint(k)] = plainWireK(e)
		}
		return map[string]any{"m": m}
	case []any:
		l := make([]any, len(x))
		for i, e := range x {
			l[i] = plainWireK(e)
		}
		return l
	default:
		return scalarWire(v)
	}
}

// plainHasNonStringKeys reports whether a decoded value contains a map with non-string keys.
func plainHasNonStringKeys(v any) bool {
	switch x := v.(type) {
	case map[any]any:
		return true
	case map[string]any:
		for _, e := range x {
			if plainHasNonStringKeys(e) {
				return true
			}
		}
	case []any:
		for _, e := range x {
			if plainHasNonStringKeys(e) {
				return true
			}
		}
	}
	return false
}

// nodeWire walks a DOM node directly (Children / Items / Value), independent of AsMap.
func nodeWire(n dom.Node) W {
	if n == nil {
		return nil
	}
	switch {
	case n.IsContainer():
		m := map[string]any{}
		for k, e := range n.(dom.Container).Children() {
			m[k] = nodeWire(e)
		}
		return map[string]any{"m": m}
	case n.IsList():
		items := n.(dom.List).Items()
		l := make([]any, len(items))
		for i, e := range items {
			l[i] = nodeWire(e)
		}
		return l
	default:
		return scalarWire(n.(dom.Leaf).Value())
	}
}

func isWireLeaf(w W) bool {
	m, ok := w.(map[string]any)
	if !ok {
		return false
	}
	_, has := m["m"]
	return !has
}

func wireCont(w W) (map[string]any, bool) {
	m, ok := w.(map[string]any)
	if !ok {
		return nil, false
	}
	c, ok := m["m"].(map[string]any)
	return c, ok
}

// wirePlain rebuilds a plain Go value from wire form (typed scalars).
func wirePlain(w W) any {
	switch x := w.(type) {
	case []any:
		l := make([]any, len(x))
		for i, e := range x {
			l[i] = wirePlain(e)
		}
		return l
	case map[string]any:
		if c, ok := x["m"].(map[string]any); ok {
			m := map[string]any{}
			for k, e := range c {
				m[k] = wirePlain(e)
			}
			return m
		}
		t, _ := x["t"].(string)
		s, _ := x["v"].(string)
		return scalarFromWire(t, s)
	case nil:
		return nil
	}
	panic(fmt.Sprintf("wirePlain: unexpected %T", w))
}

func scalarFromWire(t, s string) any {
	switch t {
	case "nil":
		return nil
	case "string":
		return s
	case "bool":
		return s == "true"
	case "int":
		n, _ := strconv.Atoi(s)
		return n
	case "int64":
		n, _ := strconv.ParseInt(s, 10, 64)
		return n
	case "uint64":
		n, _ := strconv.ParseUint(s, 10, 64)
		return n
	case "float64":
		f, _ := strconv.ParseFloat(s, 64)
		return f
	case "time.Time":
		tm, err := time.Parse("2006-01-02 15:04:05.999999999 -0700 MST", s)
		if err != nil {
			return s
		}
		return tm
	}
	return s
}

// wireNode builds a DOM node from wire form using only constructors whose behaviour
// does not depend on the code under test's path handling (Children map is filled through
// AddValue with plain names; callers make sure names carry no index suffix when that matters).
// sharedNil is the decoder's shared nil leaf (every decoded null and every padding slot is this one
// node object); obtained through the public API.
var sharedNil = dom.Builder().FromMap(map[string]interface{}{"x": nil}).Child("x")

// wireNode builds a DOM node from wire form.  How null leaves are built is a deterministic function
// of the document's content (so a case replays identically): all fresh `LeafNode(nil)`, all the
// decoder's shared nil leaf, or shared inside lists and fresh under keys — documents in the wild
// contain both kinds, and code that treats them differently must not change observable behaviour.
func wireNode(w W) dom.Node {
	return wireNodeM(w, int(hash64([]byte(canon(w)))%3), false)
}

func wireNodeM(w W, nullMode int, inList bool) dom.Node {
	switch x := w.(type) {
	case []any:
		// built through the variadic constructor from a slice with spare capacity that is
		// scribbled over afterwards: a list must not alias its constructor's arguments
		items := make([]dom.Node, len(x), len(x)+3)
		for i, e := range x {
			items[i] = wireNodeM(e, nullMode, true)
		}
		lb := dom.ListNode(items...)
		for i := range items {
			items[i] = scribbleLeaf
		}
		_ = append(items, scribbleLeaf, scribbleLeaf)
		return lb
	case map[string]any:
		if c, ok := x["m"].(map[string]any); ok {
			cb := dom.Builder().Container()
			keys := sortedKeys(c)
			for _, k := range keys {
				cb.AddValue(k, wireNodeM(c[k], nullMode, false))
			}
			return cb
		}
		t, _ := x["t"].(string)
		s, _ := x["v"].(string)
		if t == "nil" && (nullMode == 1 || (nullMode == 2 && inList)) {
			return sharedNil
		}
		return dom.LeafNode(scalarFromWire(t, s))
	}
	panic(fmt.Sprintf("wireNode: unexpected %T", w))
}

var scribbleLeaf = dom.LeafNode("<<scribbled: the list aliased its constructor's slice>>")

func wireContainer(w W) dom.ContainerBuilder {
	return wireNode(w).(dom.ContainerBuilder)
}

func sortedKeys[T any](m map[string]T) []string {
	ks := make([]string, 0, len(m))
	for k := range m {
		ks = append(ks, k)
	}
	sort.Strings(ks)
	return ks
}

// flattenWire renders Container.Flatten() as sorted [[path, scalar], ...].
func flattenWire(c dom.Container) []any {
	f := c.Flatten()
	out := make([]any, 0, len(f))
	for _, k := range sortedKeys(f) {
		out = append(out, []any{k, scalarWire(f[k].Value())})
	}
	return out
}

// guard runs f and maps a panic to ("panic", text).
func guard(f func()) (outcome string, text string) {
	defer func() {
		if r := recover(); r != nil {
			if _, ok := r.(driverDead); ok {
				panic(r) // not the implementation's panic: the model driver went away
			}
			outcome, text = "panic", fmt.Sprint(r)
		}
	}()
	f()
	return "ok", ""
}

func errTag(err error) string {
	if err != nil {
		return "err"
	}
	return "ok"
}

// wireSize counts nodes.
func wireSize(w W) int {
	switch x := w.(type) {
	case []any:
		n := 1
		for _, e := range x {
			n += wireSize(e)
		}
		return n
	case map[string]any:
		if c, ok := x["m"].(map[string]any); ok {
			n := 1
			for _, e := range c {
				n += wireSize(e)
			}
			return n
		}
		return 1
	}
	return 1
}

// wireScalars counts scalar positions.
func wireScalars(w W) int {
	switch x := w.(type) {
	case []any:
		n := 0
		for _, e := range x {
			n += wireScalars(e)
		}
		return n
	case map[string]any:
		if c, ok := x["m"].(map[string]any); ok {
			n := 0
			for _, e := range c {
				n += wireScalars(e)
			}
			return n
		}
		return 1
	}
	return 0
}
