#!/usr/bin/env python3
"""Coverage of the code by the model: a regenerated, checked artefact.

    python3 tools/coverage_report.py            join + check + write COVERAGE.md   (offline, a few seconds)
    python3 tools/coverage_report.py --check    the same without rewriting COVERAGE.md
    python3 tools/coverage_report.py --reindex  re-derive tools/coverage_index.json from the COMPILED Lean
                                                modules (needs an up-to-date lean/.lake build; about 30 s)
    python3 tools/coverage_report.py --fill     rewrite the mechanical fields of coverage_map.json
                                                (theorems, digests) from the index / the tree

It joins
  (1) the API surface of the repository as it is NOW (`extract -api`: every top-level function and method of every
      non-test Go file, with size, reachability from the exported functions of the anchored files, source digest), with
  (2) coverage_map.json — the hand-written statement, per function, of HOW the framework covers it:
      modelled | translated | regenerated | parameter | exercised-only | not-covered
      (translated: the Lean definition is REGENERATED from the Go function by extract/translate*.go —
      `translated` names the generated definition(s) `Ytk.Generated.Funcs.<fn>` / `Ytk.Generated.FuncsDom.<fn>`,
      `equiv` the theorem(s) `<fn>_generated_eq_model` tying it to the hand-written counterpart named in `lean`;
      a function that is both hand-modelled and translated counts as translated)
and exits non-zero, listing them, when
  (a) a function of the source is missing from the map,
  (b) a map entry names a function that no longer exists,
  (c) a map entry names a Lean definition or theorem that does not exist in lean/ (checked by reading the
      `def|theorem|abbrev|inductive|structure|instance <name>` declarations with their namespaces), a Generated
      table file that does not exist, or a harness case kind that occurs nowhere in harness/*.go.
It also lists, without failing (use --strict to fail), the functions whose source digest differs from the one the
map entry was written against: those judgements ("mirrors the function") have to be re-read.

Environment: YTK_REPO=<worktree> (default /repo) like ./check.
"""
import hashlib
import json
import os
import re
import subprocess
import sys

VERIF = os.path.dirname(os.path.dirname(os.path.abspath(__file__)))
REPO = os.environ.get("YTK_REPO", "/repo")
WORK = os.path.join(VERIF, ".work")
LEAN = os.path.join(VERIF, "lean")
MAP = os.path.join(VERIF, "coverage_map.json")
INDEX = os.path.join(VERIF, "tools", "coverage_index.json")
OUT = os.path.join(VERIF, "COVERAGE.md")
STATUSES = ["modelled", "translated", "regenerated", "parameter", "exercised-only", "not-covered"]


# ---------------------------------------------------------------------------------------------------------------
# (1) API surface, regenerated from the repository

def go_env():
    env = dict(os.environ)
    env["GOFLAGS"] = "-mod=mod"
    env["GOPROXY"] = "off"
    return env


def tree_hash():
    h = hashlib.sha256()
    roots = [(REPO, lambda n: n.endswith(".go") and not n.endswith("_test.go")),
             (os.path.join(VERIF, "extract"), lambda n: n.endswith(".go"))]
    for root, want in roots:
        for dp, dn, fn in os.walk(root):
            dn[:] = sorted(d for d in dn if d not in (".git", "testdata", "vendor") and not d.startswith("."))
            for f in sorted(fn):
                if want(f):
                    p = os.path.join(dp, f)
                    h.update(os.path.relpath(p, root).encode() + b"\0")
                    with open(p, "rb") as fh:
                        h.update(fh.read())
                    h.update(b"\0")
    with open(os.path.join(VERIF, "properties.jsonl"), "rb") as fh:
        h.update(fh.read())
    h.update(REPO.encode())
    return h.hexdigest()[:20]


def api_surface():
    """Runs `extract -api` on the repository (cached in .work by the content of the Go sources)."""
    os.makedirs(WORK, exist_ok=True)
    cache = os.path.join(WORK, "coverage_api.%s.json" % tree_hash())
    if not os.path.exists(cache):
        ext_dir = os.path.join(VERIF, "extract")
        sumsrc = os.path.join(REPO, "go.sum")
        if os.path.exists(sumsrc):
            with open(sumsrc) as f, open(os.path.join(ext_dir, "go.sum"), "w") as g:
                g.write(f.read())
        exe = os.path.join(WORK, "extract-cov")
        r = subprocess.run(["go", "build", "-o", exe, "."], cwd=ext_dir, env=go_env(), capture_output=True, text=True)
        if r.returncode != 0:
            sys.exit("coverage: building the extractor failed:\n" + r.stdout + r.stderr)
        tmp = cache + ".tmp"
        r = subprocess.run([exe, "-repo", REPO, "-anchors", os.path.join(VERIF, "properties.jsonl"), "-api", tmp],
                           env=go_env(), capture_output=True, text=True)
        if r.returncode != 0:
            sys.exit("coverage: extract -api failed:\n" + r.stdout + r.stderr)
        for old in os.listdir(WORK):
            if old.startswith("coverage_api.") and old.endswith(".json"):
                os.remove(os.path.join(WORK, old))
        os.rename(tmp, cache)
    with open(cache) as f:
        return json.load(f)


# ---------------------------------------------------------------------------------------------------------------
# Lean declarations (names with their namespaces), read from the sources

DECL = re.compile(r'^\s*(?:@\[[^\]]*\]\s*)*(?:(?:private|protected|noncomputable|partial|unsafe|scoped|local)\s+)*'
                  r'(def|theorem|abbrev|inductive|structure|instance|class|opaque)\s+([^\s:({\[]+)')
NS = re.compile(r'^\s*namespace\s+(\S+)')
END = re.compile(r'^\s*end\s+(\S+)')


def strip_comments(s):
    out, i, depth, n = [], 0, 0, len(s)
    while i < n:
        if s.startswith("/-", i):
            depth += 1
            i += 2
        elif depth and s.startswith("-/", i):
            depth -= 1
            i += 2
        elif depth:
            if s[i] == "\n":
                out.append("\n")
            i += 1
        elif s.startswith("--", i):
            while i < n and s[i] != "\n":
                i += 1
        else:
            out.append(s[i])
            i += 1
    return "".join(out)


def lean_decls():
    """full name -> (kind, file, line) for every declaration under lean/ (build directory excluded)."""
    res = {}
    for dp, dn, fn in os.walk(LEAN):
        dn[:] = sorted(d for d in dn if d != ".lake")
        for f in sorted(fn):
            if not f.endswith(".lean"):
                continue
            p = os.path.join(dp, f)
            with open(p) as fh:
                src = strip_comments(fh.read())
            stack = []
            for ln, line in enumerate(src.split("\n"), 1):
                m = NS.match(line)
                if m:
                    stack.append(m.group(1))
                    continue
                m = END.match(line)
                if m and stack and stack[-1] == m.group(1):
                    stack.pop()
                    continue
                m = DECL.match(line)
                if m:
                    name = m.group(2)
                    full = name[7:] if name.startswith("_root_.") else ".".join(stack + [name])
                    res.setdefault(full, (m.group(1), os.path.relpath(p, LEAN), ln))
    return res


_HSRC = {}


def harness_src(pid):
    """text of the harness files a case kind of property `pid` can be declared in: harness/cNN*.go of that
    property plus the files shared between properties (heap_*.go, domhist.go, c20lib/ …)."""
    if not _HSRC:
        d = os.path.join(VERIF, "harness")
        for dp, dn, fn in os.walk(d):
            for f in sorted(fn):
                if f.endswith(".go"):
                    m = re.match(r"c(\d\d)", f) if dp == d else None
                    key = "C" + m.group(1) if m else "shared"
                    with open(os.path.join(dp, f)) as fh:
                        _HSRC[key] = _HSRC.get(key, "") + fh.read() + "\n"
    return _HSRC.get(pid, "") + _HSRC.get("shared", "")


# ---------------------------------------------------------------------------------------------------------------
# (2) the map

def expand(pat):
    m = re.search(r"\{([^{}]*)\}", pat)
    if not m:
        return [pat]
    out = []
    for alt in m.group(1).split(","):
        out += expand(pat[:m.start()] + alt.strip() + pat[m.end():])
    return out


def load_map():
    with open(MAP) as f:
        return json.load(f)


def save_map(m):
    with open(MAP, "w") as f:
        f.write(dump_map(m))


def dump_map(m):
    """One entry per block, short lists on one line: keeps the hand-written file reviewable in diffs."""
    def one(v):
        return json.dumps(v, ensure_ascii=False)
    lines = ["{"]
    for k in m:
        if k in ("entries", "digests"):
            continue
        lines.append(" %s: %s," % (one(k), json.dumps(m[k], ensure_ascii=False, indent=1).replace("\n", "\n ")))
    lines.append(' "entries": [')
    ents = m["entries"]
    for i, e in enumerate(ents):
        lines.append("  {")
        keys = list(e)
        for j, k in enumerate(keys):
            v = e[k]
            sep = "," if j < len(keys) - 1 else ""
            if isinstance(v, list) and len(one(v)) > 110:
                lines.append("   %s: [" % one(k))
                for x, it in enumerate(v):
                    lines.append("     %s%s" % (one(it), "," if x < len(v) - 1 else ""))
                lines.append("   ]" + sep)
            else:
                lines.append("   %s: %s%s" % (one(k), one(v), sep))
        lines.append("  }" + ("," if i < len(ents) - 1 else ""))
    lines.append(" ],")
    lines.append(' "digests": {')
    dg = m.get("digests", {})
    ks = sorted(dg)
    for i, k in enumerate(ks):
        lines.append("  %s: %s%s" % (one(k), one(dg[k]), "," if i < len(ks) - 1 else ""))
    lines.append(" }")
    lines.append("}")
    return "\n".join(lines) + "\n"


# ---------------------------------------------------------------------------------------------------------------
# theorem index (derived from the compiled Lean modules; --reindex / --fill)

def expected_theorems():
    res = []
    d = os.path.join(LEAN, "expected")
    for f in sorted(os.listdir(d)):
        if f.endswith(".json"):
            with open(os.path.join(d, f)) as fh:
                for n in json.load(fh):
                    res.append("Ytk.%s.%s" % (f[:-5], n))
    return res


AUX = re.compile(r"^(_.*|match_\d+|proof_\d+|eq_\d+|eq_def|sizeOf_spec|injEq|inj|noConfusion.*|rec.*|casesOn|brecOn.*|below.*|"
                 r"binductionOn|ctorIdx|toCtorIdx|ofNat|induct.*|fun_cases.*|mk|ctorElim.*|elim)$")


def base_name(n, known):
    """`Ytk.lookupSegs._f` / `Ytk.Foo.match_1` -> the source-level declaration it belongs to."""
    parts = n.split(".")
    while len(parts) > 1 and ".".join(parts) not in known and AUX.match(parts[-1]):
        parts.pop()
    return ".".join(parts)


def reindex():
    r = subprocess.run(["lake", "env", "lean", "--run", os.path.join(VERIF, "tools", "coverage_index.lean")],
                       cwd=LEAN, capture_output=True, text=True)
    if r.returncode != 0:
        sys.exit("coverage: Lean index failed (is lean/.lake built?):\n" + r.stderr[-2000:])
    raw = json.loads(r.stdout)
    known = lean_decls()
    exp = set(expected_theorems())
    thms = {}
    for t, cs in raw["theorems"].items():
        if t in exp:
            thms[t] = sorted({base_name(c, known) for c in cs} & set(known))
    missing = sorted(exp - set(thms))
    defs = {}
    for d, cs in raw["defs"].items():
        b = base_name(d, known)
        if b not in known:
            continue
        defs.setdefault(b, set()).update(x for x in (base_name(c, known) for c in cs) if x in known and x != b)
    out = {"_doc": "derived by tools/coverage_report.py --reindex from the compiled Lean modules: for every property "
                   "theorem (lean/expected/*.json) the YtkModel declarations its statement mentions (abbreviations "
                   "declared in YtkProps/YtkProofs unfolded); for every YtkModel definition the YtkModel declarations "
                   "its body mentions",
           "theorems": thms, "defs": {k: sorted(v) for k, v in sorted(defs.items())}}
    with open(INDEX, "w") as f:
        json.dump(out, f, indent=0, sort_keys=True, ensure_ascii=False)
        f.write("\n")
    print("coverage: index written: %d theorems, %d model definitions" % (len(thms), len(defs)))
    if missing:
        print("coverage: %d expected theorems not found in the compiled modules: %s" % (len(missing), ", ".join(missing[:10])))


class Index:
    """tools/coverage_index.json: which property theorems mention which model definitions."""

    def __init__(self):
        with open(INDEX) as f:
            idx = json.load(f)
        self.users = {}          # d -> definitions whose body mentions d
        for d, cs in idx["defs"].items():
            for c in cs:
                self.users.setdefault(c, set()).add(d)
        self.by_def = {}         # d -> theorems whose statement mentions d
        for t, cs in idx["theorems"].items():
            for c in cs:
                self.by_def.setdefault(c, set()).add(t)
        self.order = {t: i for i, t in enumerate(expected_theorems())}

    def up_closure(self, d):
        seen, work = set(), [d]
        while work:
            x = work.pop()
            for u in self.users.get(x, ()):
                if u not in seen:
                    seen.add(u)
                    work.append(u)
        return seen

    def sort(self, ts):
        return sorted(ts, key=lambda t: (self.order.get(t, 1 << 30), t))

    def direct(self, leans):
        res = set()
        for d in leans:
            res |= self.by_def.get(d, set())
        return self.sort(res)

    def indirect(self, leans):
        res = set()
        for d in leans:
            for u in self.up_closure(d):
                res |= self.by_def.get(u, set())
        return self.sort(res - set(self.direct(leans)))


def model_defs(e):
    """the Lean definitions of an entry whose theorems are looked up: the hand-written ones and, for a translated
    function, the generated ones (their `_generated_eq_model` theorems mention them)"""
    return list(e.get("lean", [])) + list(e.get("translated", []))


def fill(api):
    idx = Index()
    m = load_map()
    for e in m["entries"]:
        new = {}
        after = "lean" if "lean" in e else ("equiv" if "equiv" in e else None)
        for k, v in e.items():
            if k in ("theorems", "theorems_indirect"):
                continue
            new[k] = v
            if k == after:
                new["theorems"] = idx.direct(model_defs(e))
        e.clear()
        e.update(new)
    cur = {x["key"]: x["digest"] for x in api}
    dg = {}
    for e in m["entries"]:
        for p in e["fn"]:
            for k in expand(p):
                if k in cur:
                    dg[k] = cur[k]
    m["digests"] = dg
    save_map(m)
    print("coverage: coverage_map.json: theorems and digests filled for %d entries" % len(m["entries"]))


# ---------------------------------------------------------------------------------------------------------------
# join, check, report

def short_thm(t):
    return t[4:] if t.startswith("Ytk.") else t


def cell(s):
    return s.replace("|", "\\|").replace("\n", " ")


def fn_label(x):
    if x["recv"]:
        return "(%s%s).%s" % ("*" if x["ptr_recv"] else "", x["recv"], x["name"])
    return x["name"]


def main():
    args = set(sys.argv[1:])
    if "--reindex" in args:
        reindex()
        return 0
    api = api_surface()
    if "--fill" in args:
        fill(api)
        return 0
    m = load_map()
    decls = lean_decls()
    by_key = {x["key"]: x for x in api}
    problems = {"a": [], "b": [], "c": [], "dup": [], "shape": []}
    entry_of = {}
    idx = Index() if os.path.exists(INDEX) else None
    outdated = []    # entries whose theorem list is not what the index gives for their Lean definitions
    for i, e in enumerate(m["entries"]):
        if e.get("status") not in STATUSES:
            problems["shape"].append("entry %d (%s): unknown status %r" % (i, e.get("fn"), e.get("status")))
        if e.get("status") == "modelled" and not e.get("lean"):
            problems["shape"].append("entry %d (%s): modelled without a Lean definition" % (i, e.get("fn")))
        if e.get("status") == "translated" and not (e.get("translated") and e.get("equiv")):
            problems["shape"].append("entry %d (%s): translated without a generated definition (`translated`) and an "
                                     "equivalence theorem (`equiv`)" % (i, e.get("fn")))
        if e.get("status") != "translated" and (e.get("translated") or e.get("equiv")):
            problems["shape"].append("entry %d (%s): `translated` / `equiv` on an entry whose status is not translated" % (i, e.get("fn")))
        if e.get("status") == "regenerated" and not e.get("generated"):
            problems["shape"].append("entry %d (%s): regenerated without a Generated table" % (i, e.get("fn")))
        if e.get("status") == "parameter" and not e.get("contract"):
            problems["shape"].append("entry %d (%s): parameter without a contract" % (i, e.get("fn")))
        if e.get("status") == "exercised-only" and not e.get("harness"):
            problems["shape"].append("entry %d (%s): exercised-only without harness kinds" % (i, e.get("fn")))
        if e.get("status") == "not-covered" and not e.get("note"):
            problems["shape"].append("entry %d (%s): not-covered without a reason" % (i, e.get("fn")))
        for p in e.get("fn", []):
            for k in expand(p):
                if k not in by_key:
                    problems["b"].append(k)
                elif k in entry_of:
                    problems["dup"].append(k)
                else:
                    entry_of[k] = e
        for n in e.get("lean", []):
            if n not in decls:
                problems["c"].append("%s (definition, entry %s)" % (n, e["fn"][0]))
            elif decls[n][0] == "theorem":
                problems["c"].append("%s is a theorem, listed as a definition (entry %s)" % (n, e["fn"][0]))
        for n in e.get("translated", []):
            if n not in decls or decls[n][0] == "theorem":
                problems["c"].append("%s (generated definition, entry %s)" % (n, e["fn"][0]))
            elif not decls[n][1].startswith(os.path.join("YtkModel", "Generated", "Funcs")):
                problems["c"].append("%s is declared in %s, not in a generated Funcs*.lean (entry %s)" % (n, decls[n][1], e["fn"][0]))
        for n in e.get("equiv", []):
            if n not in decls or decls[n][0] != "theorem":
                problems["c"].append("%s (equivalence theorem, entry %s)" % (n, e["fn"][0]))
            elif "_generated_eq_model" not in n:
                problems["c"].append("%s is not a `_generated_eq_model` theorem (entry %s)" % (n, e["fn"][0]))
        for n in e.get("theorems", []):
            if n not in decls or decls[n][0] != "theorem":
                problems["c"].append("%s (theorem, entry %s)" % (n, e["fn"][0]))
        if idx is not None and model_defs(e) and idx.direct(model_defs(e)) != e.get("theorems", []):
            outdated.append(e["fn"][0])
        for g in e.get("generated", []):
            f = g.split(":")[0].strip()
            if not os.path.exists(os.path.join(LEAN, "YtkModel", f)):
                problems["c"].append("%s (generated table file, entry %s)" % (f, e["fn"][0]))
        for hk in e.get("harness", []):
            pid = hk.split(":")[0]
            if not re.fullmatch(r"C\d\d", pid) or ":" not in hk:
                problems["shape"].append("entry %s: harness kind %r is not of the form Cxx:kind" % (e["fn"][0], hk))
                continue
            kind = hk.split(":", 1)[1]
            if kind != "*" and ('"%s"' % kind) not in harness_src(pid):
                problems["c"].append("%s (harness kind: no string \"%s\" in the harness files of %s, entry %s)" % (hk, kind, pid, e["fn"][0]))
    for k in sorted(by_key):
        if k not in entry_of:
            problems["a"].append("%s (%d statements)" % (k, by_key[k]["stmts"]))
    stale = sorted(k for k, d in m.get("digests", {}).items() if k in by_key and by_key[k]["digest"] != d)
    unpinned = sorted(k for k in entry_of if k not in m.get("digests", {}))

    # ---- report
    L = []
    w = L.append
    w("# Coverage of yaml-toolkit by the model")
    w("")
    w("GENERATED by `python3 tools/coverage_report.py` — do not edit. It joins the API surface of the repository as it is")
    w("now (`extract -api`: every top-level function and method of every non-test Go file) with `coverage_map.json`,")
    w("the hand-written statement of how each function is covered, and fails when the two disagree (a function missing")
    w("from the map, a map entry for a function that is gone, a Lean definition or theorem that does not exist).")
    w("")
    w("Status of a function:")
    w("")
    w("* **modelled** — a hand-written Lean definition in `lean/YtkModel` mirrors it (same cases, same order); the property")
    w("  theorems listed speak about that definition; the harness kinds listed call the real function and compare. ")
    w("  `modelled (partly: …)` names what the mirror leaves out.")
    w("* **translated** — the Lean definition is regenerated from the Go function itself on every run (`extract/translate*.go` →")
    w("  `Generated/Funcs.lean`, `Generated/FuncsDom.lean`); the `…_generated_eq_model` theorem named proves, for all inputs, that it")
    w("  equals the hand-written counterpart named (which the property theorems are about). A function that is both hand-modelled")
    w("  and translated counts here.")
    w("* **regenerated** — no hand-written mirror; a fact extractor reads it from the source into a `Generated/*.lean` table on every run.")
    w("* **parameter** — behaviour of an external library / the OS; it enters the model as a parameter with the contract named (DESIGN section 7, item 5).")
    w("* **exercised-only** — the harness calls it (kinds listed) but nothing in the model corresponds to it.")
    w("* **not-covered** — neither; the reason is given.")
    w("")
    w("Sizes are statement counts (`ast.Stmt` nodes other than blocks, function literals included). *anchored* = declared in a")
    w("file some property names in `anchors.files`; *reachable* = reachable in the reference graph from an exported function")
    w("or method of an anchored file. Theorems: `n (+m)` = n property theorems whose statement mentions one of the Lean")
    w("definitions directly, m more that mention a model definition built on it (derived from the compiled modules,")
    w("`tools/coverage_index.json`); the first few are named. Harness kinds are `property:kind`; `Cxx:*` = every kind of that property.")
    w("")

    ind_cache = {}

    def indirect_of(e):
        if idx is None or not model_defs(e):
            return []
        k = id(e)
        if k not in ind_cache:
            ind_cache[k] = idx.indirect(model_defs(e))
        return ind_cache[k]

    def kinds(hs):
        """C01:a, C01:b, C02:* -> C01(a b) C02(*)"""
        by = {}
        for h in hs:
            p, k = h.split(":", 1)
            by.setdefault(p, []).append(k)
        return " ".join("%s(%s)" % (p, " ".join(by[p])) for p in sorted(by))

    def totals(sel):
        t = {s: [0, 0] for s in STATUSES}
        partly = [0, 0]
        for x in api:
            e = entry_of.get(x["key"])
            if e is None or not sel(x) or e.get("status") not in t:
                continue
            t[e["status"]][0] += 1
            t[e["status"]][1] += x["stmts"]
            if e["status"] == "modelled" and e.get("partly"):
                partly[0] += 1
                partly[1] += x["stmts"]
        return t, partly

    def totals_table(title, sel):
        t, partly = totals(sel)
        nf = sum(v[0] for v in t.values())
        ns = sum(v[1] for v in t.values())
        w("### " + title)
        w("")
        w("| status | functions | statements | share of statements |")
        w("|---|---:|---:|---:|")
        for s in STATUSES:
            w("| %s | %d | %d | %.1f %% |" % (s, t[s][0], t[s][1], 100.0 * t[s][1] / ns if ns else 0))
            if s == "modelled":
                w("| — of which partly | %d | %d | %.1f %% |" % (partly[0], partly[1], 100.0 * partly[1] / ns if ns else 0))
        w("| total | %d | %d | |" % (nf, ns))
        w("")

    w("## Totals")
    w("")
    totals_table("All functions", lambda x: True)
    totals_table("Functions of anchored files", lambda x: x["anchored"])
    totals_table("Functions reachable from the exported API of the anchored files", lambda x: x["reachable"])

    w("### By package (statements)")
    w("")
    w("| package | functions | statements | " + " | ".join(STATUSES) + " |")
    w("|---|---:|---:|" + "---:|" * len(STATUSES))
    pkgs = sorted({x["pkg"] for x in api})
    for p in pkgs:
        t, _ = totals(lambda x: x["pkg"] == p)
        w("| %s | %d | %d | %s |" % (p, sum(v[0] for v in t.values()), sum(v[1] for v in t.values()),
                                     " | ".join(str(t[s][1]) for s in STATUSES)))
    w("")

    w("## Largest anchored functions that are exercised-only or not-covered")
    w("")
    w("Candidates for the next modelling step.")
    w("")
    w("| function | statements | status | harness kinds | note |")
    w("|---|---:|---|---|---|")
    cand = [x for x in api if x["anchored"] and entry_of.get(x["key"], {}).get("status") in ("exercised-only", "not-covered")]
    cand.sort(key=lambda x: (-x["stmts"], x["key"]))
    for x in cand[:15]:
        e = entry_of[x["key"]]
        w("| `%s` %s:%d | %d | %s | %s | %s |" % (x["pkg"] + "." + fn_label(x), x["file"], x["line"], x["stmts"], e["status"],
                                                 cell(kinds(e.get("harness", []))), cell(e.get("note", ""))))
    w("")
    part = [x for x in api if x["anchored"] and entry_of.get(x["key"], {}).get("partly")
            and entry_of[x["key"]].get("status") == "modelled"]
    part.sort(key=lambda x: (-x["stmts"], x["key"]))
    if part:
        w("## Largest anchored functions modelled only partly")
        w("")
        w("| function | statements | what the model leaves out |")
        w("|---|---:|---|")
        for x in part[:15]:
            w("| `%s` %s:%d | %d | %s |" % (x["pkg"] + "." + fn_label(x), x["file"], x["line"], x["stmts"],
                                           cell(entry_of[x["key"]]["partly"])))
        w("")

    w("## Per package")
    for p in pkgs:
        w("")
        w("### " + p)
        w("")
        w("| function | stmts | status | Lean definition / table / contract | theorems | harness kinds |")
        w("|---|---:|---|---|---|---|")
        fns = [x for x in api if x["pkg"] == p]
        fns.sort(key=lambda x: (x["file"], x["line"]))
        for x in fns:
            e = entry_of.get(x["key"])
            flags = ""
            if not x["anchored"]:
                flags += " ·unanchored"
            elif not x["reachable"]:
                flags += " ·unreachable"
            name = "`%s` %s:%d%s" % (fn_label(x), x["file"], x["line"], flags)
            if e is None:
                w("| %s | %d | **MISSING FROM MAP** | | | |" % (name, x["stmts"]))
                continue
            st = e.get("status", "?")
            if e.get("partly"):
                st += (" (the hand-written counterpart partly: %s)" if st == "translated" else " (partly: %s)") % e["partly"]
            what = []
            if e.get("translated"):
                what.append("generated: " + ", ".join("`%s`" % short_thm(n) for n in e["translated"]) +
                            " — equivalence: " + ", ".join("`%s`" % short_thm(n) for n in e.get("equiv", [])))
                what.append("hand-written counterpart: " + (", ".join("`%s`" % short_thm(n) for n in e["lean"]) if e.get("lean")
                                                            else "none (the theorem states the meaning over core functions)"))
            elif e.get("lean"):
                what.append(", ".join("`%s`" % short_thm(n) for n in e["lean"]))
            if e.get("generated"):
                what.append("regenerated: " + "; ".join(e["generated"]))
            if e.get("contract"):
                what.append("contract: " + e["contract"])
            if e.get("note"):
                what.append("*" + e["note"] + "*")
            th = e.get("theorems", [])
            ti = indirect_of(e)
            tcell = ""
            if th or ti:
                tcell = "%d" % len(th)
                if ti:
                    tcell += " (+%d)" % len(ti)
                show = (th or ti)[:4]
                tcell += ": " + ", ".join(short_thm(t) for t in show)
                if len(th or ti) > 4:
                    tcell += ", …"
            w("| %s | %d | %s | %s | %s | %s |" % (name, x["stmts"], cell(st), cell("<br>".join(what)), cell(tcell),
                                                  cell(kinds(e.get("harness", [])))))
    w("")
    w("## Check")
    w("")
    n_bad = sum(len(v) for v in problems.values())
    if n_bad == 0:
        w("Map and source agree: %d functions, %d map entries, every named Lean definition and theorem exists." % (len(api), len(m["entries"])))
    else:
        w("**%d problems** (see the output of `tools/coverage_report.py`)." % n_bad)
    if stale:
        w("")
        w("Functions whose source changed since their map entry was written (judgement to be re-read): " + ", ".join("`%s`" % k for k in stale))
    else:
        w("")
        w("Every function has the source digest its map entry was written against.")
    text = "\n".join(L) + "\n"
    if "--check" not in args:
        with open(OUT, "w") as f:
            f.write(text)

    # ---- verdict
    titles = [("a", "functions present in the source but missing from the map"),
              ("b", "map entries whose function no longer exists"),
              ("c", "map entries naming a Lean definition, theorem or generated table that does not exist"),
              ("dup", "functions claimed by two map entries"),
              ("shape", "malformed map entries")]
    rc = 0
    for k, title in titles:
        if problems[k]:
            rc = 1
            print("coverage: (%s) %s:" % (k, title))
            for p in problems[k]:
                print("   " + p)
    if stale:
        print("coverage: source changed since the map entry was written (re-read the judgement, then --fill):")
        for k in stale:
            print("   " + k)
        if "--strict" in args:
            rc = 1
    if outdated:
        print("coverage: %d entries whose theorem list differs from tools/coverage_index.json (run --fill): %s"
              % (len(outdated), ", ".join(outdated[:5]) + (" …" if len(outdated) > 5 else "")))
    if unpinned and rc == 0:
        print("coverage: %d functions without a recorded digest (run --fill)" % len(unpinned))
    t, partly = totals(lambda x: True)
    print("coverage: %d functions, %d statements: " % (len(api), sum(x["stmts"] for x in api)) +
          ", ".join("%s %d/%d" % (s, t[s][0], t[s][1]) for s in STATUSES) + " (functions/statements)" +
          ("" if "--check" in args else "; COVERAGE.md written"))
    return rc


if __name__ == "__main__":
    sys.exit(main())
