#!/usr/bin/env python3
"""Confirm one seeded change and run the check against it.

  tools/seed_eval.py Cxx N [--keep]

The change lives in /tmp/seed-Cxx/out/N/{patch.diff,demo/,meta.json}; the scratch worktree is
/tmp/seed-Cxx/repo.  Steps: apply the patch there, build, run the repository's suite (must be at
baseline), run the demonstration (must fail), run `YTK_REPO=<worktree> ./check Cxx` (quick), undo
the patch, run the demonstration again (must pass).  With --keep the change is stored as
/verif/seeded/Cxx-N/ with meta.json extended by what was run and observed here.
"""
import json
import os
import shutil
import subprocess
import sys
import time

VERIF = os.path.dirname(os.path.dirname(os.path.abspath(__file__)))
ENV = dict(os.environ, GOFLAGS="-mod=mod", GOPROXY="off")
ENV.pop("GOSUMDB", None)
ENV.pop("GOTOOLCHAIN", None)
BASELINE_FAIL = {"TestFailOnCreate", "TestFailOnSave"}


def sh(cmd, cwd=None, env=None, timeout=1800):
    p = subprocess.run(cmd, cwd=cwd, env=env or ENV, stdout=subprocess.PIPE, stderr=subprocess.STDOUT, text=True,
                       timeout=timeout, shell=isinstance(cmd, str))
    return p.returncode, p.stdout


def main():
    pid, n = sys.argv[1], sys.argv[2]
    keep = "--keep" in sys.argv
    thorough = "--thorough" in sys.argv
    base = os.environ.get("SEED_BASE", "/tmp/seed-%s") % pid  # e.g. SEED_BASE=/tmp/seed2-%s
    wt = os.path.join(base, "repo")
    out = os.path.join(base, "out", n)
    patch = os.path.join(out, "patch.diff")
    demo = os.path.join(out, "demo")
    res = {"property": pid, "n": n}
    rc, o = sh(["git", "status", "--porcelain"], cwd=wt)
    if o.strip():
        sh(["git", "checkout", "--", "."], cwd=wt)
    rc, o = sh(["git", "apply", patch], cwd=wt)
    if rc != 0:
        print("PATCH DOES NOT APPLY", o)
        return 2
    try:
        rc, o = sh(["go", "build", "./..."], cwd=wt)
        res["builds"] = rc == 0
        rc, o = sh(["go", "test", "-vet=off", "-count=1", "./..."], cwd=wt)
        fails = set(l.split()[2] for l in o.split("\n") if l.startswith("--- FAIL"))
        res["suite_failures"] = sorted(fails)
        res["suite_at_baseline"] = fails <= BASELINE_FAIL and "build failed" not in o
        sh("cp %s/go.sum %s/go.sum" % (wt, demo))
        rc, o = sh(["go", "run", "."], cwd=demo, timeout=600)
        res["demo_fails_with_change"] = rc != 0 or "FAIL" in o
        res["demo_output_with_change"] = o[-600:]
        env = dict(ENV, YTK_REPO=wt)
        t0 = time.time()
        cmd = [os.path.join(VERIF, "check"), pid] + (["--thorough"] if thorough else [])
        rc, o = sh(cmd, cwd=VERIF, env=env, timeout=3600)
        res["check_exit"] = rc
        res["check_wall_s"] = round(time.time() - t0, 1)
        res["check_violation_lines"] = [l for l in o.split("\n") if l.startswith("VIOLATION") or l.startswith("  clause")][:12]
        res["detected"] = rc == 1 and any(l.startswith("VIOLATION property=%s" % pid) for l in o.split("\n"))
        res["detected_with_failing_input"] = res["detected"] and any(
            l.startswith("VIOLATION") and "no-failing-input-found" not in l for l in o.split("\n"))
    finally:
        sh(["git", "apply", "-R", patch], cwd=wt)
        sh(["git", "checkout", "--", "."], cwd=wt)
    # the check regenerated the fact tables from the changed tree: put back the ones of /repo
    sh([os.path.join(VERIF, ".work", "extract"), "-repo", "/repo", "-out", os.path.join(VERIF, "lean", "YtkModel", "Generated")])
    rc, o = sh(["go", "run", "."], cwd=demo, timeout=600)
    res["demo_passes_without"] = rc == 0 and "FAIL" not in o
    res["confirmed"] = bool(res.get("builds") and res.get("suite_at_baseline") and res.get("demo_fails_with_change")
                            and res.get("demo_passes_without"))
    print(json.dumps({k: res[k] for k in ("property", "n", "confirmed", "builds", "suite_at_baseline",
                                           "demo_fails_with_change", "demo_passes_without", "detected",
                                           "detected_with_failing_input", "check_wall_s")}))
    for l in res.get("check_violation_lines", []):
        print("   ", l)
    if keep and res["confirmed"]:
        dst = os.path.join(VERIF, "seeded", "%s-%d" % (pid, int(n) + int(os.environ.get("SEED_OFFSET", "0"))))
        shutil.rmtree(dst, ignore_errors=True)
        os.makedirs(dst)
        shutil.copy(patch, os.path.join(dst, "patch.diff"))
        shutil.copytree(demo, os.path.join(dst, "demo"))
        try:
            meta = json.load(open(os.path.join(out, "meta.json")))
        except Exception:
            meta = {}
        meta["confirmed_by_lead"] = {k: res[k] for k in res if k not in ("demo_output_with_change",)}
        meta["confirmed_by_lead"]["ran"] = [
            "git apply patch.diff (scratch worktree)", "go build ./...", "go test -vet=off -count=1 ./... (baseline: only k8s TestFailOnCreate/TestFailOnSave fail)",
            "go run . in demo/ with the change (must fail) and without (must pass)", "YTK_REPO=<worktree> ./check %s" % pid]
        json.dump(meta, open(os.path.join(dst, "meta.json"), "w"), indent=1)
    return 0


if __name__ == "__main__":
    sys.exit(main())
