#!/bin/bash
# Evaluate every finished round-9 seed (/tmp/seed9-Cxx/out/1/{meta.json,patch.diff}) that is not stored yet; stored as Cxx-16.
# Evidence files written while checking a changed tree are put back from git afterwards.
export SEED_BASE=/tmp/seed9-%s SEED_OFFSET=15
cd "$(dirname "$0")/.." && V=$(pwd)
PIDS="${@:-C*}"
for g in $PIDS; do for d in /tmp/seed9-$g/out/1; do
  [ -f "$d/meta.json" ] || continue
  [ -f "$d/patch.diff" ] || continue
  pid=$(echo $d | sed 's#/tmp/seed9-\(C[0-9]*\)/out/.*#\1#'); n=$(basename $d)
  dst=$V/seeded/$pid-$((n+15))
  [ -d "$dst" ] && continue
  python3 tools/seed_eval.py $pid $n --keep 2>&1 | grep -v "^    "
  git checkout -q -- evidence/$pid.json
done; done
rm -rf $V/replays/*
