#!/bin/bash
# Evaluate every finished round-8 seed (/tmp/seed8-Cxx/out/1/{meta.json,patch.diff}) that is not stored yet; stored as Cxx-15.
# Evidence files written while checking a changed tree are put back from git afterwards.
export SEED_BASE=/tmp/seed8-%s SEED_OFFSET=14
cd "$(dirname "$0")/.." && V=$(pwd)
for d in /tmp/seed8-C*/out/1; do
  [ -f "$d/meta.json" ] || continue
  [ -f "$d/patch.diff" ] || continue
  pid=$(echo $d | sed 's#/tmp/seed8-\(C[0-9]*\)/out/.*#\1#'); n=$(basename $d)
  dst=$V/seeded/$pid-$((n+14))
  [ -d "$dst" ] && continue
  python3 tools/seed_eval.py $pid $n --keep 2>&1 | grep -v "^    "
  git checkout -q -- evidence/$pid.json
done
rm -rf $V/replays/*
