#!/usr/bin/env python3
"""Register / update one check in MANIFEST.json:  tools/manifest_add.py Cxx "<level text>" "<level note>" """
import json
import os
import sys

ROOT = os.path.dirname(os.path.dirname(os.path.abspath(__file__)))


def main():
    pid, text, note = sys.argv[1], sys.argv[2], sys.argv[3]
    path = os.path.join(ROOT, "MANIFEST.json")
    m = json.load(open(path))
    m["not_applicable"] = [x for x in m.get("not_applicable", []) if x["property_id"] != pid]
    m["checks"] = [c for c in m["checks"] if c["property_id"] != pid]
    m["checks"].append({
        "property_id": pid,
        "quick_cmd": "./check %s" % pid,
        "thorough_cmd": "./check %s --thorough" % pid,
        "evidence_file": "/verif/evidence/%s.json" % pid,
        "replay_cmd_template": "./check %s --replay {path}" % pid,
        "engine": "lean4-proof+correspondence",
        "level_claimed": {"category": "proof", "text": text, "design_ref": "DESIGN.md section 6, " + pid},
        "level_note": note,
        "technique": "Lean 4 machine-checked proof over hand-written model + correspondence check"})
    m["checks"].sort(key=lambda c: c["property_id"])
    m["engines"][0]["serves_properties"] = [c["property_id"] for c in m["checks"]]
    json.dump(m, open(path, "w"), indent=1)


if __name__ == "__main__":
    main()
