#!/bin/bash
# Copy the "latest_check" results of a finished snapshot sweep (vp run <n>) back into /verif/seeded/*/meta.json —
# only for the seeds that run actually swept (those named in its log).
n=$1; src=/root/.vp/runs/$n/verif/seeded
python3 - "$src" "/root/.vp/runs/$n/log" <<'P'
import json,os,re,sys
src,log=sys.argv[1],sys.argv[2]; dst='/verif/seeded'; k=0
swept=set(re.findall(r'^(C\d\d-\d+)\s+detected=', open(log).read(), flags=re.M))
for sid in sorted(swept):
    a=os.path.join(src,sid,'meta.json'); b=os.path.join(dst,sid,'meta.json')
    if not (os.path.exists(a) and os.path.exists(b)): continue
    ma=json.load(open(a)); mb=json.load(open(b))
    if 'latest_check' in ma and ma['latest_check']!=mb.get('latest_check'):
        mb['latest_check']=ma['latest_check']; json.dump(mb,open(b,'w'),indent=1); k+=1
print('updated',k,'of',len(swept),'swept')
P
