#!/bin/bash
# Evaluate every finished round-3 seed (out/N/meta.json present) that is not stored yet.
# Evidence files written while checking a changed tree are put back from git afterwards.
export SEED_BASE=/tmp/seed7-%s SEED_OFFSET=12
cd /verif
for d in /tmp/seed7-C*/out/[12]; do
  [ -f "$d/meta.json" ] || continue
  [ -f "$d/patch.diff" ] || continue
  pid=$(echo $d | sed 's#/tmp/seed7-\(C[0-9]*\)/out/.*#\1#'); n=$(basename $d)
  dst=/verif/seeded/$pid-$((n+12))
  [ -d "$dst" ] && continue
  python3 tools/seed_eval.py $pid $n --keep 2>&1 | grep -v "^    "
  git checkout -q -- evidence/$pid.json
done
rm -rf /verif/replays/*
