#!/usr/bin/env python3
"""Re-run the quick check of every stored seeded change against the current machinery.

  tools/seed_sweep.py [Cxx ...]      (default: all of /verif/seeded)

Each change is applied in a scratch worktree of /repo (outside /repo and /verif), the property's check
is run with YTK_REPO pointing at it, the patch is undone, and the outcome is written back into
seeded/<id>/meta.json under "latest_check".  The generated fact tables are restored at the end.
"""
import json
import os
import subprocess
import sys
import time

VERIF = os.path.dirname(os.path.dirname(os.path.abspath(__file__)))
WT = os.environ.get("SWEEP_WT", "/tmp/seed-sweep/repo")
ENV = dict(os.environ, GOFLAGS="-mod=mod", GOPROXY="off", YTK_REPO=WT)
ENV.pop("GOSUMDB", None)
ENV.pop("GOTOOLCHAIN", None)


def sh(cmd, cwd=None, env=None, timeout=3600):
    p = subprocess.run(cmd, cwd=cwd, env=env, stdout=subprocess.PIPE, stderr=subprocess.STDOUT, text=True, timeout=timeout)
    return p.returncode, p.stdout


def main():
    want = set(sys.argv[1:])
    ids = sorted(d for d in os.listdir(os.path.join(VERIF, "seeded")) if not want or d.split("-")[0] in want or d in want)
    sh(["git", "-C", "/repo", "worktree", "remove", "--force", WT])
    os.makedirs(os.path.dirname(WT), exist_ok=True)
    rc, o = sh(["git", "-C", "/repo", "worktree", "add", "-q", WT, "HEAD"])
    if rc != 0:
        print(o)
        return 2
    missed = []
    try:
        for sid in ids:
            pid = sid.split("-")[0]
            d = os.path.join(VERIF, "seeded", sid)
            rc, o = sh(["git", "apply", os.path.join(d, "patch.diff")], cwd=WT)
            if rc != 0:
                print(sid, "PATCH DOES NOT APPLY", o[:200])
                continue
            t0 = time.time()
            rc, o = sh([os.path.join(VERIF, "check"), pid], cwd=VERIF, env=ENV)
            sh(["git", "checkout", "--", "."], cwd=WT)
            sh(["git", "clean", "-fdq"], cwd=WT)
            lines = [l for l in o.split("\n") if l.startswith("VIOLATION")]
            with_input = [l for l in lines if "no-failing-input-found" not in l]
            clauses = [l.strip()[8:] for l in o.split("\n") if l.startswith("  clause:")]
            res = {"detected": rc == 1 and bool(lines), "with_failing_input": bool(with_input), "clauses": clauses[:8],
                   "wall_s": round(time.time() - t0, 1)}
            meta_p = os.path.join(d, "meta.json")
            meta = json.load(open(meta_p))
            meta["latest_check"] = res
            json.dump(meta, open(meta_p, "w"), indent=1)
            print("%-7s detected=%-5s with_input=%-5s %5.1fs  %s" % (sid, res["detected"], res["with_failing_input"], res["wall_s"], "; ".join(clauses[:3])[:90]))
            if not res["with_failing_input"]:
                missed.append(sid)
    finally:
        sh(["git", "-C", "/repo", "worktree", "remove", "--force", WT])
        sh([os.path.join(VERIF, ".work", "extract"), "-repo", "/repo", "-out", os.path.join(VERIF, "lean", "YtkModel", "Generated")])
        sh(["rm", "-rf", os.path.join(VERIF, "replays")])
    print("not detected with a failing input:", missed)
    return 0


if __name__ == "__main__":
    sys.exit(main())
