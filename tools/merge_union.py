#!/usr/bin/env python3
"""Resolve 'both sides appended' merge conflicts: keep both sides (ours first).  For lean/expected/*.json the two
lists are united (order kept, duplicates dropped).  Usage: tools/merge_union.py <file> ..."""
import json, re, subprocess, sys
for f in sys.argv[1:]:
    s = open(f).read()
    if f.endswith('.json'):
        ours = subprocess.run(['git', 'show', ':2:' + f], capture_output=True, text=True).stdout
        theirs = subprocess.run(['git', 'show', ':3:' + f], capture_output=True, text=True).stdout
        a, b = json.loads(ours), json.loads(theirs)
        out = a + [x for x in b if x not in a]
        open(f, 'w').write(json.dumps(out, indent=1) + "\n")
    else:
        s = re.sub(r'^<<<<<<< .*\n', '', s, flags=re.M)
        s = re.sub(r'^=======\n', '', s, flags=re.M)
        s = re.sub(r'^>>>>>>> .*\n', '', s, flags=re.M)
        # both sides usually re-open `namespace Ytk.Cxx` and shared the closing `end`: close before re-opening
        out, stack = [], []
        for line in s.split('\n'):
            m = re.match(r'^namespace\s+(\S+)\s*$', line)
            e = re.match(r'^end\s+(\S+)\s*$', line)
            if m:
                if stack and stack[-1] == m.group(1) and m.group(1).startswith('Ytk.C'):
                    out += ['end ' + m.group(1), '']
                    stack.pop()
                stack.append(m.group(1))
            elif e and stack and stack[-1] == e.group(1):
                stack.pop()
            out.append(line)
        open(f, 'w').write('\n'.join(out))
    subprocess.run(['git', 'add', f])
    print('resolved', f)
