#!/usr/bin/env python3
"""Resolve 'both sides appended' merge conflicts: keep both sides (ours first).  For lean/expected/*.json the two
lists are united (order kept, duplicates dropped).  Usage: tools/merge_union.py <file> ..."""
import json, re, subprocess, sys
for f in sys.argv[1:]:
    s = open(f).read()
    if f.endswith('.json'):
        ours = subprocess.run(['git', 'show', ':2:' + f], capture_output=True, text=True).stdout
        theirs = subprocess.run(['git', 'show', ':3:' + f], capture_output=True, text=True).stdout
        a, b = json.loads(ours), json.loads(theirs)
        out = a + [x for x in b if x not in a]
        open(f, 'w').write(json.dumps(out, indent=1) + "\n")
    else:
        s = re.sub(r'^<<<<<<< .*\n', '', s, flags=re.M)
        s = re.sub(r'^=======\n', '', s, flags=re.M)
        s = re.sub(r'^>>>>>>> .*\n', '', s, flags=re.M)
        open(f, 'w').write(s)
    subprocess.run(['git', 'add', f])
    print('resolved', f)
