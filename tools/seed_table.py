#!/usr/bin/env python3
"""Print the markdown table of DESIGN.md section 10.5 for the seeded changes whose number is in the given range.

  tools/seed_table.py 3 4        (round 2: seeds Cxx-3 and Cxx-4)
"""
import glob, json, os, sys
VERIF = os.path.dirname(os.path.dirname(os.path.abspath(__file__)))
lo, hi = int(sys.argv[1]), int(sys.argv[2])
print("| seed | what was changed | first evaluation | now: clauses that fire |")
print("|---|---|---|---|")
for d in sorted(glob.glob(os.path.join(VERIF, "seeded", "C*-*"))):
    sid = os.path.basename(d)
    n = int(sid.split("-")[1])
    if not lo <= n <= hi:
        continue
    m = json.load(open(os.path.join(d, "meta.json")))
    first = m.get("confirmed_by_lead", {})
    f = "detected" if first.get("detected_with_failing_input") else ("divergence / broken obligation only" if first.get("detected") else "**missed**")
    lc = m.get("latest_check")
    if lc:
        now = "; ".join(lc.get("clauses", [])[:2]) if lc.get("with_failing_input") else ("no failing input" if lc.get("detected") else "**missed**")
    else:
        now = "(as first evaluation)" if first.get("detected_with_failing_input") else "not re-run"
    t = m.get("title", "").replace("|", "/")
    if len(t) > 140:
        t = t[:137] + "…"
    print("| %s | %s | %s | %s |" % (sid, t, f, now[:160].replace("|", "/")))
