#!/usr/bin/env python3
"""For every stored seeded change: does it alter a definition that the Go→Lean translator regenerates
(Generated/Funcs.lean, Generated/FuncsDom.lean), or make the translator fail loudly?  Only the extractor runs
(no lake build); the result is written to seeded/translated_functions_touched.json."""
import json, os, subprocess, sys, tempfile, re
VERIF = os.path.dirname(os.path.dirname(os.path.abspath(__file__)))
WT = os.environ.get("SWEEP_WT", "/tmp/seed-xl/repo")
ENV = dict(os.environ, GOFLAGS="-mod=mod", GOPROXY="off")
def sh(cmd, cwd=None):
    p = subprocess.run(cmd, cwd=cwd, env=ENV, stdout=subprocess.PIPE, stderr=subprocess.STDOUT, text=True)
    return p.returncode, p.stdout
def defs(path):
    out = {}
    if not os.path.exists(path):
        return out
    cur, buf = None, []
    for line in open(path):
        m = re.match(r"^(?:partial )?def (\S+)", line)
        if line.startswith("/--") or m and cur is None:
            pass
        if m:
            if cur: out[cur] = "".join(buf)
            cur, buf = m.group(1), []
        if cur: buf.append(line)
    if cur: out[cur] = "".join(buf)
    return out
def main():
    ext = os.path.join(VERIF, ".work", "extract")
    sh(["git", "-C", "/repo", "worktree", "remove", "--force", WT])
    os.makedirs(os.path.dirname(WT), exist_ok=True)
    sh(["git", "-C", "/repo", "worktree", "add", "-q", "--detach", WT, "HEAD"])
    base = tempfile.mkdtemp()
    sh([ext, "-repo", WT, "-out", base])
    b = {f: defs(os.path.join(base, f)) for f in ("Funcs.lean", "FuncsDom.lean")}
    res = {}
    try:
        for sid in sorted(os.listdir(os.path.join(VERIF, "seeded"))):
            pf = os.path.join(VERIF, "seeded", sid, "patch.diff")
            if not os.path.exists(pf): continue
            rc, o = sh(["git", "apply", pf], cwd=WT)
            if rc != 0:
                res[sid] = {"applies": False}; continue
            out = tempfile.mkdtemp()
            rc, o = sh([ext, "-repo", WT, "-out", out])
            changed = []
            for f in b:
                d = defs(os.path.join(out, f))
                # ignore the doc comment line carrying position/digest: compare bodies only
                for k in set(b[f]) | set(d):
                    if re.sub(r"/--.*?-/", "", b[f].get(k, ""), flags=re.S) != re.sub(r"/--.*?-/", "", d.get(k, ""), flags=re.S):
                        changed.append(f[:-5] + "." + k)
            fail = rc != 0 and ("translate" in o or "Funcs" in o)
            if changed or fail:
                res[sid] = {"changed_definitions": sorted(changed), "translator_failed_loudly": fail, "extractor_tail": o[-300:] if rc != 0 else ""}
                print(sid, sorted(changed)[:6], "FAIL" if fail else "", flush=True)
            sh(["git", "checkout", "--", "."], cwd=WT); sh(["git", "clean", "-fdq"], cwd=WT)
    finally:
        sh(["git", "-C", "/repo", "worktree", "remove", "--force", WT])
    json.dump(res, open(os.path.join(VERIF, "seeded", "translated_functions_touched.json"), "w"), indent=1, sort_keys=True)
    print(len(res), "of the stored seeds touch a translated function")
main()
