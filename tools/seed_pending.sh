#!/bin/bash
# Evaluate every finished round-2 seed (out/N/meta.json present) that is not stored yet.
export SEED_BASE=/tmp/seed2-%s SEED_OFFSET=2
cd /verif
for d in /tmp/seed2-C*/out/[12]; do
  [ -f "$d/meta.json" ] || continue
  [ -f "$d/patch.diff" ] || continue
  pid=$(echo $d | sed 's#/tmp/seed2-\(C[0-9]*\)/out/.*#\1#'); n=$(basename $d)
  dst=/verif/seeded/$pid-$((n+2))
  [ -d "$dst" ] && continue
  python3 tools/seed_eval.py $pid $n --keep 2>&1 | grep -v "^    "
done
rm -rf /verif/replays/*
