#!/usr/bin/env python3
"""(Re)write the 'Rounds 6-9' part of DESIGN.md section 10.5 from tools/design_rounds_prose.md and the seed metadata."""
import os, re, subprocess
V = os.path.dirname(os.path.dirname(os.path.abspath(__file__)))
B, E = "<!-- rounds-6-9 begin -->", "<!-- rounds-6-9 end -->"
def table(lo, hi):
    return subprocess.run(["python3", os.path.join(V, "tools", "seed_table.py"), str(lo), str(hi)], capture_output=True, text=True).stdout
prose = open(os.path.join(V, "tools", "design_rounds_prose.md")).read()
r9 = open(os.path.join(V, "tools", "design_round9_prose.md")).read() if os.path.exists(os.path.join(V, "tools", "design_round9_prose.md")) else ""
body = (B + "\n" + prose + "\nRound 6:\n\n" + table(11, 12) + "\nRound 7:\n\n" + table(13, 14) + "\nRound 8:\n\n" + table(15, 15)
        + "\n" + r9 + ("\n" + table(16, 16) if r9 else "") + "\n" + E + "\n\n")
p = os.path.join(V, "DESIGN.md")
s = open(p).read()
if B in s:
    s = s[:s.index(B)] + s[s.index(E) + len(E):].lstrip("\n")
    s = s.replace("### 10.6 Open items", body + "### 10.6 Open items", 1) if False else s
marker = "### 10.6 Open items"
i = s.index(marker)
s = s[:i] + body + s[i:]
open(p, "w").write(s)
print("ok")
