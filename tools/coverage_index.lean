/-
  Theorem index for the coverage map (tools/coverage_report.py --reindex):
    cd lean && lake env lean --run ../tools/coverage_index.lean > ../tools/coverage_index.json
  Loads the compiled property modules YtkProps.C01 … C20 (one environment each) and prints, as JSON,
    "theorems": for every theorem declared in a YtkProps module: the constants its STATEMENT (type) mentions
                that are declared in a YtkModel module — after unfolding definitions that live in
                YtkProps / YtkProofs (statement-local abbreviations), transitively;
    "defs":     for every definition declared in a YtkModel module: the YtkModel constants its body mentions
                (one step; the Python side closes it transitively).
  Nothing here is a proof obligation; it only answers "which theorems speak about this model definition".
-/
import Lean
open Lean

def modOf (env : Environment) (n : Name) : String :=
  match env.getModuleIdxFor? n with
  | some i => (env.header.moduleNames[i.toNat]!).toString
  | none => ""

def isModel (env : Environment) (n : Name) : Bool := (modOf env n).startsWith "YtkModel"
def isGlue (env : Environment) (n : Name) : Bool :=
  let m := modOf env n
  m.startsWith "YtkProps" || m.startsWith "YtkProofs"

/-- constants of `e`, with non-theorem constants from YtkProps/YtkProofs unfolded (transitively) -/
partial def modelConsts (env : Environment) (e : Expr) : Array String := Id.run do
  let mut seen : NameSet := {}
  let mut out : Array String := #[]
  let mut work : Array Name := e.getUsedConstants
  while !work.isEmpty do
    let n := work.back!
    work := work.pop
    if seen.contains n then continue
    seen := seen.insert n
    if isModel env n then
      out := out.push n.toString
    else if isGlue env n then
      match env.find? n with
      | some (.defnInfo d) => work := work ++ d.value.getUsedConstants
      | some (.inductInfo i) =>
        for c in i.ctors do
          match env.find? c with
          | some ci => work := work ++ ci.type.getUsedConstants
          | none => pure ()
      | _ => pure ()
  return out.qsort (· < ·)

unsafe def main (_ : List String) : IO UInt32 := do
  let mods : Array Name := (List.range 20).toArray.map fun i =>
    let s := toString (i + 1)
    Name.str (Name.str .anonymous "YtkProps") ("C" ++ (if s.length == 1 then "0" ++ s else s))
  initSearchPath (← findSysroot)
  let mut thms : Array (String × Json) := #[]
  let mut defs : Array (String × Json) := #[]
  let mut seenDefs : NameSet := {}
  -- one environment per property module: the lemma libraries of different properties reuse names
  for md in mods do
    let env ← importModules #[{ module := md }] {}
    for (n, ci) in env.constants.toList do
      let m := modOf env n
      match ci with
      | .thmInfo t =>
        if m == md.toString && !n.isInternal then
          thms := thms.push (n.toString, .arr ((modelConsts env t.type).map Json.str))
      | .defnInfo d =>
        if m.startsWith "YtkModel" && !seenDefs.contains n then
          seenDefs := seenDefs.insert n
          let cs := (d.value.getUsedConstants.filter (isModel env)).map (·.toString)
          defs := defs.push (n.toString, .arr ((cs.qsort (· < ·)).map Json.str))
      | .inductInfo i =>
        if m.startsWith "YtkModel" && !seenDefs.contains n then
          seenDefs := seenDefs.insert n
          let mut cs : Array String := #[]
          for c in i.ctors do
            if let some cc := env.find? c then
              cs := cs ++ (cc.type.getUsedConstants.filter (isModel env)).map (·.toString)
          defs := defs.push (n.toString, .arr ((cs.qsort (· < ·)).map Json.str))
      | _ => pure ()
  let srt (a : Array (String × Json)) := (a.qsort (fun x y => x.1 < y.1)).toList
  IO.println (Json.mkObj [("theorems", Json.mkObj (srt thms)), ("defs", Json.mkObj (srt defs))]).compress
  return 0
